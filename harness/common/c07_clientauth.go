//go:build verif

package vfpkg

//vf:pkgs tlcp dtlcp

// C07: a server completes only when its client-authentication policy is satisfied.
// Client behaviours that the public API cannot produce (certificate without proof of possession,
// proof over another transcript, ...) are played by the scripted client-role peer.

import (
	"bytes"
	"encoding/json"
	"fmt"
	"sync"
	"testing"
	"time"

	x509 "github.com/emmansun/gmsm/smx509"

	"pgregory.net/rapid"
)

type c07Case struct {
	Policy int    `json:"policy"`
	Suite  uint16 `json:"suite"`
	Beh    string `json:"beh"`
	Param  int    `json:"param"`
	// NoClientCAs: the server has no client roots configured (ClientCAs nil) but does have RootCAs
	// (which are for verifying servers, not clients) naming the client's issuer
	NoClientCAs bool `json:"no_client_cas,omitempty"`
	// SrvSkipVerify: the server's Config carries InsecureSkipVerify (a switch for the client role: it
	// says nothing about client certificates)
	SrvSkipVerify bool `json:"srv_skip_verify,omitempty"`
}

var c07Behaviours = []string{"no-cert-msg", "empty", "trusted", "untrusted", "expired", "wrong-eku", "enc-untrusted", "enc-expired", "enc-wrong-eku", "sig-wrong-eku", "private-eku", "cv-omitted", "cv-omitted-encleaf", "cv-otherkey", "cv-othertranscript", "cv-corrupt", "cv-second-cert-key", "cv-encleaf-second-cert-key", "one-cert"}

// c07Allows: the documented meaning of the six ClientAuthType constants, plus the standard's rule
// that the ECDHE key exchange needs both client certificates.
func c07Allows(policy ClientAuthType, ecdhe bool, beh string) (complete bool, verified bool) {
	requested := policy >= RequestClientCert || ecdhe
	if !requested {
		return beh == "no-cert-msg", false // an unrequested Certificate message is a protocol error
	}
	if beh == "no-cert-msg" {
		return false, false // a requested Certificate message must be sent, even if empty
	}
	if beh == "empty" {
		return !requiresClientCert(policy) && !ecdhe, false
	}
	verifies := policy >= VerifyClientCertIfGiven
	switch beh {
	case "untrusted", "expired":
		if verifies {
			return false, false
		}
	case "sig-wrong-eku":
		// only the signing certificate (the client's identity) has the wrong extended key usage
		if verifies && policy != RequireAndVerifyAnyKeyUsageClientCert {
			return false, false
		}
	case "enc-wrong-eku":
		if verifies && ecdhe && policy != RequireAndVerifyAnyKeyUsageClientCert {
			return false, false
		}
	case "enc-untrusted", "enc-expired":
		// only the encryption certificate is bad: it is part of the client's identity for ECDHE
		// (the key agreement uses it); for ECC suites it is an unused extra certificate
		if verifies && ecdhe {
			return false, false
		}
	case "wrong-eku", "private-eku":
		if verifies && policy != RequireAndVerifyAnyKeyUsageClientCert {
			return false, false
		}
	case "cv-omitted", "cv-omitted-encleaf", "cv-otherkey", "cv-othertranscript", "cv-corrupt", "cv-second-cert-key", "cv-encleaf-second-cert-key":
		// whoever sends a certificate must prove possession of its key: the key of the certificate the
		// server reports as the client's identity (the first one), not of some other certificate in the list
		return false, false
	}
	return true, verifies
}

var (
	c07AttOnce sync.Once
	c07Att     Certificate
)

// c07Attacker: a certificate the attacker made for itself (own root, digitalSignature usage) with its key.
func c07Attacker() Certificate {
	c07AttOnce.Do(func() {
		ca := vfNewCA("vf-attacker-root")
		c07Att = ca.leaf(vfLeafOpt{cn: "attacker", eku: []x509.ExtKeyUsage{x509.ExtKeyUsageClientAuth}})
	})
	return c07Att
}

func c07Run(c c07Case) (sig, msg string) {
	p := vfGetPKI()
	ecdhe := vfIsECDHE(c.Suite)
	ucfg := &Config{Time: vfTime, Certificates: []Certificate{p.SrvSig, p.SrvEnc}, CipherSuites: []uint16{c.Suite},
		ClientAuth: ClientAuthType(c.Policy), ClientCAs: p.A.pool}
	if c.NoClientCAs {
		ucfg.ClientCAs, ucfg.RootCAs = nil, p.A.pool
	}
	ucfg.InsecureSkipVerify = c.SrvSkipVerify
	sigC, encC := p.CliSig, p.CliEnc
	switch c.Beh {
	case "untrusted":
		sigC, encC = p.CliSigB, p.CliEncB
	case "expired":
		sigC, encC = p.CliSigExpired, p.CliEncExpired
	case "wrong-eku":
		sigC, encC = p.CliSigCodeSign, p.CliEncCodeSign
	case "private-eku":
		sigC, encC = p.CliSigPrivEKU, p.CliEncPrivEKU
	case "enc-untrusted":
		encC = p.CliEncB
	case "enc-expired":
		encC = p.CliEncExpired
	case "enc-wrong-eku":
		encC = p.CliEncCodeSign
	case "sig-wrong-eku":
		sigC = p.CliSigCodeSign
	case "cv-second-cert-key":
		// somebody else's signing certificate followed by the attacker's own certificate
		encC = c07Attacker()
	case "cv-omitted-encleaf":
		// the client's own encryption certificate (no digitalSignature usage) listed first, no proof at all
		sigC = p.CliEnc
	case "cv-encleaf-second-cert-key":
		// somebody else's encryption certificate (no digitalSignature usage) as the leaf
		sigC, encC = p.CliEnc, c07Attacker()
		sigC.PrivateKey = nil
	}
	pcfg := &Config{Time: vfTime, InsecureSkipVerify: true, CipherSuites: []uint16{c.Suite}, Certificates: []Certificate{sigC, encC}}
	peerDone := false
	peer := func(pc *Conn) error {
		cp := vfNewCliPeer(pc)
		if err := cp.SendClientHello(vfCHOpt{}); err != nil {
			return err
		}
		if err := cp.ReadServerFlight(); err != nil {
			return err
		}
		var sums [][]byte
		sums = append(sums, cp.hs.finishedHash.Sum())
		sendsCert := c.Beh != "no-cert-msg"
		if sendsCert {
			var certs [][]byte
			if c.Beh != "empty" {
				certs = [][]byte{sigC.Certificate[0], encC.Certificate[0]}
			}
			if c.Beh == "one-cert" {
				certs = certs[:1] // the signing certificate only
			}
			if err := cp.SendCertificate(certs); err != nil {
				return err
			}
			sums = append(sums, cp.hs.finishedHash.Sum())
		}
		if err := cp.PrepareCKE(&encC); err != nil {
			return err
		}
		if err := cp.SendCKE(nil); err != nil {
			return err
		}
		if sendsCert && c.Beh != "empty" {
			var err error
			switch c.Beh {
			case "cv-omitted", "cv-omitted-encleaf":
			case "cv-otherkey":
				err = cp.SendCertVerify(c02OtherKey(), nil, false)
			case "cv-othertranscript":
				over := sums[c.Param%len(sums)]
				if c.Param%3 == 2 {
					over = refSM3([]byte("some other handshake"))
				}
				err = cp.SendCertVerify(sigC.PrivateKey, over, false)
			case "cv-corrupt":
				err = cp.SendCertVerify(sigC.PrivateKey, nil, true)
			case "cv-second-cert-key", "cv-encleaf-second-cert-key":
				err = cp.SendCertVerify(encC.PrivateKey, nil, false)
			default:
				err = cp.SendCertVerify(sigC.PrivateKey, nil, false)
			}
			if err != nil {
				return err
			}
		}
		cp.ComputeMaster()
		if err := cp.EstablishKeys(); err != nil {
			return err
		}
		if err := cp.SendCCS(); err != nil {
			return err
		}
		if err := cp.SendFinished(false); err != nil {
			return err
		}
		if err := cp.ReadServerFinished(); err != nil {
			return err
		}
		peerDone = true
		return nil
	}
	r := vfRunVsPeer(false, ucfg, pcfg, peer, nil)
	if r.UPanic != "" {
		return "panic", "server panicked: " + r.UPanic
	}
	if r.PPanic != "" {
		return "harness-peer-panic", r.PPanic
	}
	if r.UHung {
		return "hang", fmt.Sprintf("server neither completed nor failed (peer: %v)", r.PErr)
	}
	if c.Beh == "one-cert" {
		// a Certificate message with a single certificate: the key agreement of the ECDHE suites needs
		// the client's encryption certificate, so such a handshake cannot complete there; elsewhere
		// only "no panic, no hang" (checked above) is asserted
		if ecdhe && r.UErr == nil {
			return "policy-table:one-cert", fmt.Sprintf("policy %d, ECDHE suite %x: the server completed although the client sent a single certificate", c.Policy, c.Suite)
		}
		return "", ""
	}
	judged := c.Beh
	if c.NoClientCAs && (judged == "trusted" || judged == "expired" || judged == "wrong-eku" || judged == "sig-wrong-eku") {
		judged = "untrusted" // nothing chains to an empty set of client roots
	}
	want, wantVerified := c07Allows(ClientAuthType(c.Policy), ecdhe, judged)
	got := r.UErr == nil
	if got != want {
		return fmt.Sprintf("policy-table:%s", c.Beh), fmt.Sprintf("policy %d suite %x behaviour %q: server completed=%v (err=%v, peer=%v), the policy allows=%v", c.Policy, c.Suite, c.Beh, got, r.UErr, r.PErr, want)
	}
	if got {
		if !peerDone {
			return "peer-incomplete", fmt.Sprintf("server completed but the peer did not see a valid server Finished: %v", r.PErr)
		}
		sentCert := c.Beh != "no-cert-msg" && c.Beh != "empty"
		if (len(r.UState.PeerCertificates) > 0) != sentCert {
			return "peer-certs", fmt.Sprintf("server reports %d peer certificates, client sent certificates: %v", len(r.UState.PeerCertificates), sentCert)
		}
		if (len(r.UState.VerifiedChains) > 0) != (wantVerified && sentCert) {
			return "verified-chains", fmt.Sprintf("server reports %d verified chains under policy %d for behaviour %q", len(r.UState.VerifiedChains), c.Policy, c.Beh)
		}
	} else if r.UState.HandshakeComplete {
		return "complete-flag", "HandshakeComplete after a failed handshake"
	}
	return "", ""
}

// ---- histories: resumption across configurations that share a session cache (F6)

type c07Hist struct {
	Suite    uint16 `json:"suite"`
	P1, P2   int
	CliCerts int `json:"clicerts"` // 0 none, 1 trusted (A), 2 untrusted (B, forced through the callback), 3 issued by A but extended key usage codeSigning only
	Env2     int `json:"env2"`     // second configuration: 0 same roots and clock, 1 trusts only root B, 2 clock after the client certificate's expiry, 3 the very same Config object (P2 = P1) whose clock has moved past the expiry, and the client has no session to offer: a second full handshake
}

func c07History(h c07Hist) (sig, msg string, resumed bool) {
	p := vfGetPKI()
	ecdhe := vfIsECDHE(h.Suite)
	cache := NewLRUSessionCache(8)
	mk := func(pol int) *Config {
		return &Config{Time: vfTime, Certificates: []Certificate{p.SrvSig, p.SrvEnc}, CipherSuites: []uint16{h.Suite},
			ClientAuth: ClientAuthType(pol), ClientCAs: p.A.pool, SessionCache: cache}
	}
	mk2 := func(pol int) *Config {
		c := mk(pol)
		switch h.Env2 {
		case 1:
			c.ClientCAs = p.B.pool
		case 2:
			c.Time = func() time.Time { return vfT0.AddDate(3, 0, 0) }
		}
		return c
	}
	ccfg := &Config{Time: vfTime, RootCAs: p.A.pool, ServerName: vfServerName, CipherSuites: []uint16{h.Suite}, SessionCache: NewLRUSessionCache(8)}
	beh := "empty"
	switch h.CliCerts {
	case 1:
		ccfg.Certificates = []Certificate{p.CliSig, p.CliEnc}
		beh = "trusted"
	case 2:
		s, e := p.CliSigB, p.CliEncB
		ccfg.GetClientCertificate = func(*CertificateRequestInfo) (*Certificate, error) { return &s, nil }
		ccfg.GetClientKECertificate = func(*CertificateRequestInfo) (*Certificate, error) { return &e, nil }
		beh = "untrusted"
	case 3:
		s, e := p.CliSigCodeSign, p.CliEncCodeSign
		ccfg.GetClientCertificate = func(*CertificateRequestInfo) (*Certificate, error) { return &s, nil }
		ccfg.GetClientKECertificate = func(*CertificateRequestInfo) (*Certificate, error) { return &e, nil }
		beh = "wrong-eku"
	}
	if h.Env2 != 0 && h.CliCerts == 1 {
		// offer the certificate whatever the server's acceptable-CA list says
		s, e := p.CliSig, p.CliEnc
		ccfg.Certificates = nil
		ccfg.GetClientCertificate = func(*CertificateRequestInfo) (*Certificate, error) { return &s, nil }
		ccfg.GetClientKECertificate = func(*CertificateRequestInfo) (*Certificate, error) { return &e, nil }
	}
	if h.CliCerts == 0 && ecdhe {
		return "", "", false // an ECDHE client needs both key pairs even to offer the suite
	}
	beh1 := beh
	if ClientAuthType(h.P1) == NoClientCert && !ecdhe {
		beh1 = "no-cert-msg"
	}
	want1, _ := c07Allows(ClientAuthType(h.P1), ecdhe, beh1)
	if h.Env2 == 3 {
		// one Config object serves both connections; its clock moves in between; no session is offered
		now := vfT0
		scfg := mk(h.P1)
		scfg.Time = func() time.Time { return now }
		scfg.SessionCache = nil
		ccfg.SessionCache = nil
		ra := vfRunPair(ccfg, scfg, vfPairOpt{InPlace: true})
		if ra.CPanic != "" || ra.SPanic != "" {
			return "panic", ra.CPanic + ra.SPanic, false
		}
		if (ra.SErr == nil) != want1 {
			return "policy-table:history-conn1", fmt.Sprintf("connection 1 under policy %d with client certs %d: completed=%v (%v), allowed=%v", h.P1, h.CliCerts, ra.SErr == nil, ra.SErr, want1), false
		}
		now = vfT0.AddDate(3, 0, 0)
		behB := beh1
		if (h.CliCerts == 1 || h.CliCerts == 3) && beh1 != "no-cert-msg" {
			behB = "expired"
		}
		wantB, _ := c07Allows(ClientAuthType(h.P1), ecdhe, behB)
		rb := vfRunPair(ccfg, scfg, vfPairOpt{InPlace: true})
		if rb.CPanic != "" || rb.SPanic != "" {
			return "panic", rb.CPanic + rb.SPanic, false
		}
		if (rb.SErr == nil) != wantB {
			return "policy-table:same-config-later", fmt.Sprintf("policy %d, client certs %d: the same Config served a first connection (completed=%v) and, with its clock three years on (client certificates %q then), a second full handshake: completed=%v (%v), allowed=%v", h.P1, h.CliCerts, ra.SErr == nil, behB, rb.SErr == nil, rb.SErr, wantB), false
		}
		return "", "", false
	}
	r1 := vfRunPair(ccfg, mk(h.P1), vfPairOpt{})
	if r1.CPanic != "" || r1.SPanic != "" {
		return "panic", r1.CPanic + r1.SPanic, false
	}
	if (r1.SErr == nil) != want1 {
		return "policy-table:history-conn1", fmt.Sprintf("connection 1 under policy %d with client certs %d: completed=%v (%v), allowed=%v", h.P1, h.CliCerts, r1.SErr == nil, r1.SErr, want1), false
	}
	if r1.SErr != nil {
		return "", "", false
	}
	// connection 2: same client, server now under policy P2 (and possibly other roots / a later clock), same session cache
	beh2 := beh
	if h.CliCerts != 0 {
		issuerTrusted := (h.CliCerts == 2) == (h.Env2 == 1)
		switch {
		case !issuerTrusted:
			beh2 = "untrusted"
		case h.Env2 == 2:
			beh2 = "expired"
		case h.CliCerts == 3:
			beh2 = "wrong-eku"
		default:
			beh2 = "trusted"
		}
	}
	if ClientAuthType(h.P2) == NoClientCert && !ecdhe {
		beh2 = "no-cert-msg"
	}
	want2, _ := c07Allows(ClientAuthType(h.P2), ecdhe, beh2)
	// would P2 have been satisfied by what connection 1 established?
	pol2 := ClientAuthType(h.P2)
	p2AllowsConn1 := true
	if len(r1.SS.PeerCertificates) == 0 {
		// no client certificate was presented: fine unless P2 requires one
		p2AllowsConn1 = !requiresClientCert(pol2)
	} else if pol2 >= VerifyClientCertIfGiven {
		// a certificate was presented: a verifying policy needs it to pass under the configuration now in use
		p2AllowsConn1 = beh2 == "trusted" || (beh2 == "wrong-eku" && pol2 == RequireAndVerifyAnyKeyUsageClientCert)
	}
	r2 := vfRunPair(ccfg, mk2(h.P2), vfPairOpt{})
	if r2.CPanic != "" || r2.SPanic != "" {
		return "panic", r2.CPanic + r2.SPanic, false
	}
	if r2.SErr == nil && r2.SS.DidResume {
		if !p2AllowsConn1 {
			return "resumed-against-policy", fmt.Sprintf("session created under policy %d with client certs %d (%d peer certificates) was resumed under policy %d (environment %d: the certificate is %q there), which the original handshake would not have satisfied; server reports %d peer certificates", h.P1, h.CliCerts, len(r1.SS.PeerCertificates), h.P2, h.Env2, beh2, len(r2.SS.PeerCertificates)), true
		}
		return "", "", true
	}
	if (r2.SErr == nil) != want2 {
		return "policy-table:history-conn2", fmt.Sprintf("connection 2 (not resumed) under policy %d with client certs %d: completed=%v (%v), allowed=%v", h.P2, h.CliCerts, r2.SErr == nil, r2.SErr, want2), false
	}
	return "", "", false
}

// c07FailedThenResume: a handshake that fails client authentication (certificate presented, proof
// of possession by another key) must not leave a resumable session behind: the peer then offers the
// session identifier it was given, with the master secret it computed.
func c07FailedThenResume(suite uint16, policy int) (sig, msg string) {
	p := vfGetPKI()
	ucfg := &Config{Time: vfTime, Certificates: []Certificate{p.SrvSig, p.SrvEnc}, CipherSuites: []uint16{suite},
		ClientAuth: ClientAuthType(policy), ClientCAs: p.A.pool, SessionCache: NewLRUSessionCache(8)}
	vfPeerTuneConfig(ucfg)
	pcfg := &Config{Time: vfTime, InsecureSkipVerify: true, CipherSuites: []uint16{suite}, Certificates: []Certificate{p.CliSig, p.CliEnc}}
	var sid, master []byte
	r1 := vfRunVsPeer(false, ucfg, pcfg, func(pc *Conn) error {
		cp := vfNewCliPeer(pc)
		if err := cp.SendClientHello(vfCHOpt{}); err != nil {
			return err
		}
		if err := cp.ReadServerFlight(); err != nil {
			return err
		}
		sid = append([]byte(nil), cp.sh.sessionId...)
		cp.SendCertificate([][]byte{p.CliSig.Certificate[0], p.CliEnc.Certificate[0]})
		enc := p.CliEnc
		if err := cp.PrepareCKE(&enc); err != nil {
			return err
		}
		cp.SendCKE(nil)
		cp.SendCertVerify(c02OtherKey(), nil, false) // no proof of possession of the presented certificate
		cp.ComputeMaster()
		master = append([]byte(nil), cp.hs.masterSecret...)
		cp.EstablishKeys()
		cp.SendCCS()
		cp.SendFinished(false)
		cp.ReadServerFinished()
		return nil
	}, nil)
	if r1.UPanic != "" {
		return "panic", r1.UPanic
	}
	if r1.UErr == nil {
		return "policy-table:cv-otherkey", "server completed although the CertificateVerify was made with another key"
	}
	if sid == nil {
		return "", ""
	}
	resumed := false
	r2 := vfRunVsPeer(false, ucfg, pcfg, func(pc *Conn) error {
		cp := vfNewCliPeer(pc)
		if err := cp.SendClientHello(vfCHOpt{SessionID: sid}); err != nil {
			return err
		}
		if bytes.Equal(cp.sh.sessionId, sid) {
			resumed = true
			cp.SetMaster(master)
			cp.EstablishKeys()
			if err := cp.ReadServerFinished(); err != nil {
				return err
			}
			cp.SendCCS()
			cp.SendFinished(false)
		}
		return nil
	}, nil)
	if r2.UPanic != "" {
		return "panic", r2.UPanic
	}
	if resumed {
		return "resumed-failed-handshake", fmt.Sprintf("a handshake that failed client authentication left a session that the server resumed (completed=%v, %d peer certificates reported)", r2.UErr == nil, len(r2.UState.PeerCertificates))
	}
	return "", ""
}

// c07Eviction: a server session cache of small capacity, client X (with certificates) followed by
// client Y (another identity: none, or other certificates) whose session evicts X's; when Y then
// resumes, the server must report Y's identity, not X's.
type c07Evict struct {
	Suite  uint16 `json:"suite"`
	Policy int    `json:"policy"`
	Cap    int    `json:"cap"`
	YCerts int    `json:"ycerts"` // 0 none, 2 certificates issued by root B
}

func c07EvictionRun(h c07Evict) (sig, msg string, resumed bool) {
	p := vfGetPKI()
	scfg := &Config{Time: vfTime, Certificates: []Certificate{p.SrvSig, p.SrvEnc}, CipherSuites: []uint16{h.Suite},
		ClientAuth: ClientAuthType(h.Policy), ClientCAs: p.A.pool, SessionCache: NewLRUSessionCache(h.Cap)}
	mkc := func(certs int) *Config {
		c := &Config{Time: vfTime, RootCAs: p.A.pool, ServerName: vfServerName, CipherSuites: []uint16{h.Suite}, SessionCache: NewLRUSessionCache(8)}
		switch certs {
		case 1:
			s, e := p.CliSig, p.CliEnc
			c.GetClientCertificate = func(*CertificateRequestInfo) (*Certificate, error) { return &s, nil }
			c.GetClientKECertificate = func(*CertificateRequestInfo) (*Certificate, error) { return &e, nil }
		case 2:
			s, e := p.CliSigB, p.CliEncB
			c.GetClientCertificate = func(*CertificateRequestInfo) (*Certificate, error) { return &s, nil }
			c.GetClientKECertificate = func(*CertificateRequestInfo) (*Certificate, error) { return &e, nil }
		}
		return c
	}
	x, y := mkc(1), mkc(h.YCerts)
	var yDER [][]byte
	for i := 0; i < h.Cap; i++ { // fill the cache with X's sessions (one per connection, fresh client caches)
		xi := x.Clone()
		xi.SessionCache = NewLRUSessionCache(8)
		if r := vfRunPair(xi, scfg, vfPairOpt{}); r.CErr != nil || r.SErr != nil {
			return "honest-failed", fmt.Sprintf("client X connection %d: %v / %v", i, r.CErr, r.SErr), false
		}
	}
	r2 := vfRunPair(y, scfg, vfPairOpt{})
	if r2.CErr != nil || r2.SErr != nil {
		return "honest-failed", fmt.Sprintf("client Y first connection: %v / %v", r2.CErr, r2.SErr), false
	}
	for _, c := range r2.SS.PeerCertificates {
		yDER = append(yDER, c.Raw)
	}
	r3 := vfRunPair(y, scfg, vfPairOpt{})
	if r3.CPanic != "" || r3.SPanic != "" {
		return "panic", r3.CPanic + r3.SPanic, false
	}
	if r3.CErr != nil || r3.SErr != nil {
		return "honest-failed", fmt.Sprintf("client Y second connection: %v / %v", r3.CErr, r3.SErr), false
	}
	var got [][]byte
	for _, c := range r3.SS.PeerCertificates {
		got = append(got, c.Raw)
	}
	same := len(got) == len(yDER)
	for i := 0; same && i < len(got); i++ {
		same = bytes.Equal(got[i], yDER[i])
	}
	if !same {
		return "resumed-identity", fmt.Sprintf("client Y presented %d certificates in its full handshake; on its next connection (resumed=%v, server cache capacity %d, earlier sessions of client X evicted) the server reports %d peer certificates that are not Y's", len(yDER), r3.SS.DidResume, h.Cap, len(got)), r3.SS.DidResume
	}
	return "", "", r3.SS.DidResume
}

// C09e: every shape of client reply of the C07 catalogue (certificate lists of unusual length,
// missing or wrong proofs, foreign messages) against every policy and suite, judged only by C09's
// clauses: no panic, no hang.
func TestVF_C09_Shapes(t *testing.T) {
	rec := vfRec("C09", "C09e-client-reply-shapes", "six client-authentication policies x four suites x the client behaviours of the C07 catalogue (no Certificate message, empty list, one certificate, two, attacker's certificate appended, proofs missing / by another key / over another transcript / corrupted) played by a scripted client; oracle (C09 only): the server neither panics nor hangs; distinct = the case")
	idx := 0
	for pol := 0; pol <= 5; pol++ {
		for _, suite := range vfSuites {
			for _, beh := range c07Behaviours {
				idx++
				if !vfMine(idx) {
					continue
				}
				c := c07Case{Policy: pol, Suite: suite, Beh: beh}
				sig, msg := c07Run(c)
				if sig == "panic" || sig == "hang" {
					rec.Violation(sig, c, "%s", msg)
				}
				rec.Eval(true, c, "beh:"+beh)
			}
		}
	}
	rec.SetExhaustive(true, fmt.Sprintf("%d cases", idx))
}

func TestVF_C07(t *testing.T) {
	rec := vfRec("C07", "C07-clientauth", "six policies x client behaviours (Certificate omitted, empty, trusted, untrusted CA, expired, wrong EKU, CertificateVerify omitted (also with the encipherment-only encryption certificate listed first) / by another key / over another transcript / corrupted) x suites played by a scripted client-role peer, plus two-connection histories (policy P1 then P2 on a shared session cache x client certificate kind x second configuration's roots / clock), a server without client roots, a server Config that carries InsecureSkipVerify, one Config object serving two full handshakes with its clock moved past the client certificate's expiry in between, and eviction histories (a small server cache, client X's sessions evicted by client Y's, Y resumes: the server must report Y's identity); oracle: table from the documented ClientAuthType semantics; non-trivial = everything except (NoClientCert, no certificate); distinct = the case")
	suites := []uint16{ECC_SM4_GCM_SM3, ECDHE_SM4_GCM_SM3}
	if vfThorough() {
		suites = vfSuites
	}
	idx := 0
	for pol := 0; pol <= 5; pol++ {
		for _, suite := range suites {
			for _, beh := range c07Behaviours {
				idx++
				if !vfMine(idx) {
					continue
				}
				c := c07Case{Policy: pol, Suite: suite, Beh: beh}
				sig, msg := c07Run(c)
				if sig != "" {
					rec.Violation(sig, c, "%s", msg)
				}
				rec.Eval(!(pol == 0 && beh == "no-cert-msg"), c, "beh:"+beh, fmt.Sprintf("policy:%d", pol))
				if beh == "trusted" || beh == "empty" || beh == "wrong-eku" {
					c.NoClientCAs = true
					sig, msg := c07Run(c)
					if sig != "" {
						rec.Violation(sig, c, "%s", msg)
					}
					rec.Eval(true, c, "beh:"+beh, "no-client-roots")
					c.NoClientCAs = false
				}
				if beh == "trusted" || beh == "untrusted" || beh == "expired" || beh == "wrong-eku" || beh == "empty" || beh == "cv-otherkey" {
					c.SrvSkipVerify = true
					sig, msg := c07Run(c)
					if sig != "" {
						rec.Violation(sig, c, "%s", msg)
					}
					rec.Eval(true, c, "beh:"+beh, "server-config-with-skip-verify")
				}
			}
		}
	}
	nh := 0
	for _, suite := range suites {
		for p1 := 0; p1 <= 5; p1++ {
			for p2 := 0; p2 <= 5; p2++ {
				for cc := 0; cc <= 3; cc++ {
					for env2 := 0; env2 <= 3; env2++ {
						if env2 != 0 && cc == 0 {
							continue
						}
						if env2 == 3 && p2 != p1 {
							continue
						}
						idx++
						nh++
						if !vfMine(idx) {
							continue
						}
						h := c07Hist{Suite: suite, P1: p1, P2: p2, CliCerts: cc, Env2: env2}
						sig, msg, resumed := c07History(h)
						if sig == "resumed-against-policy" && vfKnown("F6") {
							rec.Excluded("F6")
							continue
						}
						if sig != "" {
							rec.Violation(sig, h, "%s", msg)
						}
						cl := "history:full"
						if resumed {
							cl = "history:resumed"
						}
						rec.Eval(p1 != p2 || env2 != 0, h, cl, fmt.Sprintf("env2:%d", env2))
					}
				}
			}
		}
	}
	for _, suite := range suites {
		for pol := 1; pol <= 5; pol++ {
			idx++
			if !vfMine(idx) {
				continue
			}
			c := map[string]interface{}{"history": "failed-client-auth-then-offer-session", "suite": suite, "policy": pol}
			sig, msg := c07FailedThenResume(suite, pol)
			if sig != "" {
				rec.Violation(sig, c, "%s", msg)
			}
			rec.Eval(true, c, "history:failed-then-resume")
		}
	}
	for _, suite := range []uint16{ECC_SM4_GCM_SM3, ECC_SM4_CBC_SM3} {
		for _, pol := range []int{1, 2, 3} {
			for _, capacity := range []int{1, 2, 3} {
				for _, yc := range []int{0, 2} {
					if (pol == 2 && yc == 0) || (pol == 3 && yc == 2) {
						continue // policy 2 requires a certificate, policy 3 verifies it
					}
					idx++
					if !vfMine(idx) {
						continue
					}
					h := c07Evict{Suite: suite, Policy: pol, Cap: capacity, YCerts: yc}
					sig, msg, resumed := c07EvictionRun(h)
					if sig != "" {
						rec.Violation(sig, h, "%s", msg)
					}
					cl := "eviction:full"
					if resumed {
						cl = "eviction:resumed"
					}
					rec.Eval(true, h, cl)
				}
			}
		}
	}
	rec.SetExhaustive(true, fmt.Sprintf("catalogue: 6 policies x %d suites x %d behaviours and %d histories enumerated completely; parametrised behaviours additionally sampled", len(suites), len(c07Behaviours), nh))
	vfRapid(t, rec, "param", vfN(200, 4000), func(t *rapid.T) {
		c := c07Case{Policy: rapid.IntRange(0, 5).Draw(t, "policy"), Suite: rapid.SampledFrom(vfSuites).Draw(t, "suite"),
			Beh: rapid.SampledFrom([]string{"cv-othertranscript", "cv-othertranscript", "cv-corrupt", "cv-otherkey", "trusted", "expired", "wrong-eku"}).Draw(t, "beh"), Param: rapid.IntRange(0, 11).Draw(t, "param")}
		sig, msg := c07Run(c)
		if sig != "" {
			rec.Fail(t, sig, c, "%s", msg)
		}
		rec.Eval(true, c, "beh:"+c.Beh)
	})
	if vfKnown("F6") {
		sig, _, _ := c07History(c07Hist{Suite: ECC_SM4_GCM_SM3, P1: 0, P2: 4, CliCerts: 0})
		rec.Known("F6", sig == "resumed-against-policy")
	}
}

func init() {
	vfRegisterReplay("C07-clientauth", func(raw json.RawMessage) error {
		var c c07Case
		if err := json.Unmarshal(raw, &c); err == nil && c.Beh != "" {
			if sig, msg := c07Run(c); sig != "" {
				return fmt.Errorf("%s: %s", sig, msg)
			}
			return nil
		}
		var h c07Hist
		if err := json.Unmarshal(raw, &h); err != nil {
			return err
		}
		if sig, msg, _ := c07History(h); sig != "" {
			return fmt.Errorf("%s: %s", sig, msg)
		}
		return nil
	})
}
