//go:build verif

package dtlcp

// Datagram simulator (DESIGN.md 3.2): two net.PacketConn endpoints and one discrete-event
// scheduler under a virtual clock. Nothing here reads the wall clock except to translate the
// library's SetReadDeadline(time.Now().Add(d)) back into the duration d (snapped to the
// retransmission schedule).

import (
	"errors"
	"fmt"
	"net"
	"sort"
	"sync"
	"time"
)

type vfDAddr string

func (a vfDAddr) Network() string { return "vudp" }
func (a vfDAddr) String() string  { return string(a) }

type vfDTimeout struct{}

func (vfDTimeout) Error() string   { return "vnet: i/o timeout" }
func (vfDTimeout) Timeout() bool   { return true }
func (vfDTimeout) Temporary() bool { return true }

type vfDgram struct {
	id      int
	from    int
	fromAddr net.Addr
	data    []byte
	release time.Duration
}

type vfDTimer struct {
	at   time.Duration
	ch   chan time.Time
	dead bool
}

// vfDelivery: one copy of a datagram to deliver after delay (0 = now).
type vfDelivery struct {
	Data  []byte
	Delay time.Duration
}

type vfFault struct {
	Kind string `json:"k"` // "drop", "dup", "delay" (300 ms), "delay2" (1.5 s, longer than the initial timeout)
	Dir  int    `json:"d"` // sender: 0 client, 1 server
	Nth  int    `json:"n"` // n-th datagram sent by that sender (0-based, retransmissions included); -1: see Count
	// Count (with Nth == -1): the fault hits the first Count datagrams of that sender that carry a
	// cleartext ChangeCipherSpec record, i.e. a final flight and its retransmissions, however many
	// other datagrams lie in between
	Count int `json:"c,omitempty"`
}

type vfSentRec struct {
	At   time.Duration
	From int
	Nth  int
	Data []byte
	Act  string
}

type vfDEnd struct {
	s        *vfDSim
	idx      int
	addr     vfDAddr
	blocked  bool
	done     bool
	closed   bool
	deadline time.Duration // <0 none
	inbox    *vfDgram
	timeout  bool
	nsent    int
}

type vfDSim struct {
	mu       sync.Mutex
	cond     *sync.Cond
	now      time.Duration
	ends     [2]*vfDEnd
	flight   []*vfDgram
	timers   []*vfDTimer
	faults   []vfFault
	faultsOff bool // set once both endpoints completed the handshake (faults confined to the handshake)
	// faultable, if set, tells whether the fault plan may touch this datagram (it is still counted)
	faultable func(data []byte) bool
	// refuse[side][n]: the transport refuses that side's n-th datagram with a timeout error (nothing is sent)
	refuse [2]map[int]bool
	// hook, if set, decides what happens to each sent datagram (after the fault plan)
	hook     func(from, nth int, data []byte) []vfDelivery
	sent     []vfSentRec
	nextID   int
	snaps    []time.Duration
	deadlinesFired int
	timersFired    int
	delayBy  time.Duration
	tie      int // which endpoint wins when both read deadlines expire at the same instant
	spin     int
	spun     bool
	livelock bool
	applied  int // number of fault-plan entries that were actually applied
	matchUsed map[int]int
	// onAdvance is called (simulator locked, every endpoint blocked) when virtual time moves forward by d
	onAdvance func(d time.Duration)
}

func vfNewDSim(faults []vfFault, tie int) *vfDSim {
	s := &vfDSim{faults: faults, delayBy: 300 * time.Millisecond, tie: tie}
	s.cond = sync.NewCond(&s.mu)
	s.ends[0] = &vfDEnd{s: s, idx: 0, addr: "10.0.0.1:1000", deadline: -1}
	s.ends[1] = &vfDEnd{s: s, idx: 1, addr: "10.0.0.2:2000", deadline: -1}
	for d := 125 * time.Millisecond; d <= 64*time.Second; d *= 2 {
		s.snaps = append(s.snaps, d)
	}
	s.snaps = append(s.snaps, 60*time.Second, 5*time.Second)
	return s
}

func (s *vfDSim) snap(d time.Duration) time.Duration {
	best, bd := d, time.Duration(1<<62)
	for _, c := range s.snaps {
		x := d - c
		if x < 0 {
			x = -x
		}
		if x < bd {
			bd, best = x, c
		}
	}
	return best
}

func (s *vfDSim) newTimer(d time.Duration) *TimerHandle {
	s.mu.Lock()
	defer s.mu.Unlock()
	t := &vfDTimer{at: s.now + d, ch: make(chan time.Time, 1)}
	s.timers = append(s.timers, t)
	return &TimerHandle{C: t.ch,
		Stop: func() bool { s.mu.Lock(); defer s.mu.Unlock(); was := !t.dead; t.dead = true; return was },
		Reset: func(d time.Duration) bool {
			s.mu.Lock()
			defer s.mu.Unlock()
			was := !t.dead
			t.dead = false
			t.at = s.now + d
			return was
		}}
}

func (e *vfDEnd) ReadFrom(p []byte) (int, net.Addr, error) {
	s := e.s
	s.mu.Lock()
	defer s.mu.Unlock()
	if e.closed {
		return 0, nil, net.ErrClosed
	}
	if e.deadline >= 0 && e.deadline <= s.now && e.inbox == nil {
		// deadline already passed: like a real socket, fail at once (guard against a spin)
		s.spin++
		if s.spin > 20000 {
			s.spun = true
			e.closed = true
			return 0, nil, net.ErrClosed
		}
		return 0, nil, vfDTimeout{}
	}
	e.blocked = true
	s.cond.Broadcast()
	for e.inbox == nil && !e.timeout && !e.closed {
		s.cond.Wait()
	}
	e.blocked = false
	if e.closed {
		return 0, nil, net.ErrClosed
	}
	if e.inbox != nil {
		d := e.inbox
		e.inbox = nil
		n := copy(p, d.data)
		return n, d.fromAddr, nil
	}
	e.timeout = false
	return 0, nil, vfDTimeout{}
}

func (e *vfDEnd) WriteTo(p []byte, addr net.Addr) (int, error) {
	s := e.s
	s.mu.Lock()
	defer s.mu.Unlock()
	if e.closed {
		return 0, net.ErrClosed
	}
	if s.nextID > 4000 {
		// endpoints keep exchanging datagrams without virtual time passing: a livelock
		s.livelock = true
		s.ends[0].closed, s.ends[1].closed = true, true
		s.cond.Broadcast()
		return 0, net.ErrClosed
	}
	n := e.nsent
	e.nsent++
	data := append([]byte(nil), p...)
	if s.refuse[e.idx][n] {
		s.sent = append(s.sent, vfSentRec{At: s.now, From: e.idx, Nth: n, Data: data, Act: "REFUSED"})
		s.spin = 0
		return 0, vfDTimeout{}
	}
	act := "send"
	deliveries := []vfDelivery{{Data: data}}
	if !s.faultsOff && (s.faultable == nil || s.faultable(data)) {
		for fi, f := range s.faults {
			hit := f.Dir == e.idx && f.Nth == n
			if f.Nth < 0 && f.Dir == e.idx && s.matchUsed[fi] < f.Count && vfHasCCS(data) {
				if s.matchUsed == nil {
					s.matchUsed = map[int]int{}
				}
				s.matchUsed[fi]++
				hit = true
			}
			if hit {
				s.applied++
				switch f.Kind {
				case "drop":
					deliveries = nil
					act = "DROP"
				case "dup":
					deliveries = append(deliveries, vfDelivery{Data: data})
					act = "send+dup"
				case "delay":
					for i := range deliveries {
						deliveries[i].Delay += s.delayBy
					}
					if act != "send-delayed-long" { // two delays on one datagram add up: still "long"
						act = "send-delayed"
					}
				case "delay2": // longer than one initial retransmission timeout: arrives after the retransmission
					for i := range deliveries {
						deliveries[i].Delay += 5 * s.delayBy
					}
					act = "send-delayed-long"
				}
			}
		}
	}
	if s.hook != nil && deliveries != nil {
		var out []vfDelivery
		for _, d := range deliveries {
			for _, h := range s.hook(e.idx, n, d.Data) {
				h.Delay += d.Delay
				out = append(out, h)
			}
		}
		deliveries = out
	}
	s.sent = append(s.sent, vfSentRec{At: s.now, From: e.idx, Nth: n, Data: data, Act: act})
	for _, d := range deliveries {
		s.flight = append(s.flight, &vfDgram{id: s.nextID, from: e.idx, fromAddr: e.addr, data: d.Data, release: s.now + d.Delay})
		s.nextID++
	}
	s.spin = 0
	return len(p), nil
}

// vfHasCCS: the datagram carries a cleartext ChangeCipherSpec record.
func vfHasCCS(d []byte) bool {
	for len(d) >= 13 {
		l := int(d[11])<<8 | int(d[12])
		if 13+l > len(d) {
			return false
		}
		if d[0] == 20 && d[3] == 0 && d[4] == 0 {
			return true
		}
		d = d[13+l:]
	}
	return false
}

// inject queues a datagram towards end `to` as coming from address fromAddr (harness use).
func (s *vfDSim) inject(to int, fromAddr net.Addr, data []byte, delay time.Duration) {
	s.mu.Lock()
	s.flight = append(s.flight, &vfDgram{id: s.nextID, from: 1 - to, fromAddr: fromAddr, data: append([]byte(nil), data...), release: s.now + delay})
	s.nextID++
	s.cond.Broadcast()
	s.mu.Unlock()
}

func (e *vfDEnd) Close() error {
	s := e.s
	s.mu.Lock()
	defer s.mu.Unlock()
	if e.closed {
		return net.ErrClosed
	}
	e.closed = true
	s.cond.Broadcast()
	return nil
}
func (e *vfDEnd) LocalAddr() net.Addr                { return e.addr }
func (e *vfDEnd) SetDeadline(t time.Time) error      { return e.SetReadDeadline(t) }
func (e *vfDEnd) SetWriteDeadline(t time.Time) error { return nil }
func (e *vfDEnd) SetReadDeadline(t time.Time) error {
	s := e.s
	s.mu.Lock()
	defer s.mu.Unlock()
	if t.IsZero() {
		e.deadline = -1
		return nil
	}
	d := time.Until(t)
	if d <= 0 {
		e.deadline = s.now
		return nil
	}
	e.deadline = s.now + s.snap(d)
	return nil
}

func (e *vfDEnd) markDone() {
	s := e.s
	s.mu.Lock()
	e.done = true
	s.cond.Broadcast()
	s.mu.Unlock()
}

var errVfHorizon = errors.New("vnet: horizon exceeded")
var errVfStuck = errors.New("vnet: all endpoints blocked forever")
var errVfLivelock = errors.New("vnet: more than 4000 datagrams exchanged without completing (livelock)")
var errVfSpin = errors.New("vnet: endpoint spins on an expired deadline without sending")

// run drives the simulation until both endpoints are done.
func (s *vfDSim) run(horizon time.Duration) error {
	s.mu.Lock()
	defer s.mu.Unlock()
	for {
		for !((s.ends[0].blocked || s.ends[0].done || s.ends[0].closed) && (s.ends[1].blocked || s.ends[1].done || s.ends[1].closed)) {
			s.cond.Wait()
		}
		if s.spun {
			return errVfSpin
		}
		if s.livelock {
			return errVfLivelock
		}
		if (s.ends[0].done || s.ends[0].closed) && (s.ends[1].done || s.ends[1].closed) {
			// an endpoint that was closed but whose goroutine still runs will mark done soon
			if s.ends[0].done && s.ends[1].done {
				return nil
			}
			s.cond.Wait()
			continue
		}
		delivered := false
		for i, d := range s.flight {
			to := s.ends[1-d.from]
			if d.release > s.now {
				continue
			}
			if to.done || to.closed {
				s.flight = append(s.flight[:i:i], s.flight[i+1:]...)
				delivered = true
				break
			}
			if to.blocked && to.inbox == nil && !to.timeout {
				to.inbox = d
				to.blocked = false
				s.flight = append(s.flight[:i:i], s.flight[i+1:]...)
				delivered = true
				break
			}
		}
		if delivered {
			s.cond.Broadcast()
			continue
		}
		next := time.Duration(-1)
		consider := func(t time.Duration) {
			if t >= 0 && (next < 0 || t < next) {
				next = t
			}
		}
		for _, e := range s.ends {
			if e.blocked && e.deadline >= 0 {
				consider(e.deadline)
			}
		}
		for _, t := range s.timers {
			if !t.dead {
				consider(t.at)
			}
		}
		for _, d := range s.flight {
			if d.release > s.now {
				consider(d.release)
			}
		}
		if next < 0 {
			return errVfStuck
		}
		if next > horizon {
			return errVfHorizon
		}
		if next > s.now {
			if s.onAdvance != nil {
				s.onAdvance(next - s.now)
			}
			s.now = next
		}
		sort.SliceStable(s.timers, func(i, j int) bool { return s.timers[i].at < s.timers[j].at })
		for _, t := range s.timers {
			if !t.dead && t.at <= s.now {
				t.dead = true
				select {
				case t.ch <- time.Time{}:
				default:
				}
				s.timersFired++
			}
		}
		rel := false
		for _, d := range s.flight {
			if d.release <= s.now {
				rel = true
			}
		}
		if rel {
			continue
		}
		order := []int{0, 1}
		if s.tie == 1 {
			order = []int{1, 0}
		}
		for _, i := range order {
			e := s.ends[i]
			if e.blocked && e.deadline >= 0 && e.deadline <= s.now {
				e.timeout = true
				e.blocked = false
				s.deadlinesFired++
				break
			}
		}
		s.cond.Broadcast()
	}
}

// vfSummarize renders the records of one datagram, e.g. "[hs e0 s3 t11 ms2 off0/len300][ccs e0 s4]".
func vfSummarize(p []byte) string {
	out := ""
	for len(p) >= 13 {
		n := int(p[11])<<8 | int(p[12])
		typ := p[0]
		ep := int(p[3])<<8 | int(p[4])
		seq := int(p[8])<<16 | int(p[9])<<8 | int(p[10])
		name := map[byte]string{20: "ccs", 21: "alert", 22: "hs", 23: "app"}[typ]
		if name == "" {
			name = fmt.Sprintf("t%d", typ)
		}
		desc := fmt.Sprintf("[%s e%d s%d", name, ep, seq)
		if typ == 22 && ep == 0 && len(p) >= 13+12 && 13+n <= len(p) {
			h := p[13:]
			desc += fmt.Sprintf(" t%d ms%d off%d/len%d", h[0], int(h[4])<<8|int(h[5]), int(h[6])<<16|int(h[7])<<8|int(h[8]), int(h[9])<<16|int(h[10])<<8|int(h[11]))
		} else {
			desc += fmt.Sprintf(" len%d", n)
		}
		out += desc + "]"
		if 13+n > len(p) {
			out += "(trunc)"
			break
		}
		p = p[13+n:]
	}
	return out
}

func (s *vfDSim) traceStrings() []string {
	s.mu.Lock()
	defer s.mu.Unlock()
	var out []string
	for _, r := range s.sent {
		out = append(out, fmt.Sprintf("t=%v %d#%d %s len=%d %s", r.At, r.From, r.Nth, r.Act, len(r.Data), vfSummarize(r.Data)))
	}
	return out
}
