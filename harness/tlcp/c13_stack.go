//go:build verif

package tlcp

const (
	c13Datagram = false
	c13MaxWrite = 40000
	c13Version  = VersionTLCP
)

func c13Conns(nw *c13Net, ccfg, scfg *Config) (cli, srv *Conn) {
	return Client(nw.ends[0], ccfg), Server(nw.ends[1], scfg)
}

func c13Write(c *Conn, dgram bool, p []byte) (int, error) { return c.Write(p) }
func c13Read(c *Conn, dgram bool, p []byte) (int, error)  { return c.Read(p) }
