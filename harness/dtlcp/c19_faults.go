//go:build verif

package dtlcp

// C19: the DTLCP handshake survives datagram loss, duplication and reordering (virtual time).
// Fault enumeration: every pattern of up to k faults over (sender, n-th datagram of that sender
// counting retransmissions, kind in {drop, dup, delay}) during the handshake; both tie-break orders
// for simultaneous expiries.

import (
	"os"
	"bytes"
	"encoding/json"
	"fmt"
	"sort"
	"strings"
	"testing"
	"time"

	"pgregory.net/rapid"
)

type c19Scenario struct {
	Suite      uint16 `json:"suite"`
	Resumed    bool   `json:"resumed"`
	ClientAuth bool   `json:"auth"`
	ReadFrom   bool   `json:"readfrom"` // the application uses ReadFrom/WriteTo instead of Read/Write
	// InitMs / MaxMs: configured initial and maximum retransmission timeout in milliseconds (0: the defaults, 1 s and 60 s)
	InitMs int `json:"init_ms,omitempty"`
	MaxMs  int `json:"max_ms,omitempty"`
	// CPMTU / SPMTU: configured path MTU of the client / server (0: the default), small enough to
	// fragment handshake messages
	CPMTU int `json:"cpmtu,omitempty"`
	SPMTU int `json:"spmtu,omitempty"`
	// PastClock: Config.Time of both sides is pinned to a date years before the wall clock (the client
	// does not verify certificates in these scenarios); timers and the dwell period are not its business
	PastClock bool `json:"pastclock,omitempty"`
}

// c19SmallPMTU is a path MTU that fragments the hellos and still carries the harness's application messages whole.
func c19SmallPMTU(suite uint16) int {
	pm := c15Smallest(suite)
	low := 64
	if !vfIsGCM(suite) {
		low = 96
	}
	if pm < low {
		pm = low
	}
	return pm
}

type c19Case struct {
	Sc     c19Scenario `json:"sc"`
	Faults []vfFault   `json:"faults"`
	Tie    int         `json:"tie"`
}

type c19Out struct {
	cerr, serr     error
	runErr         error
	cdone, sdone   time.Duration
	deadlines      int
	timers         int
	echoErr        string
	applied        int
	targets        []string // what each applied fault hit: "<dir>:<kind>:<content>"
	trace          []string
	cs, ss         ConnectionState
	cfin, sfin     [2][12]byte
	panicked       string
}

// c19Content classifies a datagram by the records it carries (for naming what a fault hit).
func c19Content(d []byte) string {
	var parts []string
	recs, _ := vfFrameDatagram(d, 0)
	for _, r := range recs {
		switch {
		case r.Typ == 20:
			parts = append(parts, "CCS")
		case r.Typ == 22 && r.Epoch == 0 && len(r.Frag) >= 12:
			frs, _ := vfParseFrags(r.Frag)
			for _, f := range frs {
				parts = append(parts, fmt.Sprintf("hs%d", f.Typ))
			}
		case r.Typ == 22:
			parts = append(parts, "Fin*")
		case r.Typ == 23:
			parts = append(parts, "app")
		case r.Typ == 21:
			parts = append(parts, "alert")
		}
	}
	return strings.Join(parts, "+")
}

func c19Exec(c c19Case) c19Out {
	var o c19Out
	ccfg, scfg := vfBaseConfigs(c.Sc.Suite, c.Sc.ClientAuth)
	ccfg.SessionCache, scfg.SessionCache = NewLRUSessionCache(4), NewLRUSessionCache(4)
	var snaps []time.Duration
	if c.Sc.InitMs > 0 {
		ini, max := time.Duration(c.Sc.InitMs)*time.Millisecond, time.Duration(c.Sc.MaxMs)*time.Millisecond
		ccfg.InitialRetransmitTimeout, scfg.InitialRetransmitTimeout = ini, ini
		ccfg.MaxRetransmitTimeout, scfg.MaxRetransmitTimeout = max, max
		for d := ini; d < max; d *= 2 {
			snaps = append(snaps, d)
		}
		snaps = append(snaps, max)
	}
	ccfg.PMTU, scfg.PMTU = c.Sc.CPMTU, c.Sc.SPMTU
	if c.Sc.PastClock {
		past := func() time.Time { return time.Date(2019, 6, 1, 0, 0, 0, 0, time.UTC) }
		ccfg.Time, scfg.Time = past, past
		ccfg.InsecureSkipVerify = true
	}
	if c.Sc.Resumed {
		r := vfRunPair(ccfg, scfg, vfPairOpt{})
		if r.CErr != nil || r.SErr != nil {
			o.cerr, o.serr = fmt.Errorf("original: %v", r.CErr), fmt.Errorf("original: %v", r.SErr)
			return o
		}
	}
	// Application protocol of the harness. DTLCP does not retransmit application data, and data sent
	// by an endpoint that has completed while its peer has not may legitimately be dropped, so the
	// client repeats its request (under a virtual-time read deadline) until the reply arrives, and
	// says goodbye so that the server's goroutine ends.
	ping, pong, early, bye := []byte("ping-from-client"), []byte("pong-from-server"), []byte("early-from-server"), []byte("bye")
	gotPong, gotPing := false, false
	read := func(cn *Conn, buf []byte) (int, error) {
		if c.Sc.ReadFrom {
			n, _, err := cn.ReadFrom(buf)
			return n, err
		}
		return cn.Read(buf)
	}
	write := func(cn *Conn, p []byte) error {
		if c.Sc.ReadFrom {
			_, err := cn.WriteTo(p, cn.RemoteAddr())
			return err
		}
		_, err := cn.Write(p)
		return err
	}
	opt := vfPairOpt{Faults: c.Faults, Tie: c.Tie, Snaps: snaps, Horizon: 600 * time.Second,
		// the property is about the handshake: application datagrams and alerts lost by the network
		// are not the library's to recover, so the fault plan only touches handshake-phase datagrams
		Prepare: func(sim *vfDSim, _, _ *Conn) {
			sim.faultable = func(d []byte) bool {
				ct := c19Content(d)
				return ct != "" && !strings.Contains(ct, "app") && !strings.Contains(ct, "alert")
			}
		},
		CliAct: func(cn *Conn) error {
			buf := make([]byte, 100)
			// the application keeps trying for as long as the retransmission schedule of up to three
			// faults may take (its own requests go out once per second of virtual time)
			attempts := 20 // three faults under the default schedule: 1+2+4+8 s
			if c.Sc.InitMs > 1000 {
				attempts = 20 * c.Sc.InitMs / 1000
			}
			for attempt := 0; attempt < attempts && !gotPong; attempt++ {
				if err := write(cn, ping); err != nil {
					return fmt.Errorf("client write: %w", err)
				}
				for {
					cn.SetReadDeadline(time.Now().Add(time.Second))
					n, err := read(cn, buf)
					if ne, ok := err.(interface{ Timeout() bool }); ok && err != nil && ne.Timeout() {
						break
					}
					if err != nil {
						return fmt.Errorf("client read: %w", err)
					}
					if bytes.Equal(buf[:n], pong) {
						gotPong = true
						break
					}
					if !bytes.Equal(buf[:n], early) {
						return fmt.Errorf("client read unexpected data %q", buf[:n])
					}
				}
			}
			cn.SetReadDeadline(time.Time{})
			if !gotPong {
				return fmt.Errorf("no reply to %d requests", attempts)
			}
			return write(cn, bye)
		},
		SrvAct: func(cn *Conn) error {
			// the server writes immediately after completing, so that its first application
			// datagram may overtake its Finished
			if err := write(cn, early); err != nil {
				return fmt.Errorf("server write: %w", err)
			}
			buf := make([]byte, 100)
			for {
				n, err := read(cn, buf)
				if err != nil {
					return fmt.Errorf("server read: %w", err)
				}
				if bytes.Equal(buf[:n], bye) {
					return nil
				}
				if !bytes.Equal(buf[:n], ping) {
					return fmt.Errorf("server read unexpected data %q", buf[:n])
				}
				gotPing = true
				if err := write(cn, pong); err != nil {
					return fmt.Errorf("server write: %w", err)
				}
			}
		},
	}
	r := vfRunPair(ccfg, scfg, opt)
	o.cerr, o.serr, o.runErr = r.CErr, r.SErr, r.RunErr
	o.panicked = r.CPanic + r.SPanic
	o.cdone, o.sdone = r.CDoneAt, r.SDoneAt
	o.cs, o.ss, o.cfin, o.sfin = r.CS, r.SS, r.CFin, r.SFin
	r.Sim.mu.Lock()
	o.deadlines, o.timers, o.applied = r.Sim.deadlinesFired, r.Sim.timersFired, r.Sim.applied
	for _, s := range r.Sim.sent {
		if s.Act != "send" {
			o.targets = append(o.targets, fmt.Sprintf("%d:%s:%s", s.From, s.Act, c19Content(s.Data)))
		}
	}
	r.Sim.mu.Unlock()
	o.trace = r.Sim.traceStrings()
	if r.CErr == nil && r.SErr == nil {
		switch {
		case r.CAct != nil:
			o.echoErr = r.CAct.Error()
		case r.SAct != nil:
			o.echoErr = r.SAct.Error()
		case !gotPing || !gotPong:
			o.echoErr = fmt.Sprintf("request seen by the server: %v, reply seen by the client: %v", gotPing, gotPong)
		}
	}
	return o
}

// c19KnownClass maps the faults of a failing pattern to the listed known finding that explains it.
func c19KnownClass(o c19Out, sc c19Scenario) string {
	for _, t := range o.targets {
		// F11: the client's first flight-5 datagram (the one with ClientKeyExchange) lost or late:
		// it is never retransmitted and a ChangeCipherSpec arriving first is fatal
		if strings.HasPrefix(t, "0:") && strings.Contains(t, "hs16") && !strings.Contains(t, ":send+dup:") {
			return "F11"
		}
	}
	// F26: a HelloVerifyRequest delayed by more than the initial timeout arrives while the client waits
	// for ChangeCipherSpec (which only happens when that flight is itself lost or late)
	late, ccs := false, false
	for _, t := range o.targets {
		if strings.HasPrefix(t, "1:send-delayed-long:") && strings.HasSuffix(t, ":hs3") {
			late = true
		}
		if strings.Contains(t, "CCS") {
			ccs = true
		}
	}
	if late && ccs {
		return "F26"
	}
	return ""
}

func c19Check(c c19Case) (sig, msg, class string, o c19Out) {
	o = c19Exec(c)
	k := o.applied
	tr := func() string {
		t := o.trace
		if len(t) > 60 {
			t = append(append([]string(nil), t[:60]...), fmt.Sprintf("... (%d more datagrams)", len(o.trace)-60))
		}
		return strings.Join(t, " | ")
	}
	if o.panicked != "" {
		return "panic", o.panicked, "", o
	}
	if os.Getenv("VF_TRACE") != "" {
		fmt.Fprintf(os.Stderr, "TRACE cdone=%v sdone=%v cerr=%v serr=%v run=%v\n%s\n", o.cdone, o.sdone, o.cerr, o.serr, o.runErr, strings.Join(o.trace, "\n"))
	}
	known := c19KnownClass(o, c.Sc)
	if o.cerr != nil || o.serr != nil || o.runErr != nil {
		sig = "handshake-not-completed"
		msg = fmt.Sprintf("after %d applied faults %v: client=%v server=%v sim=%v; trace: %s", k, o.targets, o.cerr, o.serr, o.runErr, tr())
		return sig + ":" + strings.Join(o.targets, ","), msg, known, o
	}
	// both completed: views must agree
	if o.cs.CipherSuite != o.ss.CipherSuite || o.cs.CipherSuite != c.Sc.Suite || o.cs.DidResume != o.ss.DidResume || o.cs.DidResume != c.Sc.Resumed || o.cs.Version != o.ss.Version {
		return "views-differ", fmt.Sprintf("suite %x/%x resumed %v/%v", o.cs.CipherSuite, o.ss.CipherSuite, o.cs.DidResume, o.ss.DidResume), "", o
	}
	var zero [12]byte
	for i := 0; i < 2; i++ {
		if o.cfin[i] != zero && o.sfin[i] != zero && o.cfin[i] != o.sfin[i] {
			return "views-differ", "Finished values differ", "", o
		}
	}
	if o.echoErr != "" {
		return "data-after-handshake:" + strings.Join(o.targets, ","), fmt.Sprintf("both completed but application data did not flow: %s; faults %v; trace: %s", o.echoErr, o.targets, tr()), known, o
	}
	// completion within the retransmission schedule: initial * (2^(k+1) - 1)
	// (with a configured initial timeout and maximum: the sum of the first k+1 waits, each capped)
	ini, max := time.Second, 60*time.Second
	if c.Sc.InitMs > 0 {
		ini, max = time.Duration(c.Sc.InitMs)*time.Millisecond, time.Duration(c.Sc.MaxMs)*time.Millisecond
	}
	var limit time.Duration
	for i, w := 0, ini; i <= k; i++ {
		if w > max {
			w = max
		}
		limit += w
		w *= 2
	}
	done := o.cdone
	if o.sdone > done {
		done = o.sdone
	}
	if done > limit {
		return "too-slow:" + strings.Join(o.targets, ","), fmt.Sprintf("%d faults, completed at %v, the retransmission schedule allows %v; trace: %s", k, done, limit, tr()), known, o
	}
	if k == 0 && (o.deadlines != 0 || o.timers != 0) {
		return "timeout-without-fault", fmt.Sprintf("no fault was applied but %d read deadlines and %d timers expired (completed at %v); trace: %s", o.deadlines, o.timers, done, tr()), "", o
	}
	return "", "", "", o
}

func c19Scenarios() []c19Scenario {
	var out []c19Scenario
	for _, resumed := range []bool{false, true} {
		for _, s := range vfSuites {
			for _, rf := range []bool{false, true} {
				out = append(out, c19Scenario{Suite: s, Resumed: resumed, ClientAuth: vfIsECDHE(s), ReadFrom: rf})
				if !vfIsECDHE(s) && !rf {
					out = append(out, c19Scenario{Suite: s, Resumed: resumed, ClientAuth: true, ReadFrom: rf})
				}
			}
		}
	}
	return out
}

func TestVF_C19(t *testing.T) {
	rec := vfRec("C19", "C19-faults", "fault patterns of up to k lost / duplicated / delayed datagrams (k=1 exhaustive, k=2 sampled in the quick tier and exhaustive in the thorough tier, k=3 sampled) addressed as (sender, n-th datagram incl. retransmissions), both tie-break orders, over {full,resumed} x 4 suites x client auth x Read/ReadFrom API, small path MTUs that fragment the hellos, Config.Time pinned years before the wall clock, plus runs of 1..3 consecutive losses under configured timeouts (1 s/1 s, 1 s/2 s, 10 s/60 s, 250 ms/60 s), under virtual time (the library's dwell period is aged with the simulated clock); oracle: both handshakes complete within the sum of the first k+1 waits of the schedule (initial timeout doubling, capped at the maximum), application data then flows both ways, no expiry without a fault, views agree; non-trivial = at least one fault applied before completion; distinct = (scenario, pattern, tie-break)")
	scs := c19Scenarios()
	kinds := []string{"drop", "dup", "delay", "delay2"}
	idx := 0
	report := func(c c19Case) {
		sig, msg, known, o := c19Check(c)
		if sig != "" {
			if known != "" && vfKnown(known) {
				rec.Excluded(known)
				rec.Eval(o.applied > 0, c, "excluded-known:"+known)
				return
			}
			rec.Violation(sig, c, "%s", msg)
			return
		}
		rec.Eval(o.applied > 0, c, fmt.Sprintf("faults:%d", o.applied))
	}
	for si, sc := range scs {
		_ = si
		base := c19Exec(c19Case{Sc: sc})
		nC, nS := 0, 0
		for _, l := range base.trace {
			if strings.Contains(l, " 0#") {
				nC++
			} else if strings.Contains(l, " 1#") {
				nS++
			}
		}
		// fault-free run
		idx++
		if vfMine(idx) {
			report(c19Case{Sc: sc})
		}
		var singles []vfFault
		for dir := 0; dir < 2; dir++ {
			n := nC
			if dir == 1 {
				n = nS
			}
			// handshake datagrams only (the last ones of the baseline are application data), plus two
			// retransmission slots
			for nth := 0; nth < n+2; nth++ {
				for _, k := range kinds {
					singles = append(singles, vfFault{Kind: k, Dir: dir, Nth: nth})
				}
			}
		}
		for _, f := range singles {
			for tie := 0; tie < 2; tie++ {
				idx++
				if vfMine(idx) {
					report(c19Case{Sc: sc, Faults: []vfFault{f}, Tie: tie})
				}
			}
		}
		// pairs
		for i := 0; i < len(singles); i++ {
			for j := i + 1; j < len(singles); j++ {
				if singles[i].Dir == singles[j].Dir && singles[i].Nth == singles[j].Nth {
					continue
				}
				idx++
				if !vfThorough() && (idx+vfSeed())%7 != 0 {
					continue
				}
				if vfMine(idx) {
					report(c19Case{Sc: sc, Faults: []vfFault{singles[i], singles[j]}, Tie: idx % 2})
				}
			}
		}
	}
	// configured timeouts (maximum equal to / twice the initial value; a long initial value) with
	// runs of 1..3 consecutive losses of each datagram and its retransmissions
	for _, tm := range [][2]int{{1000, 1000}, {1000, 2000}, {10000, 60000}, {250, 60000}} {
		for _, resumed := range []bool{false, true} {
			sc := c19Scenario{Suite: ECC_SM4_GCM_SM3, Resumed: resumed, InitMs: tm[0], MaxMs: tm[1]}
			idx++
			if vfMine(idx) {
				report(c19Case{Sc: sc})
			}
			// the final flight (the datagram with ChangeCipherSpec) and its retransmissions lost 1..3 times
			// in a row, whatever else is sent in between
			for dir := 0; dir < 2; dir++ {
				for b := 1; b <= 3; b++ {
					idx++
					if vfMine(idx) {
						report(c19Case{Sc: sc, Faults: []vfFault{{Kind: "drop", Dir: dir, Nth: -1, Count: b}}, Tie: idx % 2})
					}
				}
			}
			for dir := 0; dir < 2; dir++ {
				for nth := 0; nth < 6; nth++ {
					for b := 1; b <= 3; b++ {
						idx++
						if !vfMine(idx) {
							continue
						}
						var fs []vfFault
						for j := 0; j < b; j++ {
							fs = append(fs, vfFault{Kind: "drop", Dir: dir, Nth: nth + j})
						}
						report(c19Case{Sc: sc, Faults: fs, Tie: idx % 2})
					}
				}
			}
		}
	}
	// Config.Time pinned to a date in the past: each datagram of the handshake lost once
	for _, resumed := range []bool{false, true} {
		sc := c19Scenario{Suite: ECC_SM4_GCM_SM3, Resumed: resumed, PastClock: true}
		idx++
		if vfMine(idx) {
			report(c19Case{Sc: sc})
		}
		for dir := 0; dir < 2; dir++ {
			for nth := 0; nth < 5; nth++ {
				for _, k := range []string{"drop", "delay"} {
					idx++
					if vfMine(idx) {
						report(c19Case{Sc: sc, Faults: []vfFault{{Kind: k, Dir: dir, Nth: nth}}, Tie: idx % 2})
					}
				}
			}
			idx++
			if vfMine(idx) {
				report(c19Case{Sc: sc, Faults: []vfFault{{Kind: "drop", Dir: dir, Nth: -1, Count: 1}}, Tie: idx % 2})
			}
		}
	}
	// small path MTUs (fragmented hellos): every single fault on the first datagrams of each side
	for _, suite := range []uint16{ECC_SM4_GCM_SM3, ECC_SM4_CBC_SM3} {
		pm := c19SmallPMTU(suite)
		for _, resumed := range []bool{false, true} {
			for _, both := range []bool{false, true} {
				sc := c19Scenario{Suite: suite, Resumed: resumed, CPMTU: pm}
				if both {
					sc.SPMTU = pm
				}
				idx++
				if vfMine(idx) {
					report(c19Case{Sc: sc})
				}
				for dir := 0; dir < 2; dir++ {
					for nth := 0; nth < 6; nth++ {
						for _, k := range kinds {
							idx++
							if vfMine(idx) {
								report(c19Case{Sc: sc, Faults: []vfFault{{Kind: k, Dir: dir, Nth: nth}}, Tie: idx % 2})
							}
						}
					}
				}
			}
		}
	}
	rec.SetExhaustive(false, fmt.Sprintf("%d enumerated patterns (k=1 exhaustive per visited scenario; k=2 exhaustive in the thorough tier, 1 in 7 in the quick tier); k=3 sampled by rapid", idx))
	vfRapid(t, rec, "k3", vfN(300, 8000), func(t *rapid.T) {
		sc := rapid.SampledFrom(scs).Draw(t, "sc")
		if rapid.IntRange(0, 3).Draw(t, "smallpmtu") == 0 {
			pm := c19SmallPMTU(sc.Suite) + rapid.SampledFrom([]int{0, 3, 20, 60}).Draw(t, "pmplus")
			sc.CPMTU = pm
			if rapid.Bool().Draw(t, "spmtu") {
				sc.SPMTU = pm
			}
		}
		if !sc.ClientAuth && rapid.IntRange(0, 4).Draw(t, "pastclock") == 0 {
			sc.PastClock = true
		}
		n := rapid.IntRange(1, 3).Draw(t, "k")
		var fs []vfFault
		for i := 0; i < n; i++ {
			fs = append(fs, vfFault{Kind: rapid.SampledFrom(kinds).Draw(t, "kind"), Dir: rapid.IntRange(0, 1).Draw(t, "dir"), Nth: rapid.IntRange(0, 7).Draw(t, "nth")})
		}
		sort.Slice(fs, func(i, j int) bool { return fs[i].Dir*100+fs[i].Nth < fs[j].Dir*100+fs[j].Nth })
		c := c19Case{Sc: sc, Faults: fs, Tie: rapid.IntRange(0, 1).Draw(t, "tie")}
		sig, msg, known, o := c19Check(c)
		if sig != "" {
			if known != "" && vfKnown(known) {
				rec.Excluded(known)
				return
			}
			rec.Fail(t, sig, c, "%s", msg)
		}
		rec.Eval(o.applied > 0, c, fmt.Sprintf("faults:%d", o.applied))
	})
	// pinned reproducers of the listed findings
	if vfKnown("F26") {
		sig, _, _, _ := c19Check(c19Case{Sc: c19Scenario{Suite: ECC_SM4_GCM_SM3}, Faults: []vfFault{{Kind: "delay2", Dir: 1, Nth: 0}, {Kind: "drop", Dir: 1, Nth: 3}}})
		rec.Known("F26", sig != "")
	}
	if vfKnown("F11") {
		sig, _, _, _ := c19Check(c19Case{Sc: c19Scenario{Suite: ECC_SM4_GCM_SM3}, Faults: []vfFault{{Kind: "drop", Dir: 0, Nth: 2}}})
		rec.Known("F11", sig != "")
	}
}

func init() {
	vfRegisterReplay("C19-faults", func(raw json.RawMessage) error {
		var c c19Case
		if err := json.Unmarshal(raw, &c); err != nil {
			return err
		}
		if sig, msg, _, _ := c19Check(c); sig != "" {
			return fmt.Errorf("%s: %s", sig, msg)
		}
		return nil
	})
}
