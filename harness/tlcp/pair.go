//go:build verif

package tlcp

// Pair runner for the stream stack: two unmodified endpoints over the stream simulator.

import (
	"time"
	"path/filepath"
	"os"
	"strings"
	"errors"
	"fmt"
	"io"
	"sync"
)

type vfPairOpt struct {
	Edit   [2]vfRecEdit // record-level MITM on what the client (0) / server (1) writes
	Seg    [2]func(int) int
	Cut    [2]int // 0 = none; n>0: end the stream written by that side after n-1 bytes
	// CliAct/SrvAct run after a successful handshake in the endpoint's driving goroutine.
	CliAct, SrvAct func(c *Conn) error
	// KeepOpen: do not close the transport end when an endpoint's handshake fails.
	KeepOpen bool
	Prepare  func(sim *vfStream, cli, srv *Conn)
	SrvAddr  string // address of the server end (the client's session cache is keyed by it)
	// InPlace exists for parity with the datagram stack's runner (this one never clones the configurations).
	InPlace bool
}

type vfPair struct {
	CErr, SErr     error
	CAct, SAct     error
	CPanic, SPanic string
	Stalled        bool
	CS, SS         ConnectionState
	CFin, SFin     [2][12]byte
	Cli, Srv       *Conn
	Sim            *vfStream
}

const vfStack = "tlcp"

func vfRunPair(ccfg, scfg *Config, opt vfPairOpt) *vfPair {
	sim := vfNewStream()
	for i := 0; i < 2; i++ {
		sim.ends[i].edit = opt.Edit[i]
		sim.ends[i].seg = opt.Seg[i]
		if opt.Cut[i] > 0 {
			sim.ends[i].cutAfter = opt.Cut[i] - 1
		}
	}
	sim.ends[1].addr = opt.SrvAddr
	cli, srv := Client(sim.ends[0], ccfg), Server(sim.ends[1], scfg)
	if opt.Prepare != nil {
		opt.Prepare(sim, cli, srv)
	}
	r := &vfPair{Cli: cli, Srv: srv, Sim: sim}
	var wg sync.WaitGroup
	sim.drive(0, &wg, func() {
		r.CPanic = vfRecover(func() {
			r.CErr = cli.Handshake()
			if r.CErr != nil {
				if !opt.KeepOpen {
					sim.ends[0].Close()
				}
				return
			}
			if opt.CliAct != nil {
				r.CAct = opt.CliAct(cli)
			}
		})
		if r.CPanic != "" {
			sim.ends[0].Close()
		}
	})
	sim.drive(1, &wg, func() {
		r.SPanic = vfRecover(func() {
			r.SErr = srv.Handshake()
			if r.SErr != nil {
				if !opt.KeepOpen {
					sim.ends[1].Close()
				}
				return
			}
			if opt.SrvAct != nil {
				r.SAct = opt.SrvAct(srv)
			}
		})
		if r.SPanic != "" {
			sim.ends[1].Close()
		}
	})
	sim.watch()
	wg.Wait()
	r.Stalled = sim.stalled
	r.CS, r.SS = cli.ConnectionState(), srv.ConnectionState()
	r.CFin = [2][12]byte{cli.clientFinished, cli.serverFinished}
	r.SFin = [2][12]byte{srv.clientFinished, srv.serverFinished}
	if opt.Edit[0] == nil && opt.Edit[1] == nil && opt.Cut[0] == 0 && opt.Cut[1] == 0 && opt.Prepare == nil {
		vfTrapSM2(r, scfg) // an untouched conversation between two honest endpoints
	}
	return r
}

// vfTrapSM2 keeps what was on the wire when a client rejects a ServerKeyExchange signature, so that the
// signature can be verified offline (diagnosis of a rare failure of honest handshakes; see DESIGN 6.3).
func vfTrapSM2(r *vfPair, scfg *Config) {
	if r.CErr == nil || !strings.Contains(r.CErr.Error(), "sm2 verification failure") {
		return
	}
	dir := os.Getenv("VERIF_DIR")
	if dir == "" {
		return
	}
	a, _ := r.Sim.snapshot(0)
	b, _ := r.Sim.snapshot(1)
	a2 := r.Sim.ends[0].sentOut
	b2 := r.Sim.ends[1].sentOut
	var certs string
	for _, c := range scfg.Certificates {
		if len(c.Certificate) > 0 {
			certs += fmt.Sprintf("%x\n", c.Certificate[0])
		}
	}
	os.MkdirAll(filepath.Join(dir, ".work", "sm2trap"), 0o755)
	name := filepath.Join(dir, ".work", "sm2trap", fmt.Sprintf("%d-%d.txt", os.Getpid(), time.Now().UnixNano()))
	os.WriteFile(name, []byte(fmt.Sprintf("cerr %v\nserr %v\nc2s-wrote %x\ns2c-wrote %x\nc2s-delivered %x\ns2c-delivered %x\nservercerts\n%s", r.CErr, r.SErr, a, b, a2, b2, certs)), 0o644)
}

// vfWire returns the records each side wrote (before any MITM edit).
func (r *vfPair) vfWire() (c2s, s2c [][]byte) {
	a, _ := r.Sim.snapshot(0)
	b, _ := r.Sim.snapshot(1)
	c2s, _ = vfSplitRecords(a)
	s2c, _ = vfSplitRecords(b)
	return
}

// vfSendAll writes p and fails unless the full length is reported.
func vfSendAll(c *Conn, p []byte) error {
	n, err := c.Write(p)
	if err != nil {
		return fmt.Errorf("write: %w", err)
	}
	if n != len(p) {
		return fmt.Errorf("write reported %d of %d bytes", n, len(p))
	}
	return nil
}

// vfRecvN reads exactly n bytes (stream semantics).
func vfRecvN(c *Conn, n int) ([]byte, error) {
	buf := make([]byte, n)
	got := 0
	for got < n {
		m, err := c.Read(buf[got:])
		got += m
		if err != nil {
			if err == io.EOF && got == n {
				break
			}
			return buf[:got], fmt.Errorf("read after %d of %d bytes: %w", got, n, err)
		}
		if m == 0 {
			return buf[:got], errors.New("read returned 0, nil")
		}
	}
	return buf, nil
}

// vfServerHelloSuite parses the cipher suite out of the ServerHello as it appeared on the wire.
func vfServerHelloSuite(r *vfPair) (uint16, bool) {
	_, s2c := r.vfWire()
	var hs []byte
	for _, rec := range s2c {
		if rec[0] != 22 {
			break
		}
		hs = append(hs, rec[5:]...)
	}
	if len(hs) < 4+2+32+1 || hs[0] != typeServerHello {
		return 0, false
	}
	p := 4 + 2 + 32
	sid := int(hs[p])
	p += 1 + sid
	if len(hs) < p+2 {
		return 0, false
	}
	return uint16(hs[p])<<8 | uint16(hs[p+1]), true
}
