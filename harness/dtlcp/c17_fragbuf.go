//go:build verif

package dtlcp

// C17a: fragmentBuffer against a byte-set reassembler.
// Precondition taken from the only caller (readHandshake): total length >= 1 and the data slice
// handed to addFragment has exactly `length` bytes.

import (
	"bytes"
	"encoding/json"
	"fmt"
	"testing"

	"pgregory.net/rapid"
)

type c17Frag struct {
	Off int `json:"o"`
	Len int `json:"l"`
}

type c17Case struct {
	Total int       `json:"total"`
	Frags []c17Frag `json:"frags"`
}

func c17Msg(n int) []byte {
	b := make([]byte, n)
	for i := range b {
		b[i] = byte(i*13+7) ^ byte(i>>7)
	}
	return b
}

func c17Run(c c17Case) (sig, msg string, interesting bool) {
	m := c17Msg(c.Total)
	fb := newFragmentBuffer(uint24(c.Total))
	covered := make([]bool, c.Total)
	ncov := 0
	for i, f := range c.Frags {
		inRange := f.Off+f.Len <= c.Total
		data := make([]byte, f.Len)
		if inRange {
			copy(data, m[f.Off:f.Off+f.Len])
		}
		var ok bool
		if p := vfRecover(func() { ok = fb.addFragment(uint24(f.Off), uint24(f.Len), data) }); p != "" {
			return "fragbuf-panic", fmt.Sprintf("addFragment(%d,%d) on a %d-byte message panicked: %s", f.Off, f.Len, c.Total, p), true
		}
		if ok != inRange {
			return "fragbuf-range", fmt.Sprintf("step %d: addFragment(off=%d,len=%d) on a %d-byte message returned %v", i, f.Off, f.Len, c.Total, ok), true
		}
		if inRange {
			for j := f.Off; j < f.Off+f.Len; j++ {
				if !covered[j] {
					covered[j] = true
					ncov++
				} else {
					interesting = true // overlap or duplicate
				}
			}
		} else {
			interesting = true
		}
		want := ncov == c.Total
		if got := fb.complete(); got != want {
			return "fragbuf-complete", fmt.Sprintf("step %d: complete()=%v but %d of %d bytes are covered", i, got, ncov, c.Total), true
		}
		if want && !bytes.Equal(fb.assembled(), m) {
			return "fragbuf-content", fmt.Sprintf("step %d: assembled message differs from the original", i), true
		}
	}
	if len(c.Frags) >= 2 {
		// out of order?
		for i := 1; i < len(c.Frags); i++ {
			if c.Frags[i].Off < c.Frags[i-1].Off {
				interesting = true
			}
		}
		if ncov < c.Total {
			interesting = true // gap
		}
	}
	return "", "", interesting
}

func TestVF_C17_FragBuf(t *testing.T) {
	rec := vfRec("C17", "C17a-fragbuf", "fragmentBuffer vs byte-set reassembler: all ordered sequences of up to D fragments (every offset/length incl. out-of-range and empty) over messages of 1..6 bytes, then rapid fragment sets over messages up to 70000 bytes; non-trivial = at least two fragments with an overlap, gap, duplicate, permutation or out-of-range fragment; distinct = hash(total, fragments)")
	depth := 3
	if vfThorough() {
		depth = 4
	}
	idx, total := 0, 0
	for L := 1; L <= 6; L++ {
		var alpha []c17Frag
		for off := 0; off <= L; off++ {
			for ln := 0; off+ln <= L+1; ln++ {
				alpha = append(alpha, c17Frag{off, ln})
			}
		}
		for d := 1; d <= depth; d++ {
			seq := make([]int, d)
			for {
				idx++
				total++
				if vfMine(idx) {
					c := c17Case{Total: L, Frags: make([]c17Frag, d)}
					for i, a := range seq {
						c.Frags[i] = alpha[a]
					}
					sig, msg, nt := c17Run(c)
					if sig != "" {
						rec.Violation(sig, c, "%s", msg)
					}
					rec.EvalHash(nt, vfHash(L, seq), func() interface{} { return c })
				}
				i := d - 1
				for i >= 0 {
					seq[i]++
					if seq[i] < len(alpha) {
						break
					}
					seq[i] = 0
					i--
				}
				if i < 0 {
					break
				}
			}
		}
	}
	rec.SetExhaustive(false, fmt.Sprintf("exhaustive part: %d fragment sequences (messages of 1..6 bytes, up to %d fragments); random part sampled", total, depth))
	vfRapid(t, rec, "long", vfN(3000, 60000), func(t *rapid.T) {
		total := rapid.OneOf(rapid.IntRange(1, 70000), rapid.IntRange(1, 40), rapid.SampledFrom([]int{7, 8, 9, 15, 16, 17, 255, 256, 257, 65535, 65536})).Draw(t, "total")
		c := c17Case{Total: total}
		// start from a random split, then permute / duplicate / overlap / drop
		var cuts []int
		nc := rapid.IntRange(0, 12).Draw(t, "ncuts")
		for i := 0; i < nc; i++ {
			cuts = append(cuts, rapid.IntRange(0, total).Draw(t, "cut"))
		}
		cuts = append(cuts, 0, total)
		for i := 0; i < len(cuts); i++ {
			for j := i + 1; j < len(cuts); j++ {
				if cuts[j] < cuts[i] {
					cuts[i], cuts[j] = cuts[j], cuts[i]
				}
			}
		}
		for i := 0; i+1 < len(cuts); i++ {
			f := c17Frag{cuts[i], cuts[i+1] - cuts[i]}
			switch rapid.IntRange(0, 9).Draw(t, "mut") {
			case 0: // drop
				continue
			case 1: // overlap to the left
				ext := rapid.IntRange(0, f.Off).Draw(t, "ext")
				f.Off -= ext
				f.Len += ext
			case 2: // duplicate
				c.Frags = append(c.Frags, f)
			case 3: // out of range
				f.Len += rapid.IntRange(1, 3).Draw(t, "over") + (total - f.Off - f.Len)
			}
			c.Frags = append(c.Frags, f)
		}
		c.Frags = rapid.Permutation(c.Frags).Draw(t, "order")
		sig, msg, nt := c17Run(c)
		if sig != "" {
			rec.Fail(t, sig, c, "%s", msg)
		}
		rec.EvalHash(nt, vfHash(c.Total, c.Frags), func() interface{} {
			if len(c.Frags) > 6 {
				return c17Case{Total: c.Total, Frags: c.Frags[:6]}
			}
			return c
		})
	})
}

func init() {
	vfRegisterReplay("C17a-fragbuf", func(raw json.RawMessage) error {
		var c c17Case
		if err := json.Unmarshal(raw, &c); err != nil {
			return err
		}
		if sig, msg, _ := c17Run(c); sig != "" {
			return fmt.Errorf("%s: %s", sig, msg)
		}
		return nil
	})
}
