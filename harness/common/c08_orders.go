//go:build verif

package vfpkg

//vf:pkgs tlcp dtlcp

// C08: each endpoint accepts exactly the message orders the standard allows.
// Prefix-closed enumeration: a sequence is extended only while the endpoint under test is still
// waiting for more. The scripted peer produces every symbol with contents consistent with what it
// actually sent and received so far (transcript, keys, Finished), so that the endpoint can reject a
// deviation only because its state machine says so.

import (
	"bytes"
	"encoding/json"
	"fmt"
	"strings"
	"testing"

	"github.com/emmansun/gmsm/sm2"
)

type c08Scenario struct {
	Client  bool   `json:"client"` // the endpoint under test is the client
	Suite   uint16 `json:"suite"`
	Resumed bool   `json:"resumed"`
	CertReq bool   `json:"certreq"` // server requests a client certificate
	Policy  int    `json:"policy"`  // the server's ClientAuthType when CertReq (0 = RequireAndVerifyClientCert)
	Packed  bool   `json:"packed"`  // consecutive handshake messages of the peer share one record
	// SkipVerify: the client under test does not verify certificates (InsecureSkipVerify); the legal
	// message orders are the same
	SkipVerify bool `json:"skipverify,omitempty"`
	// EncLeaf (server under test): the scripted client's Certificate message lists its encryption
	// certificate (key usage without digitalSignature) first, and its CertificateVerify is made with
	// that certificate's key; the legal orders are the same - a certificate was sent, so a proof is due
	EncLeaf bool `json:"encleaf,omitempty"`
}

type c08Case struct {
	Sc  c08Scenario `json:"sc"`
	Seq []string    `json:"seq"`
}

func c08Legal(sc c08Scenario) [][]string {
	ecdhe := vfIsECDHE(sc.Suite)
	if sc.Client {
		if sc.Resumed {
			return [][]string{{"SH", "CCS", "Fin"}}
		}
		l := [][]string{{"SH", "Cert", "SKX", "CR", "SHD", "CCS", "Fin"}}
		if !ecdhe {
			l = append(l, []string{"SH", "Cert", "SKX", "SHD", "CCS", "Fin"})
		}
		return l
	}
	if sc.Resumed {
		return [][]string{{"CCS", "Fin"}}
	}
	if sc.CertReq || ecdhe {
		return [][]string{{"Cert", "CKE", "CV", "CCS", "Fin"}}
	}
	return [][]string{{"CKE", "CCS", "Fin"}}
}

func c08Alphabet(sc c08Scenario) []string {
	if sc.Client {
		return []string{"SH", "Cert", "SKX", "CR", "SHD", "CCS", "Fin", "W", "A", "A0", "xCH", "xCKE", "xCV"}
	}
	a := []string{"Cert", "CKE", "CV", "CCS", "Fin", "W", "A", "A0", "xSH", "xSKX", "xCR", "xSHD"}
	if vfStack != "dtlcp" {
		// a datagram server treats a ClientHello that arrives while it waits for the client's flight
		// as a retransmission and answers by retransmitting its own flight (that is C19's business)
		a = append(a, "xCH")
	}
	return a
}

// c08Expect: "complete", "alive" (still waiting) or "fail".
func c08Expect(sc c08Scenario, seq []string) string {
	var core []string
	run := 0
	for _, s := range seq {
		if s == "W" {
			run++
			if run > 16 {
				return "fail"
			}
			continue
		}
		run = 0
		core = append(core, s)
	}
	res := "fail"
	for _, l := range c08Legal(sc) {
		if len(core) > len(l) {
			continue
		}
		ok := true
		for i := range core {
			if core[i] != l[i] {
				ok = false
			}
		}
		if !ok {
			continue
		}
		if len(core) == len(l) {
			// (warning alerts after the last message are post-handshake traffic)
			return "complete"
		}
		res = "alive"
	}
	return res
}

type c08World struct {
	ucfg, pcfg *Config
	sid, master []byte // resumed scenarios: the session both sides know
}

func c08Prepare(sc c08Scenario) (*c08World, string) {
	p := vfGetPKI()
	w := &c08World{}
	ccfg := &Config{Time: vfTime, RootCAs: p.A.pool, ServerName: vfServerName, CipherSuites: []uint16{sc.Suite}, Certificates: []Certificate{p.CliSig, p.CliEnc}}
	scfg := &Config{Time: vfTime, Certificates: []Certificate{p.SrvSig, p.SrvEnc}, CipherSuites: []uint16{sc.Suite}, ClientCAs: p.A.pool}
	if sc.Client && sc.SkipVerify {
		ccfg.InsecureSkipVerify = true
	}
	if sc.CertReq {
		scfg.ClientAuth = RequireAndVerifyClientCert
		if sc.Policy != 0 {
			scfg.ClientAuth = ClientAuthType(sc.Policy)
		}
	}
	if sc.Resumed {
		cc, scc := vfNewCapCache(4), vfNewCapCache(4)
		ccfg.SessionCache, scfg.SessionCache = cc, scc
		r := vfRunPair(ccfg, scfg, vfPairOpt{})
		if r.CErr != nil || r.SErr != nil {
			return nil, fmt.Sprintf("original connection failed: %v / %v", r.CErr, r.SErr)
		}
		st := scc.stored[len(scc.stored)-1]
		w.sid, w.master = append([]byte(nil), st.sessionId...), append([]byte(nil), st.masterSecret...)
	}
	if sc.Client {
		w.ucfg, w.pcfg = ccfg, scfg
		w.pcfg.SessionCache = nil
	} else {
		w.ucfg, w.pcfg = scfg, ccfg
		w.pcfg.SessionCache = nil
		w.pcfg.InsecureSkipVerify = true
	}
	w.ucfg = w.ucfg.Clone()
	vfPeerTuneConfig(w.ucfg)
	return w, ""
}

// c08Packer lets the peer put consecutive handshake messages into one record.
type c08Packer struct {
	c       *Conn
	packed  bool
	pending []byte
}

func (k *c08Packer) hs(m handshakeMessage, transcript *finishedHash) error {
	vfPeerSeq(k.c, m)
	data, err := m.marshal()
	if err != nil {
		return err
	}
	if transcript != nil {
		transcript.Write(data)
	}
	if k.packed {
		k.pending = append(k.pending, data...)
		return nil
	}
	return vfPeerRawRecord(k.c, recordTypeHandshake, data)
}

func (k *c08Packer) flush() error {
	if len(k.pending) == 0 {
		return nil
	}
	d := k.pending
	k.pending = nil
	return vfPeerRawRecord(k.c, recordTypeHandshake, d)
}

func c08Run(c c08Case) (outcome, sig, msg string) {
	w, perr := c08Prepare(c.Sc)
	if perr != "" {
		return "", "honest-failed", perr
	}
	p := vfGetPKI()
	var peer func(pc *Conn) error
	if c.Sc.Client {
		peer = func(pc *Conn) error { return c08ServerPeer(pc, c, w, p) }
	} else {
		peer = func(pc *Conn) error { return c08ClientPeer(pc, c, w, p) }
	}
	r := vfRunVsPeer(c.Sc.Client, w.ucfg, w.pcfg, peer, nil)
	if r.UPanic != "" {
		return "", "panic", "endpoint under test panicked: " + r.UPanic
	}
	if r.PPanic != "" {
		return "", "harness-peer-panic", r.PPanic
	}
	switch {
	case r.UHung:
		outcome = "alive"
	case r.UErr == nil:
		outcome = "complete"
	default:
		outcome = "fail"
	}
	want := c08Expect(c.Sc, c.Seq)
	mismatch := outcome != want
	if c.Sc.Packed {
		// messages packed behind a legal prefix in the same record are only looked at when the endpoint
		// next reads handshake data, so "still waiting" and "error" are not told apart here
		mismatch = (outcome == "complete") != (want == "complete")
	}
	if mismatch {
		role := "server"
		if c.Sc.Client {
			role = "client"
		}
		kind := "accepted-illegal-order"
		if want == "complete" {
			kind = "rejected-legal-order"
		} else if outcome == "fail" {
			kind = "rejected-legal-prefix"
		} else if outcome == "alive" && want == "fail" {
			kind = "illegal-prefix-not-rejected"
		}
		return outcome, kind + ":" + role, fmt.Sprintf("%s under test, suite %x resumed=%v certreq=%v policy=%d encleaf=%v packed=%v, sequence [%s]: observed %s, the standard's language says %s (endpoint error: %v; peer: %v)",
			role, c.Sc.Suite, c.Sc.Resumed, c.Sc.CertReq, c.Sc.Policy, c.Sc.EncLeaf, c.Sc.Packed, strings.Join(c.Seq, " "), outcome, want, r.UErr, r.PErr)
	}
	return outcome, "", ""
}

// c08ServerPeer plays the server's side of the sequence against a client under test.
func c08ServerPeer(pc *Conn, c c08Case, w *c08World, p *vfPKI) error {
	sp := vfNewSrvPeer(pc)
	if err := sp.ReadClientHello(); err != nil {
		return err
	}
	if err := sp.PickSuite(0); err != nil {
		return err
	}
	hs := sp.hs
	hs.hello.cipherSuite = hs.suite.id
	if c.Sc.Resumed {
		hs.hello.sessionId = sp.ch.sessionId
		hs.masterSecret = append([]byte(nil), w.master...)
	} else {
		hs.hello.sessionId = bytes.Repeat([]byte{0x5a}, 32)
	}
	hs.finishedHash = newFinishedHash(pc.vers, hs.suite)
	transcriptMsg(hs.clientHello, &hs.finishedHash)
	sp.ka = hs.suite.ka(pc.vers)
	pk := &c08Packer{c: pc, packed: c.Sc.Packed}
	gotFlight, gotFin, keys, dead := false, false, false, false
	establish := func() {
		if !keys {
			if hs.masterSecret == nil {
				hs.masterSecret = make([]byte, 48)
			}
			hs.establishKeys()
			keys = true
		}
	}
	absorb := func() {
		for !dead && vfPeerPending(pc) {
			if c.Sc.Resumed {
				establish()
				if err := sp.ReadClientFinished(); err != nil {
					dead = true
				}
				gotFin = true
				continue
			}
			if !gotFlight {
				if err := sp.ReadClientFlight(true); err != nil {
					dead = true
				}
				gotFlight = true
				continue
			}
			if !gotFin {
				establish()
				if err := sp.ReadClientFinished(); err != nil {
					dead = true
				}
				gotFin = true
				continue
			}
			dead = true // unexpected extra output (an alert)
		}
	}
	for _, sym := range c.Seq {
		var err error
		isHS := true
		switch sym {
		case "SH":
			err = pk.hs(hs.hello, &hs.finishedHash)
			hs.hello.raw = nil
		case "Cert":
			err = pk.hs(&certificateMsg{certificates: [][]byte{p.SrvSig.Certificate[0], p.SrvEnc.Certificate[0]}}, &hs.finishedHash)
		case "SKX":
			var skx *serverKeyExchangeMsg
			if skx, err = sp.ka.generateServerKeyExchange(hs); err == nil {
				err = pk.hs(skx, &hs.finishedHash)
			}
		case "CR":
			err = pk.hs(&certificateRequestMsg{certificateTypes: []byte{certTypeRSASign, certTypeECDSASign}}, &hs.finishedHash)
		case "SHD":
			err = pk.hs(new(serverHelloDoneMsg), &hs.finishedHash)
		case "Fin":
			if hs.masterSecret == nil {
				hs.masterSecret = make([]byte, 48)
			}
			err = pk.hs(&finishedMsg{verifyData: hs.finishedHash.serverSum(hs.masterSecret)}, &hs.finishedHash)
		case "xCH":
			hs.clientHello.raw = nil
			err = pk.hs(hs.clientHello, &hs.finishedHash)
		case "xCKE":
			err = pk.hs(&clientKeyExchangeMsg{ciphertext: []byte{0, 3, 0x30, 1, 0}}, &hs.finishedHash)
		case "xCV":
			err = pk.hs(&certificateVerifyMsg{signature: []byte{1, 2, 3}}, &hs.finishedHash)
		case "xHVR":
			err = pk.hs(vfRawMsg(pc, 3, []byte{1, 1, 2, 0xaa, 0xbb}), &hs.finishedHash)
		default:
			isHS = false
			if err = pk.flush(); err != nil {
				break
			}
			absorb()
			switch sym {
			case "CCS":
				if c.Sc.Resumed || gotFlight {
					establish()
				}
				err = sp.SendCCS()
			case "W":
				err = vfPeerAlert(pc, 1, 90)
			case "A":
				err = sp.SendAppData([]byte("early"))
			case "A0": // an application-data record without payload
				err = vfPeerEmptyRecord(pc, recordTypeApplicationData)
			}
		}
		if err != nil {
			return fmt.Errorf("peer: sending %s: %w", sym, err)
		}
		if !isHS || !pk.packed {
			absorb()
		}
	}
	if err := pk.flush(); err != nil {
		return err
	}
	absorb()
	return nil
}

// c08ClientPeer plays the client's side of the sequence against a server under test.
func c08ClientPeer(pc *Conn, c c08Case, w *c08World, p *vfPKI) error {
	cp := vfNewCliPeer(pc)
	o := vfCHOpt{}
	if c.Sc.Resumed {
		o.SessionID = w.sid
	}
	if err := cp.SendClientHello(o); err != nil {
		return err
	}
	hs := cp.hs
	resumed := c.Sc.Resumed && bytes.Equal(cp.sh.sessionId, w.sid)
	if c.Sc.Resumed && !resumed {
		return fmt.Errorf("peer: server did not resume")
	}
	gotFin, dead, keys := false, false, false
	establish := func() {
		if !keys {
			if resumed {
				cp.SetMaster(w.master)
			} else {
				cp.ComputeMaster()
			}
			hs.establishKeys()
			keys = true
		}
	}
	if resumed {
		establish()
		if err := cp.ReadServerFinished(); err != nil {
			return err
		}
		gotFin = true
	} else {
		if err := cp.ReadServerFlight(); err != nil {
			return err
		}
		enc := p.CliEnc
		if err := cp.PrepareCKE(&enc); err != nil {
			return err
		}
	}
	pk := &c08Packer{c: pc, packed: c.Sc.Packed}
	absorb := func() {
		for !dead && vfPeerPending(pc) {
			if !gotFin {
				establish()
				if err := cp.ReadServerFinished(); err != nil {
					dead = true
				}
				gotFin = true
				continue
			}
			dead = true
		}
	}
	sentCCS := false
	for _, sym := range c.Seq {
		var err error
		isHS := true
		switch sym {
		case "Cert":
			if c.Sc.EncLeaf {
				err = pk.hs(&certificateMsg{certificates: [][]byte{p.CliEnc.Certificate[0], p.CliEnc.Certificate[0]}}, &hs.finishedHash)
				break
			}
			err = pk.hs(&certificateMsg{certificates: [][]byte{p.CliSig.Certificate[0], p.CliEnc.Certificate[0]}}, &hs.finishedHash)
		case "CKE":
			if cp.ckx != nil {
				err = pk.hs(&clientKeyExchangeMsg{ciphertext: cp.ckx.ciphertext}, &hs.finishedHash)
			} else {
				err = pk.hs(&clientKeyExchangeMsg{ciphertext: []byte{0, 3, 0x30, 1, 0}}, &hs.finishedHash)
			}
		case "CV":
			sigType, newHash, _ := typeAndHashFrom(hs.suite.id)
			var sg []byte
			cvKey := p.CliSig.PrivateKey.(*sm2.PrivateKey)
			if c.Sc.EncLeaf {
				cvKey = p.CliEnc.PrivateKey.(*sm2.PrivateKey)
			}
			if sg, err = signHandshake(pc, sigType, cvKey, newHash, hs.finishedHash.Sum()); err == nil {
				err = pk.hs(&certificateVerifyMsg{signature: sg}, &hs.finishedHash)
			}
		case "Fin":
			if hs.masterSecret == nil {
				if resumed {
					cp.SetMaster(w.master)
				} else {
					cp.ComputeMaster()
				}
			}
			err = pk.hs(&finishedMsg{verifyData: hs.finishedHash.clientSum(hs.masterSecret)}, &hs.finishedHash)
		case "xCH":
			cp.hello.raw = nil
			err = pk.hs(cp.hello, &hs.finishedHash)
		case "xSH":
			cp.sh.raw = nil
			err = pk.hs(cp.sh, &hs.finishedHash)
		case "xSKX":
			err = pk.hs(&serverKeyExchangeMsg{key: []byte{0, 1, 0x30}}, &hs.finishedHash)
		case "xCR":
			err = pk.hs(&certificateRequestMsg{certificateTypes: []byte{certTypeECDSASign}}, &hs.finishedHash)
		case "xSHD":
			err = pk.hs(new(serverHelloDoneMsg), &hs.finishedHash)
		default:
			isHS = false
			if err = pk.flush(); err != nil {
				break
			}
			absorb()
			switch sym {
			case "CCS":
				if !sentCCS {
					establish()
				}
				sentCCS = true
				err = cp.SendCCS()
			case "W":
				err = vfPeerAlert(pc, 1, 90)
			case "A":
				err = cp.SendAppData([]byte("early"))
			case "A0":
				err = vfPeerEmptyRecord(pc, recordTypeApplicationData)
			}
		}
		if err != nil {
			return fmt.Errorf("peer: sending %s: %w", sym, err)
		}
		if !isHS || !pk.packed {
			absorb()
		}
	}
	if err := pk.flush(); err != nil {
		return err
	}
	absorb()
	return nil
}

// c08PastCompletion: the sequence continues after a complete legal flow; what follows is
// post-handshake traffic (C09/C12), not a handshake message order.
func c08PastCompletion(sc c08Scenario, seq []string) bool {
	var core []string
	for _, s := range seq {
		if s != "W" {
			core = append(core, s)
		}
	}
	for _, l := range c08Legal(sc) {
		if len(core) > len(l) && strings.Join(core[:len(l)], " ") == strings.Join(l, " ") {
			return true
		}
	}
	return false
}

func c08Scenarios() []c08Scenario {
	var out []c08Scenario
	suites := []uint16{ECC_SM4_GCM_SM3, ECDHE_SM4_GCM_SM3}
	if vfThorough() {
		suites = vfSuites
	}
	for _, client := range []bool{true, false} {
		for _, s := range suites {
			for _, resumed := range []bool{false, true} {
				for _, packed := range []bool{false, true} {
					if client {
						out = append(out, c08Scenario{Client: true, Suite: s, Resumed: resumed, Packed: packed})
						if !resumed {
							out = append(out, c08Scenario{Client: true, Suite: s, Packed: packed, SkipVerify: true})
						}
						continue
					}
					out = append(out, c08Scenario{Suite: s, Resumed: resumed, CertReq: vfIsECDHE(s), Packed: packed})
					if !vfIsECDHE(s) && !resumed {
						out = append(out, c08Scenario{Suite: s, CertReq: true, Packed: packed})
						// optional policies: the Certificate message is still mandatory once requested
						out = append(out, c08Scenario{Suite: s, CertReq: true, Policy: int(RequestClientCert), Packed: packed})
						out = append(out, c08Scenario{Suite: s, CertReq: true, Policy: int(VerifyClientCertIfGiven), Packed: packed})
						// the certificate the client lists first is not a signing certificate (seeded change C08-m17)
						out = append(out, c08Scenario{Suite: s, CertReq: true, Policy: int(RequireAnyClientCert), Packed: packed, EncLeaf: true})
						out = append(out, c08Scenario{Suite: s, CertReq: true, Packed: packed, EncLeaf: true})
					}
				}
			}
		}
	}
	return out
}

func TestVF_C08(t *testing.T) {
	rec := vfRec("C08", "C08-orders", "prefix-closed enumeration of symbol sequences (own-role and foreign handshake message kinds, ChangeCipherSpec, warning alert, application data; handshake messages one per record or packed into one record) sent by a scripted peer with consistent transcript/keys, extended only while the endpoint under test is still waiting; roles client/server x ECC/ECDHE x full/resumed x certificate requested or not x (client) verifying or not x (server) the client lists its signing or its encipherment-only certificate first; at most two warning alerts per sequence plus the 16/17 boundary; oracle: complete / waiting / error exactly as the standard's message-order language says; non-trivial = sequence is not the legal flow; distinct = (scenario, sequence)")
	scs := c08Scenarios()
	idx := 0
	total := 0
	for si, sc := range scs {
		if !vfMine(si) {
			continue
		}
		alpha := c08Alphabet(sc)
		frontier := [][]string{{}}
		maxLen := 0
		for _, l := range c08Legal(sc) {
			if len(l) > maxLen {
				maxLen = len(l)
			}
		}
		if sc.Packed {
			frontier = nil
		}
		for depth := 0; depth <= maxLen+2 && len(frontier) > 0; depth++ {
			var next [][]string
			for _, pre := range frontier {
				for _, sym := range alpha {
					if sym == "W" {
						nw := 0
						for _, s := range pre {
							if s == "W" {
								nw++
							}
						}
						if nw >= 2 {
							continue
						}
					}
					seq := append(append([]string(nil), pre...), sym)
					c := c08Case{Sc: sc, Seq: seq}
					idx++
					total++
					out, sig, msg := c08Run(c)
					if sig != "" {
						rec.Violation(sig, c, "%s", msg)
						continue
					}
					legal := false
					for _, l := range c08Legal(sc) {
						if strings.Join(l, " ") == strings.Join(seq, " ") {
							legal = true
						}
					}
					rec.Eval(!legal, c, "outcome:"+out)
					if out == "alive" && c08Expect(sc, seq) == "alive" {
						next = append(next, seq)
					}
				}
			}
			frontier = next
		}
		// single-edit neighbourhood of every legal flow (one omission, repetition, adjacent
		// transposition or inserted symbol). In packed mode this is the whole enumeration, because a
		// packed prefix is not seen by the endpoint before the record is flushed.
		seen := map[string]bool{}
		for _, l := range c08Legal(sc) {
			var cands [][]string
			for i := range l {
				cands = append(cands, append(append([]string(nil), l[:i]...), l[i+1:]...)) // omission
				rep := append(append([]string(nil), l[:i+1]...), l[i:]...)                  // repetition
				cands = append(cands, rep)
				if i+1 < len(l) {
					tr := append([]string(nil), l...)
					tr[i], tr[i+1] = tr[i+1], tr[i]
					cands = append(cands, tr)
				}
			}
			for i := 0; i <= len(l); i++ {
				for _, sym := range alpha {
					ins := append(append(append([]string(nil), l[:i]...), sym), l[i:]...)
					cands = append(cands, ins)
				}
			}
			cands = append(cands, append([]string(nil), l...))
			for _, seq := range cands {
				k := strings.Join(seq, " ")
				if seen[k] || c08PastCompletion(sc, seq) {
					continue
				}
				seen[k] = true
				c := c08Case{Sc: sc, Seq: seq}
				total++
				out, sig, msg := c08Run(c)
				if sig != "" {
					rec.Violation(sig, c, "%s", msg)
					continue
				}
				rec.Eval(k != strings.Join(l, " "), c, "outcome:"+out, "edit-neighbourhood")
			}
		}
		// warning-alert tolerance boundary: 16 ignored, the 17th is fatal
		for _, n := range []int{16, 17} {
			l := c08Legal(sc)[0]
			seq := append([]string(nil), l[:1]...)
			for i := 0; i < n; i++ {
				seq = append(seq, "W")
			}
			seq = append(seq, l[1:]...)
			c := c08Case{Sc: sc, Seq: seq}
			total++
			out, sig, msg := c08Run(c)
			if sig != "" {
				rec.Violation(sig, c, "%s", msg)
				continue
			}
			rec.Eval(true, c, "outcome:"+out, fmt.Sprintf("alerts:%d", n))
		}
	}
	rec.SetExhaustive(true, fmt.Sprintf("prefix-closed enumeration over %d scenarios of this stack (this process ran %d sequences)", len(scs), total))
}

// C08b: a handshake message behind the peer's Finished (the sequence is one longer than a legal
// flow), in the same record as Finished or in its own: the endpoint must end in an error and must
// not hand over application data that follows.
func TestVF_C08_Trailing(t *testing.T) {
	if vfStack != "tlcp" {
		// on the datagram stack handshake records that arrive after completion are retransmissions
		// as far as the receiver can tell and are discarded by design (C19); the clause is stream-only
		t.Skip("stream stack only")
	}
	rec := vfRec("C08", "C08b-trailing", "after an otherwise legal flow the scripted peer sends one more handshake message (types 0, 1, 2, 11, 16, 20, 99) behind its Finished, in the same record or in a record of its own, then application data; both roles, GCM and CBC; oracle: the endpoint reports an error and delivers nothing; distinct = the case")
	idx := 0
	for _, client := range []bool{true, false} {
		for _, suite := range []uint16{ECC_SM4_GCM_SM3, ECC_SM4_CBC_SM3} {
			for _, typ := range []int{0, 1, 2, 11, 16, 20, 99} {
				for packed := 0; packed <= 1; packed++ {
					idx++
					if !vfMine(idx) {
						continue
					}
					c := c09FloodCase{Client: client, Suite: suite, Kind: "trailing", N: typ, Size: packed}
					sig, msg := c09RunFlood(c)
					if sig != "" {
						rec.Violation(sig, c, "%s", msg)
					}
					rec.Eval(true, c, fmt.Sprintf("packed:%d", packed))
				}
			}
		}
	}
	rec.SetExhaustive(true, fmt.Sprintf("%d cases", idx))
}

func init() {
	vfRegisterReplay("C08b-trailing", func(raw json.RawMessage) error {
		var c c09FloodCase
		if err := json.Unmarshal(raw, &c); err != nil {
			return err
		}
		if sig, msg := c09RunFlood(c); sig != "" {
			return fmt.Errorf("%s: %s", sig, msg)
		}
		return nil
	})
	vfRegisterReplay("C08-orders", func(raw json.RawMessage) error {
		var c c08Case
		if err := json.Unmarshal(raw, &c); err != nil {
			return err
		}
		if _, sig, msg := c08Run(c); sig != "" {
			return fmt.Errorf("%s: %s", sig, msg)
		}
		return nil
	})
}
