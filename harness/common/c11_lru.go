//go:build verif

package vfpkg

//vf:pkgs tlcp dtlcp

// C11 a/b: the built-in session cache against a list-based LRU model, exhaustively for small
// capacities/depths and randomly for long sequences; "no harm" = every session still reachable in
// the model (under any key) or handed out by an earlier Get keeps its master secret.

import (
	"bytes"
	"encoding/json"
	"fmt"
	"testing"

	"pgregory.net/rapid"
)

type c11Op struct {
	Kind string `json:"k"` // "put" (fresh value), "reput" (new value with the stored one's session identifier), "alias" (store the value currently under key From also under Key), "del", "get"
	Key  string `json:"key"`
	From string `json:"from,omitempty"`
}

type c11Case struct {
	Cap int     `json:"cap"`
	Ops []c11Op `json:"ops"`
}

type c11ModelEntry struct {
	key string
	val *SessionState
}

type c11Model struct {
	cap   int
	order []c11ModelEntry // front = most recently used
}

func (m *c11Model) find(k string) int {
	for i, e := range m.order {
		if e.key == k {
			return i
		}
	}
	return -1
}
func (m *c11Model) toFront(i int) {
	e := m.order[i]
	copy(m.order[1:i+1], m.order[:i])
	m.order[0] = e
}
func (m *c11Model) put(k string, v *SessionState) {
	i := m.find(k)
	if v == nil {
		if i >= 0 {
			m.order = append(m.order[:i], m.order[i+1:]...)
		}
		return
	}
	if i >= 0 {
		m.order[i].val = v
		m.toFront(i)
		return
	}
	if len(m.order) == m.cap {
		m.order = m.order[:len(m.order)-1]
	}
	m.order = append([]c11ModelEntry{{k, v}}, m.order...)
}
func (m *c11Model) get(k string) (*SessionState, bool) {
	if k == "" {
		if len(m.order) == 0 {
			return nil, false
		}
		return m.order[0].val, true
	}
	i := m.find(k)
	if i < 0 {
		return nil, false
	}
	m.toFront(i)
	return m.order[0].val, true
}

func c11Secret(n int) []byte {
	b := make([]byte, 48)
	for i := range b {
		b[i] = byte(n*7 + i + 1)
	}
	return b
}

// c11SameSession: the cache may hand back the stored object or a private copy; what must agree is
// the content (identifier and master secret).
func c11SameSession(got, want *SessionState) bool {
	if got == nil || want == nil {
		return got == want
	}
	return bytes.Equal(got.sessionId, want.sessionId) && got.vers == want.vers && got.cipherSuite == want.cipherSuite
}

// c11Run executes the case against a fresh cache and the model; returns "" or a description of the
// first disagreement. sig classifies it.
func c11Run(c c11Case) (sig, msg string, evictions, deletes int) {
	cache := NewLRUSessionCache(c.Cap)
	lc, isLRU := cache.(*lruSessionCache)
	model := &c11Model{cap: c.Cap}
	if c.Cap < 1 {
		model.cap = 64
	}
	type live struct {
		s      *SessionState // object the application handed in or got back
		secret []byte        // what its master secret must still be
	}
	var handed []live // values returned by Get: "in use by a handshake"
	fresh := 0
	origSecret := map[*SessionState][]byte{}
	for step, op := range c.Ops {
		switch op.Kind {
		case "put":
			fresh++
			v := &SessionState{sessionId: []byte{byte(fresh), byte(step)}, vers: VersionTLCP, cipherSuite: vfSuites[fresh%len(vfSuites)], masterSecret: c11Secret(fresh)}
			origSecret[v] = c11Secret(fresh)
			if model.find(op.Key) < 0 && len(model.order) == model.cap {
				evictions++
			}
			cache.Put(op.Key, v)
			model.put(op.Key, v)
		case "reput":
			// a new state with the session identifier of the one now stored under that key (a server whose
			// randomness repeats issues the same identifier again), everything else different
			i := model.find(op.Key)
			if i < 0 || model.order[i].val == nil {
				continue
			}
			fresh++
			old := model.order[i].val
			v := &SessionState{sessionId: append([]byte(nil), old.sessionId...), vers: VersionTLCP, cipherSuite: vfSuites[(fresh+1)%len(vfSuites)], masterSecret: c11Secret(fresh)}
			if v.cipherSuite == old.cipherSuite {
				v.cipherSuite = vfSuites[(fresh+2)%len(vfSuites)]
			}
			origSecret[v] = c11Secret(fresh)
			cache.Put(op.Key, v)
			model.put(op.Key, v)
		case "alias":
			i := model.find(op.From)
			if i < 0 {
				continue
			}
			v := model.order[i].val
			if model.find(op.Key) < 0 && len(model.order) == model.cap {
				evictions++
			}
			cache.Put(op.Key, v)
			model.put(op.Key, v)
		case "del":
			if model.find(op.Key) >= 0 {
				deletes++
			}
			cache.Put(op.Key, nil)
			model.put(op.Key, nil)
		case "get":
			got, ok := cache.Get(op.Key)
			want, wok := model.get(op.Key)
			if ok != wok {
				return "lru-get-presence", fmt.Sprintf("step %d Get(%q): ok=%v, model ok=%v", step, op.Key, ok, wok), evictions, deletes
			}
			if ok && !c11SameSession(got, want) {
				return "lru-get-value", fmt.Sprintf("step %d Get(%q): returned a different session than the model (got nil=%v)", step, op.Key, got == nil), evictions, deletes
			}
			if ok && got != nil {
				sec := origSecret[want]
				if !bytes.Equal(got.masterSecret, sec) {
					return "lru-get-secret", fmt.Sprintf("step %d Get(%q): master secret of the returned session is damaged (%d bytes, zero=%v)", step, op.Key, len(got.masterSecret), vfAllZero(got.masterSecret)), evictions, deletes
				}
				handed = append(handed, live{got, sec})
			}
		}
		// invariants after every operation
		if isLRU {
			if len(lc.m) != lc.q.Len() {
				return "lru-map-list", fmt.Sprintf("step %d: map has %d entries, list %d", step, len(lc.m), lc.q.Len()), evictions, deletes
			}
			if lc.q.Len() > model.cap {
				return "lru-capacity", fmt.Sprintf("step %d: %d entries exceed capacity %d", step, lc.q.Len(), model.cap), evictions, deletes
			}
			if lc.q.Len() != len(model.order) {
				return "lru-size", fmt.Sprintf("step %d (%v): cache holds %d entries, model %d", step, op, lc.q.Len(), len(model.order)), evictions, deletes
			}
			i := 0
			for e := lc.q.Front(); e != nil; e = e.Next() {
				ent := e.Value.(*lruSessionCacheEntry)
				if lc.m[ent.sessionKey] != e {
					return "lru-map-list", fmt.Sprintf("step %d: list element %q not indexed by the map", step, ent.sessionKey), evictions, deletes
				}
				if ent.sessionKey != model.order[i].key {
					return "lru-order", fmt.Sprintf("step %d (%v): recency position %d holds %q, model %q", step, op, i, ent.sessionKey, model.order[i].key), evictions, deletes
				}
				i++
			}
		}
		// no harm: sessions reachable in the model and sessions handed out keep their secret
		for _, e := range model.order {
			if !bytes.Equal(e.val.masterSecret, origSecret[e.val]) {
				// the application's own object, stored under key e.key, was modified
				// (only a violation if the cache still serves it: check through Get without reordering the model)
				return "lru-harm-reachable", fmt.Sprintf("step %d (%v): session still stored under %q lost its master secret", step, op, e.key), evictions, deletes
			}
		}
		for _, h := range handed {
			if !bytes.Equal(h.s.masterSecret, h.secret) {
				return "lru-harm-inuse", fmt.Sprintf("step %d (%v): a session handed out by an earlier Get lost its master secret", step, op), evictions, deletes
			}
		}
	}
	return "", "", evictions, deletes
}

func vfAllZero(b []byte) bool {
	for _, x := range b {
		if x != 0 {
			return false
		}
	}
	return true
}

// c11KnownClass: which listed known finding (if any) covers this failure signature.
func c11KnownClass(sig string, c c11Case) string {
	switch sig {
	case "lru-harm-reachable", "lru-harm-inuse", "lru-get-secret":
		return "F5"
	case "lru-size", "lru-get-presence", "lru-get-value", "lru-order":
		// F15: Put(k, nil) on an absent key inserts a nil entry
		for _, op := range c.Ops {
			if op.Kind == "del" {
				return "F15"
			}
		}
	}
	return ""
}

func TestVF_C11_Model(t *testing.T) {
	rec := vfRec("C11", "C11ab-lru-model", "operation sequences over keys {a..e,\"\"} x {put fresh, put a new state that carries the session identifier of the one stored under that key, alias existing value under another key, delete (put nil), get} against a list-based LRU model; exhaustive up to a depth bound for capacities 1..4, then rapid long sequences for capacities up to 64; non-trivial = sequence contains an eviction or an effective delete")
	keys := []string{"a", "b", "c", "d", "e"}
	var alphabet []c11Op
	for _, k := range keys[:4] {
		alphabet = append(alphabet, c11Op{Kind: "put", Key: k}, c11Op{Kind: "del", Key: k}, c11Op{Kind: "get", Key: k})
	}
	alphabet = append(alphabet, c11Op{Kind: "get", Key: ""}, c11Op{Kind: "alias", Key: "e", From: "a"}, c11Op{Kind: "alias", Key: "b", From: "a"}, c11Op{Kind: "reput", Key: "a"})
	depth := 4
	if vfThorough() {
		depth = 5
	}
	check := func(c c11Case) {
		sig, msg, ev, del := c11Run(c)
		if sig != "" {
			if k := c11KnownClass(sig, c); k != "" && vfKnown(k) {
				rec.Excluded(k)
				rec.Eval(ev+del > 0, c, "excluded-known")
				return
			}
			rec.Violation(sig, c, "%s", msg)
		}
		cl := "no-eviction"
		if ev > 0 {
			cl = "eviction"
		}
		rec.Eval(ev+del > 0, c, cl, fmt.Sprintf("cap=%d", c.Cap))
	}
	// exhaustive part
	idx := 0
	total := 0
	for cp := 1; cp <= 4; cp++ {
		for d := 1; d <= depth; d++ {
			seq := make([]int, d)
			for {
				if vfMine(idx) {
					ops := make([]c11Op, d)
					for i, a := range seq {
						ops[i] = alphabet[a]
					}
					check(c11Case{Cap: cp, Ops: ops})
				}
				idx++
				total++
				// next
				i := d - 1
				for i >= 0 {
					seq[i]++
					if seq[i] < len(alphabet) {
						break
					}
					seq[i] = 0
					i--
				}
				if i < 0 {
					break
				}
			}
		}
	}
	rec.SetExhaustive(false, fmt.Sprintf("exhaustive part: %d sequences (alphabet %d, depth<=%d, capacities 1..4); random part sampled", total, len(alphabet), depth))
	// random long sequences
	opGen := rapid.Custom(func(t *rapid.T) c11Op {
		kind := rapid.SampledFrom([]string{"put", "put", "get", "get", "del", "alias", "reput"}).Draw(t, "kind")
		nk := rapid.IntRange(0, 11).Draw(t, "key")
		key := fmt.Sprintf("k%d", nk)
		op := c11Op{Kind: kind, Key: key}
		if kind == "alias" {
			op.From = fmt.Sprintf("k%d", rapid.IntRange(0, 11).Draw(t, "from"))
		}
		if kind == "get" && rapid.IntRange(0, 9).Draw(t, "empty") == 0 {
			op.Key = ""
		}
		return op
	})
	vfRapid(t, rec, "long", vfN(3000, 60000), func(t *rapid.T) {
		c := c11Case{Cap: rapid.SampledFrom([]int{1, 2, 3, 4, 5, 8, 16, 64, 0, -1}).Draw(t, "cap"),
			Ops: rapid.SliceOfN(opGen, 1, 120).Draw(t, "ops")}
		sig, msg, ev, del := c11Run(c)
		if sig != "" {
			if k := c11KnownClass(sig, c); k != "" && vfKnown(k) {
				rec.Excluded(k)
				rec.Eval(ev+del > 0, c, "excluded-known")
				return
			}
			rec.Fail(t, sig, c, "%s", msg)
		}
		rec.Eval(ev+del > 0, c, "long")
	})
	// large capacities and the default: fill to the brim and one beyond, with lookups of the oldest keys
	for bi, capacity := range []int{64, 65, 255, 256, 257, 1000, 4096, 4097, 5000, 20000, 0} {
		if !vfMine(bi) {
			continue
		}
		n := capacity
		if n <= 0 {
			n = 64 // the documented default
		}
		c := c11Case{Cap: capacity}
		for i := 0; i < n; i++ {
			c.Ops = append(c.Ops, c11Op{Kind: "put", Key: fmt.Sprintf("big%d", i)})
		}
		c.Ops = append(c.Ops, c11Op{Kind: "get", Key: "big0"}, c11Op{Kind: "get", Key: "big1"}, c11Op{Kind: "put", Key: "one-more"},
			c11Op{Kind: "get", Key: "big0"}, c11Op{Kind: "get", Key: "big2"}, c11Op{Kind: "get", Key: fmt.Sprintf("big%d", n-1)}, c11Op{Kind: "get", Key: ""})
		sig, msg, ev, del := c11Run(c)
		if sig != "" {
			small := c11Case{Cap: capacity, Ops: c.Ops[len(c.Ops)-7:]}
			rec.Violation(sig, small, "capacity %d filled with %d keys, then: %s", capacity, n, msg)
		}
		rec.EvalHash(true, vfHash("big", capacity), func() interface{} { return map[string]interface{}{"cap": capacity, "keys": n} }, "large-capacity")
		_, _ = ev, del
	}
	// pinned reproducers of listed findings
	if vfKnown("F5") {
		sig, _, _, _ := c11Run(c11Case{Cap: 1, Ops: []c11Op{{Kind: "put", Key: "a"}, {Kind: "alias", Key: "b", From: "a"}}})
		rec.Known("F5", sig != "")
	}
	if vfKnown("F15") {
		sig, _, _, _ := c11Run(c11Case{Cap: 2, Ops: []c11Op{{Kind: "del", Key: "a"}, {Kind: "get", Key: "a"}}})
		rec.Known("F15", sig != "")
	}
}

func init() {
	vfRegisterReplay("C11ab-lru-model", func(raw json.RawMessage) error {
		var c c11Case
		if err := json.Unmarshal(raw, &c); err != nil {
			return err
		}
		if sig, msg, _, _ := c11Run(c); sig != "" {
			return fmt.Errorf("%s: %s", sig, msg)
		}
		return nil
	})
}
