//go:build verif

package dtlcp

// C08c (datagram stack): ChangeCipherSpec placed between the fragments of a fragmented handshake
// message. A scripted client (which never retransmits) sends ClientKeyExchange in two fragments;
// with the fragments first and ChangeCipherSpec after them the server must complete (control), with
// ChangeCipherSpec between the fragments it must not.

import (
	"encoding/json"
	"fmt"
	"testing"
)

type c08FragCase struct {
	Suite   uint16 `json:"suite"`
	Cut     int    `json:"cut"`     // first fragment: bytes of the message body
	Between bool   `json:"between"` // ChangeCipherSpec between the two fragments
}

func c08FragRun(c c08FragCase) (sig, msg string) {
	p := vfGetPKI()
	ucfg := &Config{Time: vfTime, Certificates: []Certificate{p.SrvSig, p.SrvEnc}, CipherSuites: []uint16{c.Suite}}
	pcfg := &Config{Time: vfTime, InsecureSkipVerify: true, CipherSuites: []uint16{c.Suite}}
	peerDone := false
	r := vfRunVsPeer(false, ucfg, pcfg, func(pc *Conn) error {
		cp := vfNewCliPeer(pc)
		if err := cp.SendClientHello(vfCHOpt{}); err != nil {
			return err
		}
		if err := cp.ReadServerFlight(); err != nil {
			return err
		}
		enc := p.CliEnc
		if err := cp.PrepareCKE(&enc); err != nil {
			return err
		}
		m := &clientKeyExchangeMsg{ciphertext: cp.ckx.ciphertext}
		vfPeerSeq(pc, m)
		data, err := m.marshal()
		if err != nil {
			return err
		}
		cp.hs.finishedHash.Write(data)
		body := data[12:]
		cut := c.Cut
		if cut >= len(body) {
			cut = len(body) - 1 // all but one byte
		}
		if cut < 1 {
			cut = len(body) / 2
		}
		frag := func(off, n int) []byte {
			h := append([]byte(nil), data[:12]...)
			h[6], h[7], h[8] = byte(off>>16), byte(off>>8), byte(off)
			h[9], h[10], h[11] = byte(n>>16), byte(n>>8), byte(n)
			return append(h, body[off:off+n]...)
		}
		f1, f2 := frag(0, cut), frag(cut, len(body)-cut)
		if err := vfPeerRawRecord(pc, recordTypeHandshake, f1); err != nil {
			return err
		}
		if !c.Between {
			if err := vfPeerRawRecord(pc, recordTypeHandshake, f2); err != nil {
				return err
			}
		}
		cp.ComputeMaster()
		if err := cp.EstablishKeys(); err != nil {
			return err
		}
		// the sequence number the next cleartext (epoch 0) record would have had
		plainSeq := pc.writeSeq
		if err := cp.SendCCS(); err != nil {
			return err
		}
		if c.Between {
			// the second fragment, still in the clear (epoch 0), after the ChangeCipherSpec
			s := uint64(plainSeq) + 1
			recd := []byte{22, 1, 1, 0, 0, byte(s >> 40), byte(s >> 32), byte(s >> 24), byte(s >> 16), byte(s >> 8), byte(s), byte(len(f2) >> 8), byte(len(f2))}
			if _, err := pc.pconn.WriteTo(append(recd, f2...), pc.remoteAddr); err != nil {
				return err
			}
		}
		if err := cp.SendFinished(false); err != nil {
			return err
		}
		if err := cp.ReadServerFinished(); err != nil {
			return err
		}
		peerDone = true
		return nil
	}, nil)
	if r.UPanic != "" {
		return "panic", r.UPanic
	}
	if r.PPanic != "" {
		return "harness-peer-panic", r.PPanic
	}
	completed := r.UErr == nil && !r.UHung
	if c.Between && completed {
		return "accepted-illegal-order:server", fmt.Sprintf("server completed after ClientKeyExchange(fragment 1), ChangeCipherSpec, ClientKeyExchange(fragment 2), Finished (cut %d; peer saw the server's Finished: %v)", c.Cut, peerDone)
	}
	if !c.Between && !completed {
		return "rejected-legal-order:server", fmt.Sprintf("server did not complete a legal flow whose ClientKeyExchange arrived in two fragments (cut %d): %v (peer: %v)", c.Cut, r.UErr, r.PErr)
	}
	return "", ""
}

func TestVF_C08_FragOrder(t *testing.T) {
	rec := vfRec("C08", "C08c-ccs-between-fragments", "a scripted client sends ClientKeyExchange in two fragments (cut after 1, 2, half, all but one byte), with ChangeCipherSpec after them (control: the server must complete) or between them (the server must not complete); GCM and CBC; distinct = the case")
	idx := 0
	for _, suite := range []uint16{ECC_SM4_GCM_SM3, ECC_SM4_CBC_SM3} {
		for _, cut := range []int{1, 2, 0, 1 << 20} {
			for _, between := range []bool{false, true} {
				idx++
				if !vfMine(idx) {
					continue
				}
				c := c08FragCase{Suite: suite, Cut: cut, Between: between}
				sig, msg := c08FragRun(c)
				if sig != "" {
					rec.Violation(sig, c, "%s", msg)
				}
				rec.Eval(true, c, fmt.Sprintf("between:%v", between))
			}
		}
	}
	rec.SetExhaustive(true, fmt.Sprintf("%d cases", idx))
}

func init() {
	vfRegisterReplay("C08c-ccs-between-fragments", func(raw json.RawMessage) error {
		var c c08FragCase
		if err := json.Unmarshal(raw, &c); err != nil {
			return err
		}
		if sig, msg := c08FragRun(c); sig != "" {
			return fmt.Errorf("%s: %s", sig, msg)
		}
		return nil
	})
}
