//go:build verif

package vfpkg

//vf:pkgs tlcp pa

// Stream simulator (DESIGN.md 3.1): in-memory duplex net.Conn pair owned by the harness.
// Unbounded queues (writes never block), taps, read segmentation, on-line record-level MITM,
// injected end-of-stream, stall detection.

import (
	"errors"
	"io"
	"net"
	"os"
	"runtime"
	"sync"
	"time"
)

type vfStream struct {
	mu      sync.Mutex
	cond    *sync.Cond
	ends    [2]*vfStreamEnd
	stalled bool
	// stallActive: which ends still had a driving goroutine when the stall was declared
	stallActive [2]bool
	monitor bool // stall detection enabled (exact only with one driving goroutine per end)
	yield   func() bool
}

// vfRecEdit rewrites one record (complete, header included) written by an endpoint into the
// records actually delivered. idx counts records of that direction from 0.
type vfRecEdit func(idx int, rec []byte) [][]byte

type vfStreamEnd struct {
	s    *vfStream
	idx  int
	in   []byte // deliverable to this end's Read
	// inEOF: once in is drained Read reports EOF (peer closed, or the harness cut the stream)
	inEOF   bool
	closed  bool
	blocked int
	active  int
	wrote   []byte // tap: bytes this end wrote (before MITM)
	sentOut []byte // tap: bytes delivered towards the peer (after MITM)
	// record-level MITM on what this end writes
	edit    vfRecEdit
	hdrLen  int // 5
	pend    []byte
	recIdx  int
	// cutAfter >= 0: after that many bytes were delivered towards the peer the stream ends (peer sees EOF)
	cutAfter int
	cutDone  bool
	seg      func(avail int) int // how many bytes one Read of this end may return
	readExpired, writeExpired bool
	nReads, nWrites int
	addr    string
	onWrite func(n int) // called (unlocked) before each Write is processed: fault/cancel injection
	onRead  func(n int)
	// afterRead / afterWrite are called (unlocked) when the operation with that ordinal has been carried out,
	// before it returns to the caller
	afterRead, afterWrite func(n int)
	// eofWithData: the read that hands over the last bytes before the end of the stream reports
	// io.EOF together with them (n > 0 and io.EOF in one call, as the io.Reader contract allows)
	eofWithData bool
	// partialAt >= 0: the transport write with that ordinal takes only partialN bytes and fails (a link
	// failure in the middle of a write); later writes work again
	partialAt, partialN int
	// lenientClose: closing the transport a second time reports nothing (as net.Pipe does)
	lenientClose bool
}

func vfNewStream() *vfStream {
	s := &vfStream{monitor: true}
	s.cond = sync.NewCond(&s.mu)
	for i := 0; i < 2; i++ {
		s.ends[i] = &vfStreamEnd{s: s, idx: i, cutAfter: -1, hdrLen: 5, partialAt: -1}
	}
	return s
}

type vfTimeoutErr struct{}

func (vfTimeoutErr) Error() string   { return "vfstream: i/o timeout" }
func (vfTimeoutErr) Timeout() bool   { return true }
func (vfTimeoutErr) Temporary() bool { return true }
func (vfTimeoutErr) Unwrap() error   { return os.ErrDeadlineExceeded }

func (e *vfStreamEnd) Read(p []byte) (int, error) {
	if e.onRead != nil {
		e.s.mu.Lock()
		n := e.nReads
		e.s.mu.Unlock()
		e.onRead(n)
	}
	if y := e.s.yield; y != nil && y() {
		runtime.Gosched()
	}
	if e.afterRead != nil {
		e.s.mu.Lock()
		k := e.nReads
		e.s.mu.Unlock()
		n, err := e.readLocked(p)
		e.afterRead(k)
		return n, err
	}
	return e.readLocked(p)
}

func (e *vfStreamEnd) readLocked(p []byte) (int, error) {
	s := e.s
	s.mu.Lock()
	defer s.mu.Unlock()
	e.nReads++
	for len(e.in) == 0 && !e.closed && !e.inEOF && !e.readExpired {
		e.blocked++
		s.cond.Broadcast()
		s.cond.Wait()
		e.blocked--
	}
	if e.closed {
		return 0, net.ErrClosed
	}
	if e.readExpired {
		return 0, &net.OpError{Op: "read", Net: "vf", Err: vfTimeoutErr{}}
	}
	if len(e.in) > 0 {
		n := len(e.in)
		if n > len(p) {
			n = len(p)
		}
		if e.seg != nil {
			if m := e.seg(n); m >= 1 && m < n {
				n = m
			}
		}
		copy(p, e.in[:n])
		e.in = e.in[n:]
		if e.eofWithData && len(e.in) == 0 && e.inEOF {
			return n, io.EOF
		}
		return n, nil
	}
	return 0, io.EOF
}

func (e *vfStreamEnd) Write(p []byte) (int, error) {
	if e.onWrite != nil {
		e.s.mu.Lock()
		n := e.nWrites
		e.s.mu.Unlock()
		e.onWrite(n)
	}
	if y := e.s.yield; y != nil && y() {
		runtime.Gosched()
	}
	if e.afterWrite != nil {
		e.s.mu.Lock()
		k := e.nWrites
		e.s.mu.Unlock()
		n, err := e.writeLocked(p)
		e.afterWrite(k)
		return n, err
	}
	return e.writeLocked(p)
}

func (e *vfStreamEnd) writeLocked(p []byte) (int, error) {
	s := e.s
	s.mu.Lock()
	defer s.mu.Unlock()
	e.nWrites++
	if e.closed {
		return 0, net.ErrClosed
	}
	if e.writeExpired {
		return 0, &net.OpError{Op: "write", Net: "vf", Err: vfTimeoutErr{}}
	}
	o := s.ends[1-e.idx]
	if e.partialAt >= 0 && e.nWrites-1 == e.partialAt {
		k := e.partialN
		if k > len(p) {
			k = len(p)
		}
		e.wrote = append(e.wrote, p[:k]...)
		if !o.closed && e.edit == nil {
			e.deliver(p[:k])
		}
		s.cond.Broadcast()
		return k, &net.OpError{Op: "write", Net: "vf", Err: errors.New("vfstream: link failure")}
	}
	e.wrote = append(e.wrote, p...)
	if o.closed {
		return 0, &net.OpError{Op: "write", Net: "vf", Err: io.ErrClosedPipe}
	}
	if e.edit == nil {
		e.deliver(p)
	} else {
		e.pend = append(e.pend, p...)
		for len(e.pend) >= e.hdrLen {
			n := e.hdrLen + int(e.pend[e.hdrLen-2])<<8 + int(e.pend[e.hdrLen-1])
			if len(e.pend) < n {
				break
			}
			rec := append([]byte(nil), e.pend[:n]...)
			e.pend = e.pend[n:]
			for _, r := range e.edit(e.recIdx, rec) {
				e.deliver(r)
			}
			e.recIdx++
		}
	}
	s.cond.Broadcast()
	return len(p), nil
}

// deliver hands bytes to the peer's input, honouring an injected cut. Caller holds s.mu.
func (e *vfStreamEnd) deliver(b []byte) {
	o := e.s.ends[1-e.idx]
	if e.cutDone {
		return
	}
	if e.cutAfter >= 0 {
		room := e.cutAfter - len(e.sentOut)
		if room <= len(b) {
			b = b[:room]
			e.cutDone = true
		}
	}
	e.sentOut = append(e.sentOut, b...)
	o.in = append(o.in, b...)
	if e.cutDone {
		o.inEOF = true
	}
}

// inject delivers raw bytes towards the peer as if this end had sent them (harness use).
func (e *vfStreamEnd) inject(b []byte) {
	e.s.mu.Lock()
	e.deliver(b)
	e.s.cond.Broadcast()
	e.s.mu.Unlock()
}

// cutNow ends the stream towards the peer at the current position.
func (e *vfStreamEnd) cutNow() {
	e.s.mu.Lock()
	e.cutDone = true
	e.s.ends[1-e.idx].inEOF = true
	e.s.cond.Broadcast()
	e.s.mu.Unlock()
}

func (e *vfStreamEnd) Close() error {
	s := e.s
	s.mu.Lock()
	defer s.mu.Unlock()
	if e.closed {
		if e.lenientClose {
			return nil
		}
		return net.ErrClosed
	}
	e.closed = true
	s.ends[1-e.idx].inEOF = true
	s.cond.Broadcast()
	return nil
}

type vfAddr struct{ s string }

func (a vfAddr) Network() string { return "vf" }
func (a vfAddr) String() string  { return a.s }

func (e *vfStreamEnd) LocalAddr() net.Addr {
	if e.addr != "" {
		return vfAddr{e.addr}
	}
	if e.idx == 0 {
		return vfAddr{"10.0.0.1:1000"}
	}
	return vfAddr{"10.0.0.2:2000"}
}
func (e *vfStreamEnd) RemoteAddr() net.Addr { return e.s.ends[1-e.idx].LocalAddr() }
func (e *vfStreamEnd) SetDeadline(t time.Time) error {
	e.SetReadDeadline(t)
	return e.SetWriteDeadline(t)
}

// Deadlines: only "already expired when set" is honoured (no timers, no later clock reads).
func (e *vfStreamEnd) SetReadDeadline(t time.Time) error {
	e.s.mu.Lock()
	e.readExpired = !t.IsZero() && !t.After(time.Now())
	e.s.cond.Broadcast()
	e.s.mu.Unlock()
	return nil
}
func (e *vfStreamEnd) SetWriteDeadline(t time.Time) error {
	e.s.mu.Lock()
	e.writeExpired = !t.IsZero() && !t.After(time.Now())
	e.s.mu.Unlock()
	return nil
}

// drive runs f as the driving goroutine of end idx; the stall monitor counts it.
func (s *vfStream) drive(idx int, wg *sync.WaitGroup, f func()) {
	s.mu.Lock()
	s.ends[idx].active++
	s.mu.Unlock()
	wg.Add(1)
	go func() {
		defer wg.Done()
		defer func() {
			s.mu.Lock()
			s.ends[idx].active--
			s.cond.Broadcast()
			s.mu.Unlock()
		}()
		f()
	}()
}

// watch blocks until no driving goroutine is left. When every driving goroutine is blocked in a
// transport Read with nothing to read it declares a stall and closes both ends, so that "neither
// side completes" terminates deterministically.
func (s *vfStream) watch() {
	s.mu.Lock()
	defer s.mu.Unlock()
	for {
		if s.ends[0].active == 0 && s.ends[1].active == 0 {
			return
		}
		quiet := s.monitor
		for _, e := range s.ends {
			if e.active == 0 {
				continue
			}
			if !(e.blocked >= e.active && len(e.in) == 0 && !e.inEOF && !e.closed && !e.readExpired) {
				quiet = false
			}
		}
		if quiet {
			if !s.stalled {
				s.stallActive = [2]bool{s.ends[0].active > 0, s.ends[1].active > 0}
			}
			s.stalled = true
			for _, e := range s.ends {
				e.closed = true
			}
			s.cond.Broadcast()
		}
		s.cond.Wait()
	}
}

// settle blocks until the driving goroutine(s) of the other end have consumed everything sent to
// them and are blocked reading (or have finished); it then reports whether bytes are waiting for
// end self. Used by scripted peers to find out whether the endpoint under test has answered.
func (s *vfStream) settle(self int) (pending bool) {
	s.mu.Lock()
	defer s.mu.Unlock()
	o := s.ends[1-self]
	for !(o.active == 0 || o.closed || (o.blocked >= o.active && len(o.in) == 0)) {
		s.cond.Wait()
	}
	return len(s.ends[self].in) > 0
}

func (s *vfStream) snapshot(idx int) (wrote, sentOut []byte) {
	s.mu.Lock()
	defer s.mu.Unlock()
	return append([]byte(nil), s.ends[idx].wrote...), append([]byte(nil), s.ends[idx].sentOut...)
}

// vfSplitRecords cuts a captured TLCP byte stream into records (5-byte header); a trailing partial
// record is returned as rest.
func vfSplitRecords(b []byte) (recs [][]byte, rest []byte) {
	for len(b) >= 5 {
		n := 5 + int(b[3])<<8 + int(b[4])
		if len(b) < n {
			break
		}
		recs = append(recs, b[:n])
		b = b[n:]
	}
	return recs, b
}
