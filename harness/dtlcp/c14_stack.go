//go:build verif

package dtlcp

func vfHSHeader(typ uint8, bodyLen int, seq uint16) []byte {
	return []byte{typ, byte(bodyLen >> 16), byte(bodyLen >> 8), byte(bodyLen), byte(seq >> 8), byte(seq), 0, 0, 0, byte(bodyLen >> 16), byte(bodyLen >> 8), byte(bodyLen)}
}
func vfSetSeq(m handshakeMessage, seq uint16)  { m.setMessageSeq(seq) }
func vfSeqOf(hm vfHSMsg) uint16                { return hm.MsgSeq }
func c14SetCookie(x *clientHelloMsg, b []byte) { x.cookie = b }
func c14GetCookie(x *clientHelloMsg) []byte    { return x.cookie }
func c14ExtraNew(kind string) handshakeMessage {
	if kind == "HVR" {
		return new(helloVerifyRequestMsg)
	}
	return nil
}
func c14ExtraTo(m c14Msg) handshakeMessage {
	if m.Kind == "HVR" {
		return &helloVerifyRequestMsg{serverVersion: m.Vers, cookie: m.Cookie}
	}
	return nil
}
func c14ExtraFrom(lm handshakeMessage) c14Msg {
	if x, ok := lm.(*helloVerifyRequestMsg); ok {
		return c14Msg{Kind: "HVR", Vers: x.serverVersion, Cookie: x.cookie}
	}
	return c14Msg{}
}

// c04SendEmpty sends an empty datagram (WriteTo with a zero-length payload).
func c04SendEmpty(c *Conn) error {
	_, err := c.WriteTo(nil, c.RemoteAddr())
	return err
}
