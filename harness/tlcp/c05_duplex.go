//go:build verif

package tlcp

// C05b: the damaged record reaches a receiver whose application is writing at that moment (full
// duplex: one goroutine in Read, another in Write whose transport write is stalled). Whatever the
// timing, the damage must still be answered with the bad-record-MAC alert once the output side is
// free, the read side must stay failed, and the write side must fail from then on.

import (
	"encoding/json"
	"fmt"
	"sync"
	"testing"
	"time"

	"pgregory.net/rapid"
)

type c05DCase struct {
	Suite  uint16 `json:"suite"`
	Side   int    `json:"side"`   // the receiver of the damaged record: 0 client, 1 server
	Size   int    `json:"size"`   // payload of the damaged record
	Off    int    `json:"off"`    // byte of the record (after the header) that is flipped
	WSize  int    `json:"wsize"`  // payload of the receiver's own stalled Write
	HoldMs int    `json:"holdms"` // how long the stalled transport write is held after the damaged record was read (0: until the Read has returned or 50 ms)
}

func c05DRun(c c05DCase) (sig, msg string) {
	ccfg, scfg := vfBaseConfigs(c.Suite, false)
	cc := vfNewCapCache(4)
	ccfg.SessionCache, scfg.SessionCache = cc, vfNewCapCache(4)
	sim := vfNewStream()
	sim.monitor = false
	cli, srv := Client(sim.ends[0], ccfg), Server(sim.ends[1], scfg)
	var wg sync.WaitGroup
	var e1, e2 error
	wg.Add(2)
	go func() { defer wg.Done(); e1 = cli.Handshake() }()
	go func() { defer wg.Done(); e2 = srv.Handshake() }()
	wg.Wait()
	if e1 != nil || e2 != nil {
		return "honest-failed", fmt.Sprintf("%v / %v", e1, e2)
	}
	defer func() {
		sim.ends[0].Close()
		sim.ends[1].Close()
	}()
	rcv, snd := cli, srv
	if c.Side == 1 {
		rcv, snd = srv, cli
	}
	rend, send := sim.ends[c.Side], sim.ends[1-c.Side]
	// the sender's record is damaged in flight
	send.edit = func(idx int, rec []byte) [][]byte {
		if rec[0] == 23 {
			rec[5+c.Off%(len(rec)-5)] ^= 0x40
		}
		return [][]byte{rec}
	}
	// the receiver's own Write stalls inside the transport
	gate := make(chan struct{})
	stalled := make(chan struct{})
	var once sync.Once
	rend.onWrite = func(int) {
		once.Do(func() {
			close(stalled)
			<-gate
		})
	}
	var werr error
	wdone := make(chan struct{})
	go func() {
		defer close(wdone)
		_, werr = rcv.Write(c01Payload(c.WSize, 9))
	}()
	select {
	case <-stalled:
	case <-time.After(10 * time.Second):
		close(gate)
		return "harness-error", "the receiver's Write never reached the transport"
	}
	if _, err := snd.Write(c01Payload(c.Size, 5)); err != nil {
		close(gate)
		return "honest-failed", "sender's Write: " + err.Error()
	}
	var rerr error
	var rn int
	rdone := make(chan struct{})
	go func() {
		defer close(rdone)
		rn, rerr = rcv.Read(make([]byte, 20000))
	}()
	hold := 50 * time.Millisecond
	if c.HoldMs > 0 {
		hold = time.Duration(c.HoldMs) * time.Millisecond
	}
	select {
	case <-rdone:
	case <-time.After(hold):
	}
	close(gate)
	for _, ch := range []chan struct{}{rdone, wdone} {
		select {
		case <-ch:
		case <-time.After(20 * time.Second):
			return "hang", "Read or Write did not return after the transport write was released"
		}
	}
	if rerr == nil || rn != 0 {
		return "damaged-delivered", fmt.Sprintf("Read of the damaged record returned (%d, %v)", rn, rerr)
	}
	if n, err := rcv.Read(make([]byte, 10)); err == nil || n != 0 {
		return "error-not-sticky", fmt.Sprintf("a later Read returned (%d, %v)", n, err)
	}
	// the alert on the wire
	keys, err := refKeysOfTaps(sim.ends[0].wrote, sim.ends[1].wrote, cc)
	if err != nil {
		return "ref-parse", err.Error()
	}
	key, iv, mac := keys.dir(c.Side == 0) // the receiver's own write key
	sim.mu.Lock()
	tap := append([]byte(nil), rend.wrote...)
	sim.mu.Unlock()
	var alerts [][2]byte
	for _, rec := range vfFrameStream(tap) {
		if rec.Epoch == 1 && rec.Typ == 21 {
			pt, err := refOpen(keys.GCM, key, iv, mac, vfSeqInput(rec), rec.Typ, rec.Ver, rec.Frag)
			if err != nil || len(pt) != 2 {
				return "alert-open", fmt.Sprintf("the receiver's alert record does not open under the reference: %v", err)
			}
			alerts = append(alerts, [2]byte{pt[0], pt[1]})
		}
	}
	if len(alerts) != 1 || alerts[0] != [2]byte{2, 20} {
		return "alert-missing", fmt.Sprintf("a damaged record arrived while the receiver's own Write (result: %v) was stalled in the transport: the receiver's Read failed with %v, and the alerts it sent are %v (want exactly one fatal bad_record_mac)", werr, rerr, alerts)
	}
	if n, err := rcv.Write([]byte("more")); err == nil {
		return "write-after-fatal", fmt.Sprintf("after the fatal read error a Write still returned (%d, nil)", n)
	}
	return "", ""
}

func TestVF_C05_Duplex(t *testing.T) {
	rec := vfRec("C05", "C05b-damage-during-write", "a record damaged in flight (one byte flipped, any position) reaches a receiver whose own Write is stalled inside the transport at that moment (released when the Read has returned, or after 1..50 ms); four suites, either side; oracle: the Read fails and stays failed, exactly one fatal bad_record_mac alert (opened with the reference) is on the wire afterwards, a later Write fails; distinct = the case")
	vfRapid(t, rec, "cases", vfN(30, 600), func(t *rapid.T) {
		c := c05DCase{Suite: rapid.SampledFrom(vfSuites).Draw(t, "suite"), Side: rapid.IntRange(0, 1).Draw(t, "side"),
			Size: rapid.IntRange(1, 3000).Draw(t, "size"), Off: rapid.IntRange(0, 4000).Draw(t, "off"), WSize: rapid.IntRange(1, 3000).Draw(t, "wsize"),
			HoldMs: rapid.SampledFrom([]int{0, 0, 1, 5, 30}).Draw(t, "hold")}
		sig, msg := c05DRun(c)
		if sig != "" {
			rec.Fail(t, sig, c, "%s", msg)
		}
		rec.Eval(true, c, fmt.Sprintf("side:%d", c.Side))
	})
}

func init() {
	vfRegisterReplay("C05b-damage-during-write", func(raw json.RawMessage) error {
		var c c05DCase
		if err := json.Unmarshal(raw, &c); err != nil {
			return err
		}
		if sig, msg := c05DRun(c); sig != "" {
			return fmt.Errorf("%s: %s", sig, msg)
		}
		return nil
	})
}
