//go:build verif

package dtlcp

// Coverage-guided fuzzing of the replay window and of the fragment buffer against their reference
// models (thorough tier). The bytes are decoded into a delivery sequence / a fragment sequence.

import (
	"encoding/binary"
	"testing"
)

func FuzzVF_C16_Window(f *testing.F) {
	f.Add(byte(64), []byte{0, 1, 0, 2, 0, 1, 0, 70, 0, 6})
	f.Add(byte(0), []byte{0, 0, 0, 0})
	f.Add(byte(160), []byte{1, 0, 0, 0x60, 0, 0xff, 0, 0x60})
	f.Fuzz(func(t *testing.T, size byte, b []byte) {
		c := c16WCase{Size: int(size)}
		var base uint64
		for len(b) >= 2 && len(c.Seqs) < 400 {
			v := uint64(binary.BigEndian.Uint16(b))
			b = b[2:]
			// top bit set: jump the base forward, so that long distances are reachable
			if v&0x8000 != 0 {
				base += (v & 0x7fff) << 4
				continue
			}
			c.Seqs = append(c.Seqs, base+v&0x3ff)
		}
		if sig, msg, _, _ := c16WRun(c); sig != "" {
			t.Fatalf("%s: %s", sig, msg)
		}
	})
}

func FuzzVF_C17_FragBuf(f *testing.F) {
	f.Add(uint16(10), []byte{0, 5, 5, 5})
	f.Add(uint16(300), []byte{0, 200, 100, 200, 0, 255})
	f.Fuzz(func(t *testing.T, total uint16, b []byte) {
		c := c17Case{Total: int(total)%2000 + 1}
		for len(b) >= 2 && len(c.Frags) < 200 {
			off := int(b[0]) * c.Total / 200
			ln := int(b[1])*c.Total/400 + 1
			b = b[2:]
			c.Frags = append(c.Frags, c17Frag{Off: off, Len: ln})
		}
		if sig, msg, _ := c17Run(c); sig != "" {
			t.Fatalf("%s: %s", sig, msg)
		}
	})
}
