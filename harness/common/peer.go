//go:build verif

package vfpkg

//vf:pkgs tlcp dtlcp

// Scripted peers (DESIGN.md 3.3). A peer drives a library Conn of the opposite role through its
// internal primitives (record layer, message structs, transcript hash, key schedule) instead of
// calling Handshake, so it can omit, repeat, reorder or mutate messages while keeping its own
// transcript and keys consistent with what it actually sent and received. The crypto of the peer is
// the library's own (C04 checks that independently); what these peers exercise is the state machine
// and the input validation of the endpoint under test.

import (
	"bytes"
	"context"
	"crypto"
	"crypto/rand"
	"errors"
	"fmt"
	"io"

	"github.com/emmansun/gmsm/sm2"
	x509 "github.com/emmansun/gmsm/smx509"
)

// ---------------------------------------------------------------------------- server-role peer

// vfSrvPeer plays the server against a client under test.
type vfSrvPeer struct {
	c   *Conn
	hs  *serverHandshakeState
	ka  keyAgreementProtocol
	ch  *clientHelloMsg
	pre []byte
	// what the client sent in its flight
	gotCert *certificateMsg
	gotCKE  *clientKeyExchangeMsg
	gotCV   *certificateVerifyMsg
	log     []string
}

func vfNewSrvPeer(c *Conn) *vfSrvPeer { return &vfSrvPeer{c: c} }

func (p *vfSrvPeer) logf(f string, a ...interface{}) { p.log = append(p.log, fmt.Sprintf(f, a...)) }

// ReadClientHello reads the ClientHello (on the datagram stack it also performs the cookie exchange).
func (p *vfSrvPeer) ReadClientHello() error {
	ch, err := vfPeerReadClientHello(p.c)
	if err != nil {
		return err
	}
	p.ch = ch
	p.hs = &serverHandshakeState{c: p.c, ctx: context.Background(), clientHello: ch}
	if err := p.hs.processClientHello(); err != nil {
		return err
	}
	return nil
}

// PickSuite selects the suite the peer will announce (0 = the library's own choice).
func (p *vfSrvPeer) PickSuite(id uint16) error {
	if id == 0 {
		return p.hs.pickCipherSuite()
	}
	s := cipherSuites[id]
	if s == nil {
		return fmt.Errorf("peer: unknown suite %x", id)
	}
	p.hs.suite = s
	p.c.cipherSuite = id
	return nil
}

type vfSHOpt struct {
	SessionID []byte // nil: fresh 32 bytes
	Vers      uint16
	Random    []byte
	ALPN      *string
	Compression *uint8
}

func (p *vfSrvPeer) SendServerHello(o vfSHOpt) error {
	hs := p.hs
	hs.hello.cipherSuite = hs.suite.id
	if o.SessionID != nil {
		hs.hello.sessionId = o.SessionID
	} else {
		hs.hello.sessionId = make([]byte, 32)
		io.ReadFull(rand.Reader, hs.hello.sessionId)
	}
	if o.Vers != 0 {
		hs.hello.vers = o.Vers
	}
	if o.Random != nil {
		hs.hello.random = o.Random
	}
	if o.ALPN != nil {
		hs.hello.alpnProtocol = *o.ALPN
	}
	if o.Compression != nil {
		hs.hello.compressionMethod = *o.Compression
	}
	hs.finishedHash = newFinishedHash(p.c.vers, hs.suite)
	if err := transcriptMsg(hs.clientHello, &hs.finishedHash); err != nil {
		return err
	}
	p.ka = hs.suite.ka(p.c.vers)
	return p.send(hs.hello)
}

func (p *vfSrvPeer) send(m handshakeMessage) error {
	vfPeerSeq(p.c, m)
	_, err := p.c.writeHandshakeRecord(m, &p.hs.finishedHash)
	if err == nil {
		_, err = p.c.flush()
	}
	return err
}

// SendRawHandshake sends a handshake message given as type + body (hashed into the transcript).
func (p *vfSrvPeer) SendRawHandshake(typ uint8, body []byte) error {
	return p.send(vfRawMsg(p.c, typ, body))
}

func (p *vfSrvPeer) SendCertificate(certs [][]byte) error {
	return p.send(&certificateMsg{certificates: certs})
}

type vfSKXOpt struct {
	Signer       crypto.Signer // nil: the configured signing key
	ClientRandom []byte        // override the randoms that are signed
	ServerRandom []byte
	EncCertDER   []byte // ECC: the certificate that is signed (default: configured encryption cert)
	SignOtherParams bool // ECDHE: sign a different ephemeral point than the one sent
	Corrupt      int  // >0: flip that byte (1-based) of the signature
	EmptySig     bool
	Mutate       func(key []byte) []byte // final mutation of the message body
}

// SendSKX builds and sends ServerKeyExchange. The honest form is produced by the library's own
// generateServerKeyExchange; deviations re-sign with the requested inputs.
func (p *vfSrvPeer) SendSKX(o vfSKXOpt) error {
	hs := p.hs
	skx, err := p.ka.generateServerKeyExchange(hs)
	if err != nil {
		return err
	}
	deviates := o.Signer != nil || o.ClientRandom != nil || o.ServerRandom != nil || o.EncCertDER != nil || o.SignOtherParams || o.EmptySig
	if deviates {
		cr, sr := hs.clientHello.random, hs.hello.random
		if o.ClientRandom != nil {
			cr = o.ClientRandom
		}
		if o.ServerRandom != nil {
			sr = o.ServerRandom
		}
		signer := o.Signer
		if signer == nil {
			signer = hs.sigCert.PrivateKey.(crypto.Signer)
		}
		var tbs, params []byte
		if vfIsECDHE(hs.suite.id) {
			plen := int(skx.key[3])
			params = append([]byte(nil), skx.key[:4+plen]...)
			signed := append([]byte(nil), params...)
			if o.SignOtherParams {
				other, _ := sm2.GenerateKey(rand.Reader)
				ek, _ := other.ECDH()
				copy(signed[4:], ek.PublicKey().Bytes())
			}
			tbs = refCat(cr, sr, signed)
		} else {
			der := hs.encCert.Certificate[0]
			if o.EncCertDER != nil {
				der = o.EncCertDER
			}
			tbs = refCat(cr, sr, []byte{byte(len(der) >> 16), byte(len(der) >> 8), byte(len(der))}, der)
		}
		var sig []byte
		if !o.EmptySig {
			sig, err = signer.Sign(rand.Reader, tbs, sm2.NewSM2SignerOption(true, nil))
			if err != nil {
				return err
			}
		}
		skx = &serverKeyExchangeMsg{key: refCat(params, []byte{byte(len(sig) >> 8), byte(len(sig))}, sig)}
	}
	if o.Corrupt > 0 {
		k := append([]byte(nil), skx.key...)
		// flip a byte inside the signature (the last bytes of the message)
		i := len(k) - 1 - (o.Corrupt-1)%40
		if i >= 0 {
			k[i] ^= 0x20
		}
		skx = &serverKeyExchangeMsg{key: k}
	}
	if o.Mutate != nil {
		skx = &serverKeyExchangeMsg{key: o.Mutate(append([]byte(nil), skx.key...))}
	}
	return p.send(skx)
}

func (p *vfSrvPeer) SendCertReq(cas [][]byte) error {
	return p.send(&certificateRequestMsg{certificateTypes: []byte{certTypeRSASign, certTypeECDSASign}, certificateAuthorities: cas})
}

func (p *vfSrvPeer) SendHelloDone() error { return p.send(new(serverHelloDoneMsg)) }

// ReadClientFlight reads the client's messages up to (not including) ChangeCipherSpec.
func (p *vfSrvPeer) ReadClientFlight(expectCert bool) error {
	c, hs := p.c, p.hs
	msg, err := c.readHandshake(&hs.finishedHash)
	if err != nil {
		return err
	}
	if cm, ok := msg.(*certificateMsg); ok {
		p.gotCert = cm
		var certs []*x509.Certificate
		for _, der := range cm.certificates {
			if x, err := x509.ParseCertificate(der); err == nil {
				certs = append(certs, x)
			}
		}
		hs.peerCertificates = certs
		c.peerCertificates = certs
		if msg, err = c.readHandshake(&hs.finishedHash); err != nil {
			return err
		}
	}
	ckx, ok := msg.(*clientKeyExchangeMsg)
	if !ok {
		return fmt.Errorf("peer: expected ClientKeyExchange, got %T", msg)
	}
	p.gotCKE = ckx
	pre, err := p.ka.processClientKeyExchange(hs, ckx)
	if err != nil {
		return fmt.Errorf("peer: processClientKeyExchange: %w", err)
	}
	p.pre = pre
	hs.masterSecret = masterFromPreMasterSecret(c.vers, hs.suite, pre, hs.clientHello.random, hs.hello.random)
	if p.gotCert != nil && len(p.gotCert.certificates) > 0 {
		msg, err = c.readHandshake(&hs.finishedHash)
		if err != nil {
			return err
		}
		cv, ok := msg.(*certificateVerifyMsg)
		if !ok {
			return fmt.Errorf("peer: expected CertificateVerify, got %T", msg)
		}
		p.gotCV = cv
	}
	return nil
}

// SetMaster lets a peer that cannot compute the master secret continue with an arbitrary one.
func (p *vfSrvPeer) SetMaster(m []byte) { p.hs.masterSecret = m }

func (p *vfSrvPeer) EstablishKeys() error {
	if p.hs.masterSecret == nil {
		p.hs.masterSecret = make([]byte, 48)
	}
	return p.hs.establishKeys()
}

// ReadClientFinished reads ChangeCipherSpec + Finished from the client and verifies it.
func (p *vfSrvPeer) ReadClientFinished() error {
	c, hs := p.c, p.hs
	if err := c.readChangeCipherSpec(); err != nil {
		return err
	}
	msg, err := c.readHandshake(nil)
	if err != nil {
		return err
	}
	fin, ok := msg.(*finishedMsg)
	if !ok {
		return fmt.Errorf("peer: expected Finished, got %T", msg)
	}
	want := hs.finishedHash.clientSum(hs.masterSecret)
	if !bytes.Equal(want, fin.verifyData) {
		return errors.New("peer: client Finished does not match the peer's transcript")
	}
	return transcriptMsg(fin, &hs.finishedHash)
}

func (p *vfSrvPeer) SendCCS() error {
	if p.c.out.nextCipher == nil {
		// keys not established: send a bare ChangeCipherSpec record without switching
		return vfPeerBareCCS(p.c)
	}
	if err := p.c.writeChangeCipherRecord(); err != nil {
		return err
	}
	_, err := p.c.flush()
	return err
}

func (p *vfSrvPeer) SendFinished(corrupt bool) error {
	hs := p.hs
	if hs.masterSecret == nil {
		hs.masterSecret = make([]byte, 48)
	}
	fin := &finishedMsg{verifyData: hs.finishedHash.serverSum(hs.masterSecret)}
	if corrupt {
		fin.verifyData[3] ^= 1
	}
	return p.send(fin)
}

// SendFinishedPacked sends the Finished message and, in the same record, one more handshake message.
func (p *vfSrvPeer) SendFinishedPacked(typ uint8, body []byte) error {
	hs := p.hs
	fin := &finishedMsg{verifyData: hs.finishedHash.serverSum(hs.masterSecret)}
	return vfSendPacked(p.c, fin, vfRawMsg(p.c, typ, body))
}

func vfSendPacked(c *Conn, a, b handshakeMessage) error {
	vfPeerSeq(c, a)
	d1, err := a.marshal()
	if err != nil {
		return err
	}
	vfPeerSeq(c, b)
	d2, err := b.marshal()
	if err != nil {
		return err
	}
	return vfPeerRawRecord(c, recordTypeHandshake, append(append([]byte(nil), d1...), d2...))
}

// SendAppData sends application data under whatever protection is currently active.
func (p *vfSrvPeer) SendAppData(b []byte) error { return vfPeerRawRecord(p.c, recordTypeApplicationData, b) }

// ---------------------------------------------------------------------------- client-role peer

// vfCliPeer plays the client against a server under test.
type vfCliPeer struct {
	c      *Conn
	hs     *clientHandshakeState
	ka     keyAgreementProtocol
	hello  *clientHelloMsg
	sh     *serverHelloMsg
	certs  *certificateMsg
	skx    *serverKeyExchangeMsg
	cr     *certificateRequestMsg
	pre    []byte
	ckx    *clientKeyExchangeMsg
	transcriptBeforeCKE []byte
	log    []string
}

func vfNewCliPeer(c *Conn) *vfCliPeer { return &vfCliPeer{c: c} }

type vfCHOpt struct {
	SessionID []byte
	Suites    []uint16
	Mutate    func(*clientHelloMsg)
	// MutateBody rewrites the marshalled ClientHello body (the hello that carries the cookie on the
	// datagram stack); the message is re-framed so that the outer length is correct.
	MutateBody func([]byte) []byte
}

// SendClientHello sends the ClientHello (datagram stack: including the cookie exchange) and reads
// the ServerHello.
func (p *vfCliPeer) SendClientHello(o vfCHOpt) error {
	c := p.c
	hello, err := c.makeClientHello()
	if err != nil {
		return err
	}
	if o.SessionID != nil {
		hello.sessionId = o.SessionID
	}
	if o.Suites != nil {
		hello.cipherSuites = o.Suites
	}
	if o.Mutate != nil {
		o.Mutate(hello)
	}
	p.hello = hello
	sh, err := vfPeerHelloExchange(c, hello, o.MutateBody)
	if err != nil {
		return err
	}
	p.sh = sh
	if err := c.pickProtocolVersion(sh); err != nil {
		return err
	}
	p.hs = &clientHandshakeState{c: c, ctx: context.Background(), serverHello: sh, hello: hello}
	hs := p.hs
	if hs.suite = cipherSuites[sh.cipherSuite]; hs.suite == nil {
		return fmt.Errorf("peer: server chose unknown suite %x", sh.cipherSuite)
	}
	c.cipherSuite = hs.suite.id
	hs.finishedHash = newFinishedHash(c.vers, hs.suite)
	transcriptMsg(hello, &hs.finishedHash)
	transcriptMsg(sh, &hs.finishedHash)
	p.ka = hs.suite.ka(c.vers)
	return nil
}

// ReadServerFlight reads Certificate, ServerKeyExchange, [CertificateRequest], ServerHelloDone.
func (p *vfCliPeer) ReadServerFlight() error {
	c, hs := p.c, p.hs
	for {
		msg, err := c.readHandshake(&hs.finishedHash)
		if err != nil {
			return err
		}
		switch m := msg.(type) {
		case *certificateMsg:
			p.certs = m
			var certs []*x509.Certificate
			for _, der := range m.certificates {
				x, err := x509.ParseCertificate(der)
				if err != nil {
					return err
				}
				certs = append(certs, x)
			}
			hs.peerCertificates = certs
			c.peerCertificates = certs
		case *serverKeyExchangeMsg:
			p.skx = m
			if err := p.ka.processServerKeyExchange(hs, m); err != nil {
				return fmt.Errorf("peer: processServerKeyExchange: %w", err)
			}
		case *certificateRequestMsg:
			p.cr = m
		case *serverHelloDoneMsg:
			return nil
		default:
			return fmt.Errorf("peer: unexpected %T in server flight", msg)
		}
	}
}

func (p *vfCliPeer) send(m handshakeMessage) error {
	vfPeerSeq(p.c, m)
	_, err := p.c.writeHandshakeRecord(m, &p.hs.finishedHash)
	if err == nil {
		_, err = p.c.flush()
	}
	return err
}

func (p *vfCliPeer) SendRawHandshake(typ uint8, body []byte) error {
	return p.send(vfRawMsg(p.c, typ, body))
}

func (p *vfCliPeer) SendCertificate(certs [][]byte) error {
	return p.send(&certificateMsg{certificates: certs})
}

// PrepareCKE computes the pre-master secret and the honest ClientKeyExchange.
// encCert: the client's encryption key pair (needed for ECDHE).
func (p *vfCliPeer) PrepareCKE(encCert *Certificate) error {
	p.hs.encCert = encCert
	pre, ckx, err := p.ka.generateClientKeyExchange(p.hs)
	if err != nil {
		return err
	}
	p.pre, p.ckx = pre, ckx
	return nil
}

func (p *vfCliPeer) SendCKE(mutate func([]byte) []byte) error {
	if p.ckx == nil {
		return errors.New("peer: PrepareCKE not called")
	}
	m := &clientKeyExchangeMsg{ciphertext: p.ckx.ciphertext}
	if mutate != nil {
		m.ciphertext = mutate(append([]byte(nil), p.ckx.ciphertext...))
	}
	return p.send(m)
}

// SendCertVerify signs the transcript so far (or `over`, if given) with key.
func (p *vfCliPeer) SendCertVerify(key crypto.PrivateKey, over []byte, corrupt bool) error {
	hs := p.hs
	sigType, newHash, err := typeAndHashFrom(hs.suite.id)
	if err != nil {
		return err
	}
	signed := hs.finishedHash.Sum()
	if over != nil {
		signed = over
	}
	sig, err := signHandshake(p.c, sigType, key, newHash, signed)
	if err != nil {
		return err
	}
	if corrupt {
		sig[len(sig)-3] ^= 0x10
	}
	return p.send(&certificateVerifyMsg{signature: sig})
}

func (p *vfCliPeer) ComputeMaster() {
	hs := p.hs
	pre := p.pre
	if pre == nil {
		pre = make([]byte, 48)
	}
	hs.masterSecret = masterFromPreMasterSecret(p.c.vers, hs.suite, pre, hs.hello.random, hs.serverHello.random)
}

func (p *vfCliPeer) SetMaster(m []byte) { p.hs.masterSecret = append([]byte(nil), m...) }

func (p *vfCliPeer) EstablishKeys() error {
	if p.hs.masterSecret == nil {
		p.ComputeMaster()
	}
	return p.hs.establishKeys()
}

func (p *vfCliPeer) SendCCS() error {
	if p.c.out.nextCipher == nil {
		return vfPeerBareCCS(p.c)
	}
	if err := p.c.writeChangeCipherRecord(); err != nil {
		return err
	}
	_, err := p.c.flush()
	return err
}

func (p *vfCliPeer) SendFinished(corrupt bool) error {
	hs := p.hs
	if hs.masterSecret == nil {
		p.ComputeMaster()
	}
	fin := &finishedMsg{verifyData: hs.finishedHash.clientSum(hs.masterSecret)}
	if corrupt {
		fin.verifyData[3] ^= 1
	}
	return p.send(fin)
}

// SendFinishedPacked sends the Finished message and, in the same record, one more handshake message.
func (p *vfCliPeer) SendFinishedPacked(typ uint8, body []byte) error {
	hs := p.hs
	if hs.masterSecret == nil {
		p.ComputeMaster()
	}
	fin := &finishedMsg{verifyData: hs.finishedHash.clientSum(hs.masterSecret)}
	return vfSendPacked(p.c, fin, vfRawMsg(p.c, typ, body))
}

// ReadServerFinished reads ChangeCipherSpec + Finished from the server and verifies it.
func (p *vfCliPeer) ReadServerFinished() error {
	c, hs := p.c, p.hs
	if err := c.readChangeCipherSpec(); err != nil {
		return err
	}
	msg, err := c.readHandshake(nil)
	if err != nil {
		return err
	}
	fin, ok := msg.(*finishedMsg)
	if !ok {
		return fmt.Errorf("peer: expected Finished, got %T", msg)
	}
	want := hs.finishedHash.serverSum(hs.masterSecret)
	if !bytes.Equal(want, fin.verifyData) {
		return errors.New("peer: server Finished does not match the peer's transcript")
	}
	return transcriptMsg(fin, &hs.finishedHash)
}

func (p *vfCliPeer) SendAppData(b []byte) error { return vfPeerRawRecord(p.c, recordTypeApplicationData, b) }

// vfPeerRawRecord writes one record of the given type with the peer's current write protection.
func vfPeerRawRecord(c *Conn, typ recordType, data []byte) error {
	c.out.Lock()
	_, err := c.writeRecordLocked(typ, data)
	c.out.Unlock()
	if err == nil {
		_, err = c.flush()
	}
	return err
}

// vfPeerAlert sends an alert record (level, code) under the current write protection.
func vfPeerAlert(c *Conn, level, code byte) error {
	return vfPeerRawRecord(c, recordTypeAlert, []byte{level, code})
}

// vfPeerReadAppData reads records until application data arrives (peer side; for echo tests).
func vfPeerReadAppData(c *Conn) ([]byte, error) {
	return vfPeerReadApp(c)
}

// vfPeerBareCCS sends a ChangeCipherSpec record although the peer has no pending cipher state:
// the current write state is kept (the library's writer would refuse to send it).
func vfPeerBareCCS(c *Conn) error {
	c.out.Lock()
	c.out.nextCipher, c.out.nextMac = c.out.cipher, c.out.mac
	if c.out.nextCipher == nil {
		c.out.nextCipher = vfNullCipher{}
	}
	_, err := c.writeRecordLocked(recordTypeChangeCipherSpec, []byte{1})
	if _, ok := c.out.cipher.(vfNullCipher); ok {
		c.out.cipher = nil
	}
	c.out.Unlock()
	if err == nil {
		_, err = c.flush()
	}
	return err
}

// vfNullCipher is a placeholder so that changeCipherSpec succeeds on a plaintext connection.
type vfNullCipher struct{}

// vfPeerEmptyRecord sends a protected record with an empty plaintext (the library's writer never
// produces one).
func vfPeerEmptyRecord(c *Conn, typ recordType) error {
	return vfPeerWriteOne(c, typ, nil)
}
