//go:build verif

package tlcp

// Stream-stack part of C03: applying an edit to the byte stream and comparing what was delivered
// with what was sent.

import (
	"bytes"
	"fmt"
)

var c03StackKinds = []string{"reframe"}

// c03StackEdits: re-framing of a cleartext handshake record into two records, the first carrying
// 1, 2, 3 bytes or half of it: the handshake byte stream is unchanged, so both endpoints must
// complete exactly as without it (and nobody may panic).
func c03StackEdits(base *vfPair, dir, ri int) []c03Edit {
	var out []c03Edit
	for _, k := range []int{1, 2, 3, 4, 5} {
		out = append(out, c03Edit{Kind: "reframe", Dir: dir, Rec: ri, Off: k})
	}
	return out
}

func c03RecordLens(base *vfPair, dir int) []int {
	var out []int
	for _, r := range vfRecordsOf(base, dir) {
		out = append(out, len(r.Raw))
	}
	return out
}

func c03Apply(opt *vfPairOpt, e c03Edit, applied *bool) {
	var sim *vfStream
	opt.Prepare = func(s *vfStream, _, _ *Conn) { sim = s }
	var stash []byte
	seenCCS := false
	opt.Edit[e.Dir] = func(idx int, rec []byte) [][]byte {
		if rec[0] == 20 {
			seenCCS = true
		}
		if stash != nil && e.Kind == "swap" && idx == e.Rec+1 {
			s := stash
			stash = nil
			*applied = true
			return [][]byte{rec, s}
		}
		if idx != e.Rec {
			return [][]byte{rec}
		}
		switch e.Kind {
		case "flip":
			if e.Off < len(rec) {
				rec[e.Off] ^= e.Mask
				*applied = true
			}
		case "drop":
			*applied = true
			return nil
		case "dup":
			*applied = true
			return [][]byte{rec, append([]byte(nil), rec...)}
		case "swap":
			stash = rec
			return nil
		case "trunc":
			if e.Off < len(rec) {
				end := sim.ends[e.Dir]
				end.cutAfter = len(end.sentOut) + e.Off
				*applied = true
			}
		case "reframe":
			if rec[0] == 22 && !seenCCS && len(rec) > 5+e.Off && e.Off > 0 { // cleartext handshake records only
				k := e.Off
				if k == 5 {
					k = (len(rec) - 5) / 2
				}
				if k > 0 && k < len(rec)-5 {
					a := append([]byte{22, rec[1], rec[2], byte(k >> 8), byte(k)}, rec[5:5+k]...)
					n2 := len(rec) - 5 - k
					b := append([]byte{22, rec[1], rec[2], byte(n2 >> 8), byte(n2)}, rec[5+k:]...)
					*applied = true
					return [][]byte{a, b}
				}
			}
		case "addext":
			if nr, ok := c03AddExt(rec, e.Off == 1); ok {
				*applied = true
				return [][]byte{nr}
			}
		case "inject":
			typ, body := c03InjectBody(e.Inj)
			inj := append([]byte{typ, 1, 1, byte(len(body) >> 8), byte(len(body))}, body...)
			*applied = true
			return [][]byte{inj, rec}
		}
		return [][]byte{rec}
	}
}

type c03Item struct {
	typ  byte
	data []byte
}

// c03Normalize reduces a byte stream to what the handshake layer sees: plaintext handshake
// payloads concatenated, ChangeCipherSpec payloads, protected records verbatim; plaintext
// warning alerts (which an endpoint may ignore) and record-header version bytes are left out.
func c03Normalize(b []byte) []c03Item {
	var out []c03Item
	for _, r := range vfFrameStream(b) {
		if r.Epoch == 0 {
			if r.Typ == 21 && len(r.Frag) == 2 && r.Frag[0] == 1 {
				continue
			}
			if r.Typ == 22 && len(out) > 0 && out[len(out)-1].typ == 22 {
				out[len(out)-1].data = append(out[len(out)-1].data, r.Frag...)
				continue
			}
			out = append(out, c03Item{r.Typ, append([]byte(nil), r.Frag...)})
			continue
		}
		out = append(out, c03Item{r.Typ | 0x80, append([]byte(nil), r.Frag...)})
	}
	return out
}

// c03StackCheck: both endpoints completed; what each accepted must be, byte for byte, the
// handshake messages and ChangeCipherSpec the other sent.
func c03StackCheck(r *vfPair) string {
	for dir := 0; dir < 2; dir++ {
		wrote, delivered := r.Sim.snapshot(dir)
		a, b := c03Normalize(wrote), c03Normalize(delivered)
		// compare up to and including the sender's Finished (first protected handshake record)
		cut := func(x []c03Item) []c03Item {
			for i, it := range x {
				if it.typ == 22|0x80 {
					return x[:i+1]
				}
			}
			return x
		}
		a, b = cut(a), cut(b)
		if len(a) != len(b) {
			return fmt.Sprintf("direction %d: %d handshake-layer items sent, %d delivered, yet both endpoints completed", dir, len(a), len(b))
		}
		for i := range a {
			if a[i].typ != b[i].typ || !bytes.Equal(a[i].data, b[i].data) {
				return fmt.Sprintf("direction %d: item %d (type %d) was modified in transit, yet both endpoints completed", dir, i, a[i].typ&0x7f)
			}
		}
	}
	return ""
}

func c03SetPMTU(c *Config, pmtu int) {}
