//go:build verif

package tlcp

// Independent framing of a captured TLCP byte stream (5-byte record header, 4-byte handshake header).

type vfWRec struct {
	Typ   byte
	Ver   [2]byte
	Epoch uint16 // number of ChangeCipherSpec records seen before in this direction
	Seq   uint64 // index of the record within its epoch (the implicit sequence number)
	Frag  []byte
	Raw   []byte
}

const vfRecHdrLen = 5
const vfHSHdrLen = 4

// vfRecordsOf frames everything side dir (0 client, 1 server) wrote.
func vfRecordsOf(r *vfPair, dir int) []vfWRec {
	wrote, _ := r.Sim.snapshot(dir)
	return vfFrameStream(wrote)
}

func vfFrameStream(b []byte) []vfWRec {
	raws, _ := vfSplitRecords(b)
	var out []vfWRec
	var epoch uint16
	var seq uint64
	for _, raw := range raws {
		rec := vfWRec{Typ: raw[0], Ver: [2]byte{raw[1], raw[2]}, Epoch: epoch, Seq: seq, Frag: raw[5:], Raw: raw}
		out = append(out, rec)
		seq++
		if raw[0] == 20 {
			epoch++
			seq = 0
		}
	}
	return out
}

// vfSeqInput is the 8-byte sequence-number input of the MAC / additional data.
func vfSeqInput(rec vfWRec) []byte { return refSeq64(rec.Seq) }

type vfHSMsg struct {
	Typ  byte
	Raw  []byte // complete message, header included, as hashed into the transcript
	Body []byte
}

// vfSplitHandshake cuts a concatenation of handshake-record payloads into messages.
func vfSplitHandshake(b []byte) (msgs []vfHSMsg, rest []byte) {
	for len(b) >= 4 {
		n := 4 + int(b[1])<<16 + int(b[2])<<8 + int(b[3])
		if len(b) < n {
			break
		}
		msgs = append(msgs, vfHSMsg{Typ: b[0], Raw: b[:n], Body: b[4:n]})
		b = b[n:]
	}
	return msgs, b
}

// vfPlainHandshake returns the handshake messages side dir sent in the clear (epoch 0).
func vfPlainHandshake(recs []vfWRec) []vfHSMsg {
	var hs []byte
	for _, r := range recs {
		if r.Epoch == 0 && r.Typ == 22 {
			hs = append(hs, r.Frag...)
		}
	}
	m, _ := vfSplitHandshake(hs)
	return m
}

// vfHSMessages parses decrypted handshake-record plaintext (e.g. a Finished) into messages.
func vfHSMessages(pt []byte) []vfHSMsg {
	m, _ := vfSplitHandshake(pt)
	return m
}
