//go:build verif

package dtlcp

// Independent framing of captured DTLCP datagrams (13-byte record header, 12-byte handshake
// header) and an independent, byte-set based handshake reassembler.

type vfWRec struct {
	Typ   byte
	Ver   [2]byte
	Epoch uint16
	Seq   uint64 // 48-bit explicit sequence number
	Frag  []byte
	Raw   []byte
	Dgram int // index of the datagram that carried it
}

const vfRecHdrLen = 13
const vfHSHdrLen = 12

func vfFrameDatagram(d []byte, idx int) (recs []vfWRec, ok bool) {
	for len(d) > 0 {
		if len(d) < 13 {
			return recs, false
		}
		n := int(d[11])<<8 | int(d[12])
		if 13+n > len(d) {
			return recs, false
		}
		seq := uint64(d[5])<<40 | uint64(d[6])<<32 | uint64(d[7])<<24 | uint64(d[8])<<16 | uint64(d[9])<<8 | uint64(d[10])
		recs = append(recs, vfWRec{Typ: d[0], Ver: [2]byte{d[1], d[2]}, Epoch: uint16(d[3])<<8 | uint16(d[4]), Seq: seq,
			Frag: d[13 : 13+n], Raw: d[:13+n], Dgram: idx})
		d = d[13+n:]
	}
	return recs, true
}

// vfRecordsOf frames every datagram side dir handed to the network (retransmissions included).
func vfRecordsOf(r *vfPair, dir int) []vfWRec {
	c2s, s2c := r.vfWire()
	ds := c2s
	if dir == 1 {
		ds = s2c
	}
	var out []vfWRec
	for i, d := range ds {
		recs, _ := vfFrameDatagram(d, i)
		out = append(out, recs...)
	}
	return out
}

func vfSeqInput(rec vfWRec) []byte {
	return []byte{byte(rec.Epoch >> 8), byte(rec.Epoch), byte(rec.Seq >> 40), byte(rec.Seq >> 32), byte(rec.Seq >> 24), byte(rec.Seq >> 16), byte(rec.Seq >> 8), byte(rec.Seq)}
}

type vfHSMsg struct {
	Typ    byte
	MsgSeq uint16
	Raw    []byte // unfragmented form: 12-byte header (offset 0, fragment length = length) + body
	Body   []byte
}

type vfFrag struct {
	Typ           byte
	Len           int
	MsgSeq        uint16
	Off, FragLen  int
	Data          []byte
}

// vfParseFrags cuts one handshake record payload into fragments.
func vfParseFrags(b []byte) (out []vfFrag, ok bool) {
	for len(b) > 0 {
		if len(b) < 12 {
			return out, false
		}
		f := vfFrag{Typ: b[0], Len: int(b[1])<<16 | int(b[2])<<8 | int(b[3]), MsgSeq: uint16(b[4])<<8 | uint16(b[5]),
			Off: int(b[6])<<16 | int(b[7])<<8 | int(b[8]), FragLen: int(b[9])<<16 | int(b[10])<<8 | int(b[11])}
		if 12+f.FragLen > len(b) {
			return out, false
		}
		f.Data = b[12 : 12+f.FragLen]
		out = append(out, f)
		b = b[12+f.FragLen:]
	}
	return out, true
}

// vfReassemble rebuilds messages from fragments with a byte-set model: a message (keyed by
// message_seq and type and length) is complete when every byte is covered; the first complete
// version of each message_seq is kept (retransmissions are identical by construction).
func vfReassemble(frags []vfFrag) []vfHSMsg {
	type key struct {
		seq uint16
		typ byte
		n   int
	}
	type buf struct {
		data    []byte
		covered []bool
		done    bool
	}
	bufs := map[key]*buf{}
	var order []key
	for _, f := range frags {
		k := key{f.MsgSeq, f.Typ, f.Len}
		b := bufs[k]
		if b == nil {
			b = &buf{data: make([]byte, f.Len), covered: make([]bool, f.Len)}
			bufs[k] = b
			order = append(order, k)
		}
		if f.Off+f.FragLen > f.Len {
			continue
		}
		copy(b.data[f.Off:], f.Data)
		for i := f.Off; i < f.Off+f.FragLen; i++ {
			b.covered[i] = true
		}
	}
	var out []vfHSMsg
	for _, k := range order {
		b := bufs[k]
		full := true
		for _, c := range b.covered {
			full = full && c
		}
		if !full {
			continue
		}
		hdr := []byte{k.typ, byte(k.n >> 16), byte(k.n >> 8), byte(k.n), byte(k.seq >> 8), byte(k.seq), 0, 0, 0, byte(k.n >> 16), byte(k.n >> 8), byte(k.n)}
		raw := append(hdr, b.data...)
		out = append(out, vfHSMsg{Typ: k.typ, MsgSeq: k.seq, Raw: raw, Body: raw[12:]})
	}
	return out
}

// vfPlainHandshake returns the handshake messages sent in the clear (epoch 0), reassembled,
// in order of first appearance, without duplicates from retransmission.
func vfPlainHandshake(recs []vfWRec) []vfHSMsg {
	var frags []vfFrag
	for _, r := range recs {
		if r.Epoch == 0 && r.Typ == 22 {
			f, _ := vfParseFrags(r.Frag)
			frags = append(frags, f...)
		}
	}
	return vfReassemble(frags)
}

func vfHSMessages(pt []byte) []vfHSMsg {
	f, _ := vfParseFrags(pt)
	return vfReassemble(f)
}
