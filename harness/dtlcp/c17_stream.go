//go:build verif

package dtlcp

// C17b: fragment streams into a live handshaking endpoint. A man in the middle re-fragments the
// cleartext handshake messages of an honest handshake according to a generated plan: a covering
// with arbitrary cuts, order, overlaps and duplicates (the endpoints must complete exactly as
// without it), a fragment set that never covers one byte range (the receiver must never complete),
// or a covering plus a fragment that exceeds the announced length (no completion on damaged
// content). The same plan is applied to retransmissions.

import (
	"encoding/json"
	"fmt"
	"sort"
	"testing"

	"pgregory.net/rapid"
)

type c17bPiece struct {
	A   int `json:"a"` // start, per mille of the message length
	B   int `json:"b"` // end, per mille
	Key int `json:"k"` // sort key: arrival order
}

type c17bCase struct {
	Suite  uint16      `json:"suite"`
	Resume bool        `json:"resume"`
	Dir    int         `json:"dir"`  // 0: client's messages, 1: server's, 2: both
	Kind   string      `json:"kind"` // cover | hole | exceed
	Cuts   []c17bPiece `json:"cuts"` // the partition (A ascending cut points in B ignored) with arrival keys
	Extra  []c17bPiece `json:"extra"`
	Hole   [2]int      `json:"hole"` // per mille range never delivered (kind hole)
	ExOff  int         `json:"ex_off"` // exceed: offset relative to the end (-3..+3), length 1..8
	ExLen  int         `json:"ex_len"`
	Pack   int         `json:"pack"` // fragments per record
}

type c17bFrag struct{ off, n int }

// c17bPlan turns the relative plan into fragments of a message of length L, in arrival order,
// ending with the fragment that completes the coverage (kind cover/exceed).
func c17bPlan(c c17bCase, L int) (frags []c17bFrag, covers bool) {
	type kf struct {
		f   c17bFrag
		key int
	}
	var all []kf
	abs := func(pm int) int {
		v := pm * L / 1000
		if v < 0 {
			v = 0
		}
		if v > L {
			v = L
		}
		return v
	}
	// partition
	pts := []int{0, L}
	for _, p := range c.Cuts {
		pts = append(pts, abs(p.A))
	}
	sort.Ints(pts)
	k := 0
	for i := 0; i+1 < len(pts); i++ {
		if pts[i+1] > pts[i] {
			key := 0
			if k < len(c.Cuts) {
				key = c.Cuts[k].Key
			}
			k++
			all = append(all, kf{c17bFrag{pts[i], pts[i+1] - pts[i]}, key})
		}
	}
	for _, e := range c.Extra {
		a, b := abs(e.A), abs(e.B)
		if b < a {
			a, b = b, a
		}
		if b == a {
			if b < L {
				b++
			} else {
				a--
			}
		}
		all = append(all, kf{c17bFrag{a, b - a}, e.Key})
	}
	sort.SliceStable(all, func(i, j int) bool { return all[i].key < all[j].key })
	h0, h1 := 0, 0
	if c.Kind == "hole" {
		h0, h1 = abs(c.Hole[0]), abs(c.Hole[1])
		if h1 < h0 {
			h0, h1 = h1, h0
		}
		if h1 == h0 {
			if h1 < L {
				h1++
			} else {
				h0--
			}
		}
	}
	covered := make([]bool, L)
	ncov := 0
	add := func(f c17bFrag) bool {
		frags = append(frags, f)
		for i := f.off; i < f.off+f.n; i++ {
			if !covered[i] {
				covered[i] = true
				ncov++
			}
		}
		return ncov == L
	}
	for _, x := range all {
		f := x.f
		if c.Kind == "hole" {
			// clip the hole out of every fragment
			if f.off < h0 && f.off+f.n > h0 {
				left := c17bFrag{f.off, h0 - f.off}
				if f.off+f.n > h1 {
					add(c17bFrag{h1, f.off + f.n - h1})
				}
				f = left
			} else if f.off >= h0 && f.off < h1 {
				if f.off+f.n <= h1 {
					continue
				}
				f = c17bFrag{h1, f.off + f.n - h1}
			}
		}
		if f.n <= 0 {
			continue
		}
		if add(f) {
			return frags, true
		}
	}
	return frags, ncov == L
}

type c17bOut struct {
	ok         bool
	cerr, serr error
	panicked   string
	fin        [2][12]byte
	suite      uint16
	resumed    bool
	rewritten  int
	hostile    int
	stalled    bool
}

func c17bOnce(c c17bCase, ccfg, scfg *Config, mitm bool) c17bOut {
	var o c17bOut
	var seq [2]uint64
	hook := func(from, nth int, data []byte) []vfDelivery {
		recs, ok := vfFrameDatagram(data, 0)
		if !ok {
			return []vfDelivery{{Data: data}}
		}
		var outRecs [][]byte
		emit := func(typ byte, ver [2]byte, payload []byte) {
			s := seq[from]
			seq[from]++
			r := []byte{typ, ver[0], ver[1], 0, 0, byte(s >> 40), byte(s >> 32), byte(s >> 24), byte(s >> 16), byte(s >> 8), byte(s), byte(len(payload) >> 8), byte(len(payload))}
			outRecs = append(outRecs, append(r, payload...))
		}
		for _, r := range recs {
			if r.Epoch != 0 {
				outRecs = append(outRecs, append([]byte(nil), r.Raw...))
				continue
			}
			if r.Typ != 22 || !(c.Dir == 2 || c.Dir == from) {
				emit(r.Typ, r.Ver, r.Frag)
				continue
			}
			frags, ok := vfParseFrags(r.Frag)
			if !ok {
				emit(r.Typ, r.Ver, r.Frag)
				continue
			}
			var pend []byte
			npend := 0
			flush := func() {
				if len(pend) > 0 {
					emit(22, r.Ver, pend)
					pend, npend = nil, 0
				}
			}
			for _, f := range frags {
				hdr := func(off, n int) []byte {
					return []byte{f.Typ, byte(f.Len >> 16), byte(f.Len >> 8), byte(f.Len), byte(f.MsgSeq >> 8), byte(f.MsgSeq), byte(off >> 16), byte(off >> 8), byte(off), byte(n >> 16), byte(n >> 8), byte(n)}
				}
				if f.Off != 0 || f.FragLen != f.Len || f.Len < 2 {
					pend = append(pend, hdr(f.Off, f.FragLen)...)
					pend = append(pend, f.Data...)
					flush()
					continue
				}
				o.rewritten++
				plan, _ := c17bPlan(c, f.Len)
				for i, p := range plan {
					if c.Kind == "exceed" && i == len(plan)-1 {
						// the hostile fragment arrives before the one that completes the coverage
						off := f.Len + c.ExOff
						if off < 0 {
							off = 0
						}
						n := c.ExLen
						if off+n <= f.Len {
							n = f.Len - off + 1
						}
						flush()
						pend = append(pend, hdr(off, n)...)
						pend = append(pend, make([]byte, n)...)
						flush()
						o.hostile++
					}
					pend = append(pend, hdr(p.off, p.n)...)
					pend = append(pend, f.Data[p.off:p.off+p.n]...)
					npend++
					if npend >= c.Pack || len(pend) > 900 {
						flush()
					}
				}
				flush()
			}
			flush()
		}
		// repack into datagrams of at most ~1200 bytes, in order
		var out []vfDelivery
		var cur []byte
		for _, r := range outRecs {
			if len(cur) > 0 && len(cur)+len(r) > 1200 {
				out = append(out, vfDelivery{Data: cur})
				cur = nil
			}
			cur = append(cur, r...)
		}
		if len(cur) > 0 {
			out = append(out, vfDelivery{Data: cur})
		}
		return out
	}
	opt := vfPairOpt{SrvAddr: "10.17.0.2:4000"}
	if mitm {
		opt.Hook = hook
	}
	if c.Kind == "hole" {
		opt.Horizon = 90 * 1e9
	}
	payload := []byte("c17b ping")
	opt.CliAct = func(cn *Conn) error {
		if err := vfSendAll(cn, payload); err != nil {
			return err
		}
		got, err := vfRecvN(cn, len(payload))
		if err != nil {
			return err
		}
		if string(got) != string(payload) {
			return fmt.Errorf("echo differs")
		}
		return nil
	}
	opt.SrvAct = func(cn *Conn) error {
		got, err := vfRecvN(cn, len(payload))
		if err != nil {
			return err
		}
		return vfSendAll(cn, got)
	}
	r := vfRunPair(ccfg, scfg, opt)
	o.cerr, o.serr, o.panicked = r.CErr, r.SErr, r.CPanic+r.SPanic
	o.stalled = r.Stalled
	o.ok = r.CErr == nil && r.SErr == nil && r.CAct == nil && r.SAct == nil
	if r.CErr == nil && r.SErr == nil {
		// an endpoint records only the Finished values it keeps (a resuming server does not keep the client's)
		var zero [12]byte
		for i := 0; i < 2; i++ {
			if r.CFin[i] != zero && r.SFin[i] != zero && r.CFin[i] != r.SFin[i] {
				o.panicked += "the two endpoints completed with different Finished values"
			}
		}
		if r.CAct != nil || r.SAct != nil {
			o.cerr = fmt.Errorf("after the handshake: client %v, server %v", r.CAct, r.SAct)
		}
	}
	o.fin, o.suite, o.resumed = r.CFin, r.CS.CipherSuite, r.CS.DidResume
	return o
}

func c17bRun(c c17bCase) (sig, msg string, rewritten int) {
	ccfg, scfg := vfBaseConfigs(c.Suite, false)
	if c.Resume {
		ccfg.SessionCache, scfg.SessionCache = NewLRUSessionCache(4), NewLRUSessionCache(4)
		if p := c17bOnce(c, ccfg, scfg, false); !p.ok {
			return "honest-handshake-failed", fmt.Sprintf("priming handshake: client %v server %v", p.cerr, p.serr), 0
		}
	}
	// the clean run goes first when resuming (it uses up nothing: a resumed session stays cached)
	base := c17bOnce(c, ccfg, scfg, false)
	if !base.ok || base.panicked != "" {
		return "honest-handshake-failed", fmt.Sprintf("handshake without the man in the middle: client %v server %v %s", base.cerr, base.serr, base.panicked), 0
	}
	o := c17bOnce(c, ccfg, scfg, true)
	if o.panicked != "" {
		return "panic-or-split", o.panicked, o.rewritten
	}
	desc := fmt.Sprintf("(%d messages re-fragmented, kind %s)", o.rewritten, c.Kind)
	switch c.Kind {
	case "cover":
		if !o.ok {
			return "covering-rejected", fmt.Sprintf("handshake whose messages arrive as fragments covering every byte (arbitrary cuts, order, overlap, duplicates) failed %s: client %v server %v", desc, o.cerr, o.serr), o.rewritten
		}
		if o.suite != base.suite || o.resumed != base.resumed {
			return "covering-changes-result", fmt.Sprintf("re-fragmented handshake negotiated suite %#04x resumed=%v, the plain one %#04x resumed=%v", o.suite, o.resumed, base.suite, base.resumed), o.rewritten
		}
	case "hole":
		if o.rewritten > 0 && (o.cerr == nil || o.serr == nil) {
			return "partial-message-accepted", fmt.Sprintf("a handshake completed (client err=%v, server err=%v) although bytes %d..%d per mille of every re-fragmented message never arrived %s", o.cerr, o.serr, c.Hole[0], c.Hole[1], desc), o.rewritten
		}
	case "exceed":
		// completing is acceptable only with agreeing views (checked above); nothing else to assert
	}
	return "", "", o.rewritten
}

func c17bGen(t *rapid.T) c17bCase {
	c := c17bCase{Suite: rapid.SampledFrom(vfSuites).Draw(t, "suite"), Resume: rapid.IntRange(0, 4).Draw(t, "resume") == 0,
		Dir: rapid.IntRange(0, 2).Draw(t, "dir"), Kind: rapid.SampledFrom([]string{"cover", "cover", "cover", "hole", "exceed"}).Draw(t, "kind"),
		Pack: rapid.IntRange(1, 4).Draw(t, "pack")}
	piece := rapid.Custom(func(t *rapid.T) c17bPiece {
		return c17bPiece{A: rapid.IntRange(0, 1000).Draw(t, "a"), B: rapid.IntRange(0, 1000).Draw(t, "b"), Key: rapid.IntRange(0, 20).Draw(t, "key")}
	})
	c.Cuts = rapid.SliceOfN(piece, 0, 8).Draw(t, "cuts")
	c.Extra = rapid.SliceOfN(piece, 0, 6).Draw(t, "extra")
	if c.Kind == "hole" {
		a := rapid.IntRange(0, 999).Draw(t, "holeA")
		c.Hole = [2]int{a, a + rapid.IntRange(1, 300).Draw(t, "holeLen")}
	}
	if c.Kind == "exceed" {
		c.ExOff = rapid.IntRange(-3, 3).Draw(t, "exOff")
		c.ExLen = rapid.IntRange(1, 8).Draw(t, "exLen")
	}
	return c
}

func TestVF_C17_Stream(t *testing.T) {
	rec := vfRec("C17", "C17b-fragment-streams", "honest handshakes (4 suites, full and resumed) whose cleartext handshake messages are re-fragmented in flight by a generated plan: up to 9 cuts, up to 6 extra overlapping / duplicate fragments, arbitrary arrival order, 1..4 fragments per record, retransmissions treated alike; kinds: covering (must complete with the same suite / resumption flag, equal Finished values on both sides and working data exchange), hole (a byte range of every re-fragmented message never arrives: nobody may complete), exceed (a fragment reaching past the announced length arrives before the covering completes: no completion with differing views, no panic); non-trivial = at least one message was re-fragmented into 2+ fragments; distinct = the case")
	vfRapid(t, rec, "streams", vfN(500, 20000), func(t *rapid.T) {
		c := c17bGen(t)
		sig, msg, rw := c17bRun(c)
		if sig != "" {
			rec.Fail(t, sig, c, "%s", msg)
		}
		rec.Eval(rw > 0 && len(c.Cuts)+len(c.Extra) > 0, c, "kind:"+c.Kind, fmt.Sprintf("dir:%d", c.Dir))
	})
}

func init() {
	vfRegisterReplay("C17b-fragment-streams", func(raw json.RawMessage) error {
		var c c17bCase
		if err := json.Unmarshal(raw, &c); err != nil {
			return err
		}
		if sig, msg, _ := c17bRun(c); sig != "" {
			return fmt.Errorf("%s: %s", sig, msg)
		}
		return nil
	})
}
