//go:build verif

package vfpkg

//vf:pkgs tlcp dtlcp

// C09f: unusual but legal shapes of an endpoint's own credentials, met by an honest peer whose
// messages are what the standard prescribes (CertificateRequest with and without CA names, ...).
// The peer input is honest; what varies is the configuration of the endpoint that has to digest it.
// Oracle (C09): no panic, no hang.

import (
	"crypto/x509"
	"fmt"
	"testing"
)

type c09CfgCase struct {
	Suite     uint16 `json:"suite"`
	CliLeaf   int    `json:"clileaf"` // client certificates: 0 Leaf set, 1 Leaf nil (assembled by hand), 2 supplied through the callbacks with Leaf nil
	SrvLeaf   bool   `json:"srvleafnil"`
	Policy    int    `json:"policy"`
	CAs       int    `json:"cas"` // the server's ClientCAs: 0 nil, 1 the client's root, 2 another root
	Chain     bool   `json:"chain"` // server certificates issued by an intermediate CA that is sent along
}

func c09CfgRun(c c09CfgCase) (sig, msg string) {
	p := vfGetPKI()
	strip := func(x Certificate) Certificate { x.Leaf = nil; return x }
	cs, ce := p.CliSig, p.CliEnc
	ss, se := p.SrvSig, p.SrvEnc
	if c.Chain {
		ss, se = p.ChainSig, p.ChainEnc
		ss.Certificate = [][]byte{p.ChainSig.Certificate[0], p.I.cert.Raw}
	}
	if c.SrvLeaf {
		ss, se = strip(ss), strip(se)
	}
	ccfg := &Config{Time: vfTime, RootCAs: p.A.pool, ServerName: vfServerName, CipherSuites: []uint16{c.Suite}}
	switch c.CliLeaf {
	case 0:
		ccfg.Certificates = []Certificate{cs, ce}
	case 1:
		ccfg.Certificates = []Certificate{strip(cs), strip(ce)}
	case 2:
		a, b := strip(cs), strip(ce)
		ccfg.GetClientCertificate = func(*CertificateRequestInfo) (*Certificate, error) { return &a, nil }
		ccfg.GetClientKECertificate = func(*CertificateRequestInfo) (*Certificate, error) { return &b, nil }
	}
	scfg := &Config{Time: vfTime, Certificates: []Certificate{ss, se}, CipherSuites: []uint16{c.Suite}, ClientAuth: ClientAuthType(c.Policy)}
	switch c.CAs {
	case 1:
		scfg.ClientCAs = p.A.pool
	case 2:
		scfg.ClientCAs = p.B.pool
	}
	r := vfRunPair(ccfg, scfg, vfPairOpt{})
	if r.CPanic != "" || r.SPanic != "" {
		return "panic", fmt.Sprintf("client: %s server: %s", r.CPanic, r.SPanic)
	}
	if r.Stalled && (r.CErr == nil || r.SErr == nil) {
		return "hang", fmt.Sprintf("one endpoint neither completed nor failed: %v / %v", r.CErr, r.SErr)
	}
	return "", ""
}

var _ = x509.NewCertPool

func TestVF_C09_Config(t *testing.T) {
	rec := vfRec("C09", "C09f-own-credential-shapes", "honest peers; the endpoint's own certificates with Leaf set, Leaf nil (assembled by hand) or supplied through callbacks, the server's certificates likewise and optionally issued by an intermediate CA sent along; six client-authentication policies x ClientCAs nil / the client's root / another root x four suites; oracle (C09): no panic, no hang; distinct = the case")
	idx := 0
	for _, suite := range vfSuites {
		for cl := 0; cl <= 2; cl++ {
			for _, sl := range []bool{false, true} {
				for pol := 0; pol <= 5; pol++ {
					for cas := 0; cas <= 2; cas++ {
						for _, chain := range []bool{false, true} {
							idx++
							if !vfMine(idx) {
								continue
							}
							if !vfThorough() && (idx+vfSeed())%3 != 0 && !(cl == 1 && cas == 1) {
								continue
							}
							c := c09CfgCase{Suite: suite, CliLeaf: cl, SrvLeaf: sl, Policy: pol, CAs: cas, Chain: chain}
							sig, msg := c09CfgRun(c)
							if sig != "" {
								rec.Violation(sig, c, "%s", msg)
							}
							rec.Eval(cl != 0 || sl || chain, c, fmt.Sprintf("clileaf:%d", cl))
						}
					}
				}
			}
		}
	}
	rec.SetExhaustive(vfThorough(), fmt.Sprintf("%d cases (one in three in the quick tier)", idx))
}
