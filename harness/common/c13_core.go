//go:build verif

package vfpkg

//vf:pkgs tlcp dtlcp

// C13: concurrent use of one connection. Generated scenarios start several goroutines per side
// (Handshake callers, writers, readers, ConnectionState callers, deadline setters, closers) at
// generated points of the transport history (so that first use races with the handshake and Close
// races with in-flight calls), over a real-time in-memory transport that yields, lingers and can
// exert back-pressure at generated transport operations. The binary is built with -race (the
// driver turns race reports into violations). Oracles: every Handshake caller of a side sees the
// same result; the reader's stream parses into exactly the frames written, each contiguous and
// once; chunks handed to concurrent readers tile the written stream; every datagram arrives once
// and whole; all calls return once Close was called; nothing stops making progress.

import (
	"bytes"
	"encoding/binary"
	"encoding/json"
	"errors"
	"fmt"
	"io"
	"net"
	"os"
	"runtime"
	"sort"
	"strings"
	"sync"
	"sync/atomic"
	"testing"
	"time"

	"pgregory.net/rapid"
)

// ---------------------------------------------------------------------------- transport

type c13Timeout struct{}

func (c13Timeout) Error() string   { return "c13net: i/o timeout" }
func (c13Timeout) Timeout() bool   { return true }
func (c13Timeout) Temporary() bool { return true }
func (c13Timeout) Unwrap() error   { return os.ErrDeadlineExceeded }

type c13Net struct {
	mu       sync.Mutex
	cond     *sync.Cond
	ends     [2]*c13End
	progress int64
	// hook runs (unlocked) at the start of every transport Read (op 'r') / Write (op 'w') of a side
	// with the number of earlier calls of that kind on that side
	hook func(side int, op byte, k int)
	// lastCCS: (datagram transport) the last datagram of each side that carried a cleartext
	// ChangeCipherSpec record, for re-delivery (a duplicate of the sender's final flight)
	lastCCS [2][]byte
}

type c13End struct {
	n          *c13Net
	idx        int
	stream     bool
	q          [][]byte
	closed     bool
	peerClosed bool
	rdl, wdl   time.Time
	nR, nW     int
	// gateFrom >= 0: transport writes number gateFrom and later block (back-pressure) until the end
	// is closed or the write deadline passes
	gateFrom int
	addr     string
}

func c13NewNet(stream bool) *c13Net {
	n := &c13Net{}
	n.cond = sync.NewCond(&n.mu)
	for i := range n.ends {
		n.ends[i] = &c13End{n: n, idx: i, stream: stream, gateFrom: -1, addr: fmt.Sprintf("10.13.0.%d:%d", i+1, 1300+i)}
	}
	return n
}

func (n *c13Net) tick() { atomic.AddInt64(&n.progress, 1) }

func (e *c13End) wakeAt(t time.Time) {
	if t.IsZero() {
		return
	}
	d := time.Until(t)
	if d < 0 {
		d = 0
	}
	time.AfterFunc(d+time.Millisecond, func() {
		e.n.mu.Lock()
		e.n.cond.Broadcast()
		e.n.mu.Unlock()
	})
}

func (e *c13End) read(p []byte, packet bool) (int, error) {
	n := e.n
	n.mu.Lock()
	k := e.nR
	e.nR++
	n.mu.Unlock()
	n.tick()
	if n.hook != nil {
		n.hook(e.idx, 'r', k)
	}
	n.mu.Lock()
	defer n.mu.Unlock()
	defer n.tick()
	for {
		if e.closed {
			return 0, net.ErrClosed
		}
		if len(e.q) > 0 {
			break
		}
		if e.peerClosed && e.stream {
			return 0, io.EOF
		}
		if !e.rdl.IsZero() && !time.Now().Before(e.rdl) {
			return 0, &net.OpError{Op: "read", Net: "c13", Err: c13Timeout{}}
		}
		n.cond.Wait()
	}
	if packet {
		m := copy(p, e.q[0])
		e.q = e.q[1:]
		return m, nil
	}
	// a byte stream: everything that has arrived is handed over, as far as the buffer goes (so that
	// the last data record and a following close_notify can reach the reader in one transport read)
	m := 0
	for m < len(p) && len(e.q) > 0 {
		k := copy(p[m:], e.q[0])
		m += k
		if k == len(e.q[0]) {
			e.q = e.q[1:]
		} else {
			e.q[0] = e.q[0][k:]
		}
	}
	return m, nil
}

func (e *c13End) write(p []byte) (int, error) {
	n := e.n
	n.mu.Lock()
	k := e.nW
	e.nW++
	n.mu.Unlock()
	n.tick()
	if n.hook != nil {
		n.hook(e.idx, 'w', k)
	}
	n.mu.Lock()
	defer n.mu.Unlock()
	defer n.tick()
	for {
		if e.closed {
			return 0, net.ErrClosed
		}
		if !e.wdl.IsZero() && !time.Now().Before(e.wdl) {
			return 0, &net.OpError{Op: "write", Net: "c13", Err: c13Timeout{}}
		}
		if e.gateFrom < 0 || k < e.gateFrom {
			break
		}
		n.cond.Wait()
	}
	if !e.stream {
		for d := p; len(d) >= 13; {
			l := int(d[11])<<8 | int(d[12])
			if 13+l > len(d) {
				break
			}
			if d[0] == 20 && d[3] == 0 && d[4] == 0 {
				n.lastCCS[e.idx] = append([]byte(nil), p...)
				break
			}
			d = d[13+l:]
		}
	}
	o := n.ends[1-e.idx]
	if o.closed {
		if e.stream {
			return 0, &net.OpError{Op: "write", Net: "c13", Err: io.ErrClosedPipe}
		}
		return len(p), nil // datagrams to a closed socket vanish
	}
	o.q = append(o.q, append([]byte(nil), p...))
	n.cond.Broadcast()
	return len(p), nil
}

func (e *c13End) Read(p []byte) (int, error) { return e.read(p, false) }
func (e *c13End) ReadFrom(p []byte) (int, net.Addr, error) {
	m, err := e.read(p, true)
	return m, e.RemoteAddr(), err
}
func (e *c13End) Write(p []byte) (int, error)                 { return e.write(p) }
func (e *c13End) WriteTo(p []byte, _ net.Addr) (int, error)   { return e.write(p) }
func (e *c13End) LocalAddr() net.Addr                         { return c13Addr(e.addr) }
func (e *c13End) RemoteAddr() net.Addr                        { return c13Addr(e.n.ends[1-e.idx].addr) }
func (e *c13End) SetDeadline(t time.Time) error               { e.SetReadDeadline(t); return e.SetWriteDeadline(t) }
func (e *c13End) SetReadDeadline(t time.Time) error {
	e.n.mu.Lock()
	e.rdl = t
	e.n.cond.Broadcast()
	e.n.mu.Unlock()
	e.wakeAt(t)
	return nil
}
func (e *c13End) SetWriteDeadline(t time.Time) error {
	e.n.mu.Lock()
	e.wdl = t
	e.n.cond.Broadcast()
	e.n.mu.Unlock()
	e.wakeAt(t)
	return nil
}
func (e *c13End) Close() error {
	e.n.mu.Lock()
	defer e.n.mu.Unlock()
	e.n.tick()
	if e.closed {
		return net.ErrClosed
	}
	e.closed = true
	e.n.ends[1-e.idx].peerClosed = true
	e.n.cond.Broadcast()
	return nil
}

type c13Addr string

func (a c13Addr) Network() string { return "c13" }
func (a c13Addr) String() string  { return string(a) }

// ---------------------------------------------------------------------------- case

type c13Actor struct {
	Side  int    `json:"side"`
	Kind  string `json:"kind"`            // hs | writer | reader | state | deadline | closer | dupflight (datagram stack: the side's last datagram with a ChangeCipherSpec is delivered to the peer again, N times)
	Trig  string `json:"trig"`            // "t<µs>" after start, "w<k>" / "r<k>": when the side's k-th transport write / read begins
	Sizes []int  `json:"sizes,omitempty"` // writer: payload size of each Write
	Buf   int    `json:"buf,omitempty"`   // reader: buffer size
	// Stream (reader, datagram calls): this reader uses Read (stream style, a buffer smaller than the
	// messages) next to the ReadFrom readers of the same connection
	Stream bool `json:"stream,omitempty"`
	N     int    `json:"n,omitempty"`     // state / deadline: iterations
}

type c13Slow struct {
	Side int    `json:"side"`
	Op   string `json:"op"` // "w" | "r"
	K    int    `json:"k"`
	Us   int    `json:"us"`
}

type c13Case struct {
	Scenario string     `json:"scenario"` // duplex | close
	Suite    uint16     `json:"suite"`
	Resume   bool       `json:"resume"`
	Pre      bool       `json:"pre"`  // handshake completed before the actors start
	Fail     bool       `json:"fail"` // the client does not trust the server: every handshake caller must see the failure
	Dgram    bool       `json:"dgram"`
	Seed     uint64     `json:"seed"`
	YieldPct int        `json:"yield_pct"`
	Slow     []c13Slow  `json:"slow,omitempty"`
	Gate     [2]int     `json:"gate"` // -1: none
	// EarlyClose (duplex, stream calls): 1+side: that side calls Close as soon as its own writers are
	// done, while the peer's readers may still be behind; the peer must still receive everything
	EarlyClose int `json:"early_close,omitempty"`
	// SlowWrites: every transport write of that side takes this many microseconds (a slow link)
	SlowWrites [2]int `json:"slow_writes,omitempty"`
	Actors   []c13Actor `json:"actors"`
}

// c13Sentinel is the writer id of the messages the harness itself sends at the end of a case with
// mixed readers: a ReadFrom caller waiting for the transport holds the connection's read lock, and the
// rest of a message a Read caller has begun stays behind it until one more datagram arrives.
const c13Sentinel = 0xFF

// frame: 0xF5, writer id, seq (2), len (4), body. The body is a function of (id, seq).
func c13Frame(id, seq, size int) []byte {
	b := make([]byte, 8+size)
	b[0] = 0xF5
	b[1] = byte(id)
	binary.BigEndian.PutUint16(b[2:], uint16(seq))
	binary.BigEndian.PutUint32(b[4:], uint32(size))
	x := uint64(id)<<32 | uint64(seq)<<8 | 0x9E3779B97F4A7C15
	for i := 0; i < size; i++ {
		x ^= x << 13
		x ^= x >> 7
		x ^= x << 17
		b[8+i] = byte(x >> 24)
	}
	return b
}

type c13Result struct {
	hsErr     [2][]error
	written   map[int]int // writer actor index -> frames whose Write returned (len, nil)
	writeErr  map[int]error
	chunks    map[int][][]byte // reader actor index -> chunks in the order that reader received them
	readErr   map[int]error
	readEarly map[int]bool // the reader's error came before any Close was requested
	stateBad  string
}

const (
	c13Quiet = 25 * time.Second // no transport operation and no actor finishing for this long = deadlock
	c13Cap   = 30 * time.Second // every call must have returned this long after Close was requested
)

func c13Dump() string {
	buf := make([]byte, 1<<20)
	buf = buf[:runtime.Stack(buf, true)]
	var keep []string
	for _, g := range strings.Split(string(buf), "\n\n") {
		if strings.Contains(g, vfPkg+".(*Conn)") {
			lines := strings.Split(g, "\n")
			if len(lines) > 14 {
				lines = lines[:14]
			}
			keep = append(keep, strings.Join(lines, "\n"))
		}
	}
	if len(keep) > 12 {
		keep = keep[:12]
	}
	return strings.Join(keep, "\n\n")
}

// c13Run executes the scenario once. sig == "" when every oracle held.
func c13Run(c c13Case) (sig, msg string) {
	nw := c13NewNet(!c13Datagram)
	p := vfGetPKI()
	ccfg, scfg := vfBaseConfigs(c.Suite, true)
	if c.Fail {
		ccfg.RootCAs = p.B.pool
	}
	if c.Resume {
		ccfg.SessionCache, scfg.SessionCache = NewLRUSessionCache(4), NewLRUSessionCache(4)
		n0 := c13NewNet(!c13Datagram)
		a, b := c13Conns(n0, ccfg, scfg)
		ch := make(chan error, 2)
		go func() { ch <- a.Handshake() }()
		go func() { ch <- b.Handshake() }()
		for i := 0; i < 2; i++ {
			select {
			case err := <-ch:
				if err != nil && !c.Fail {
					return "honest-handshake-failed", fmt.Sprintf("priming handshake: %v", err)
				}
			case <-time.After(c13Cap):
				return "deadlock", "priming handshake did not finish:\n" + c13Dump()
			}
		}
		a.Close()
		b.Close()
	}
	conns := [2]*Conn{}
	conns[0], conns[1] = c13Conns(nw, ccfg, scfg)

	// triggers
	type trig struct {
		side int
		op   byte
		k    int
	}
	var tmu sync.Mutex
	waiting := map[trig][]chan struct{}{}
	fired := map[trig]bool{}
	slow := map[trig]int{}
	for _, s := range c.Slow {
		slow[trig{s.Side, s.Op[0], s.K}] = s.Us
	}
	var jit uint64
	armed := int32(0)
	var base [2][2]int // transport operations that happened before the actors were started
	nw.hook = func(side int, op byte, k int) {
		if atomic.LoadInt32(&armed) == 0 {
			return
		}
		if op == 'r' {
			k -= base[side][0]
		} else {
			k -= base[side][1]
		}
		t := trig{side, op, k}
		tmu.Lock()
		fired[t] = true
		ws := waiting[t]
		delete(waiting, t)
		tmu.Unlock()
		for _, w := range ws {
			close(w)
		}
		if us := slow[t]; us > 0 {
			time.Sleep(time.Duration(us) * time.Microsecond)
		} else if op == 'w' && c.SlowWrites[side] > 0 {
			time.Sleep(time.Duration(c.SlowWrites[side]) * time.Microsecond)
		} else if c.YieldPct > 0 {
			x := vfHash(c.Seed, atomic.AddUint64(&jit, 1))
			if int(x%100) < c.YieldPct {
				runtime.Gosched()
			}
		}
	}

	res := &c13Result{written: map[int]int{}, writeErr: map[int]error{}, chunks: map[int][][]byte{}, readErr: map[int]error{}, readEarly: map[int]bool{}}
	var rmu sync.Mutex
	var closing int32 // set before any Close is called
	var closeAt atomic.Value
	var recvd [2]int64 // bytes (or datagrams) received by the readers of each side
	mixed := false      // datagram calls with a stream-style reader: volumes are counted in bytes
	for _, a := range c.Actors {
		mixed = mixed || (a.Kind == "reader" && a.Stream)
	}
	var done int64

	if c.Pre {
		ch := make(chan error, 2)
		go func() { ch <- conns[0].Handshake() }()
		go func() { ch <- conns[1].Handshake() }()
		for i := 0; i < 2; i++ {
			select {
			case err := <-ch:
				if (err != nil) != c.Fail {
					return "handshake-result", fmt.Sprintf("sequential handshake: err=%v, failure expected=%v", err, c.Fail)
				}
			case <-time.After(c13Cap):
				return "deadlock", "handshake before the scenario did not finish:\n" + c13Dump()
			}
		}
	}
	nw.mu.Lock()
	for i := 0; i < 2; i++ {
		base[i] = [2]int{nw.ends[i].nR, nw.ends[i].nW}
		if g := c.Gate[i]; g >= 0 {
			nw.ends[i].gateFrom = base[i][1] + g
		}
	}
	nw.mu.Unlock()
	atomic.StoreInt32(&armed, 1)

	var wgFinite, wgAll, wgX sync.WaitGroup
	closingSide := -1
	for _, a := range c.Actors {
		if a.Kind == "closer" || a.Kind == "expire" {
			closingSide = a.Side
		}
	}
	likeClose := c.Scenario == "close" || c.Scenario == "timeout"
	start := make(chan struct{})
	t0 := time.Now()
	panics := make(chan string, len(c.Actors)+1)
	for ai, a := range c.Actors {
		ai, a := ai, a
		finite := a.Kind != "reader"
		if likeClose {
			finite = false
		}
		wgAll.Add(1)
		if finite {
			wgFinite.Add(1)
		}
		if a.Side == closingSide {
			wgX.Add(1)
		}
		go func() {
			defer wgAll.Done()
			if a.Side == closingSide {
				defer wgX.Done()
			}
			if finite {
				defer wgFinite.Done()
			}
			defer atomic.AddInt64(&done, 1)
			defer nw.tick()
			<-start
			// wait for the trigger
			switch a.Trig[0] {
			case 't':
				var us int
				fmt.Sscanf(a.Trig[1:], "%d", &us)
				if d := time.Duration(us)*time.Microsecond - time.Since(t0); d > 0 {
					time.Sleep(d)
				}
			default:
				var k, plus int
				if i := strings.IndexByte(a.Trig, '+'); i > 0 {
					fmt.Sscanf(a.Trig[1:i], "%d", &k)
					fmt.Sscanf(a.Trig[i+1:], "%d", &plus)
				} else {
					fmt.Sscanf(a.Trig[1:], "%d", &k)
				}
				t := trig{a.Side, a.Trig[0], k}
				tmu.Lock()
				var w chan struct{}
				if !fired[t] {
					w = make(chan struct{})
					waiting[t] = append(waiting[t], w)
				}
				tmu.Unlock()
				if w != nil {
					select {
					case <-w:
					case <-time.After(300 * time.Millisecond): // the transport never got that far: start anyway
					}
				}
				if plus > 0 {
					time.Sleep(time.Duration(plus) * time.Microsecond)
				}
			}
			conn := conns[a.Side]
			if pm := vfRecover(func() {
				switch a.Kind {
				case "hs":
					err := conn.Handshake()
					rmu.Lock()
					res.hsErr[a.Side] = append(res.hsErr[a.Side], err)
					rmu.Unlock()
				case "writer":
					for seq, sz := range a.Sizes {
						f := c13Frame(ai, seq, sz)
						n, err := c13Write(conn, c.Dgram, f)
						if err != nil || n != len(f) {
							if err == nil {
								err = fmt.Errorf("short write %d of %d without error", n, len(f))
							}
							rmu.Lock()
							res.writeErr[ai] = err
							rmu.Unlock()
							return
						}
						rmu.Lock()
						res.written[ai] = seq + 1
						rmu.Unlock()
					}
				case "reader":
					buf := make([]byte, a.Buf)
					var spHdr []byte
					spRemain, spSentinel := 0, false
					for {
						n, err := c13Read(conn, c.Dgram && !a.Stream, buf)
						if n > 0 || (c.Dgram && !a.Stream && err == nil) {
							rmu.Lock()
							res.chunks[ai] = append(res.chunks[ai], append([]byte(nil), buf[:n]...))
							rmu.Unlock()
							switch {
							case c.Dgram && !mixed:
								atomic.AddInt64(&recvd[a.Side], 1)
							case c.Dgram && !a.Stream:
								if !(n >= 2 && buf[1] == c13Sentinel) {
									atomic.AddInt64(&recvd[a.Side], int64(n))
								}
							case c.Dgram:
								// stream-style reader next to ReadFrom readers: count the bytes of real messages only
								cnt := 0
								for d := buf[:n]; len(d) > 0; {
									if spRemain == 0 && len(spHdr) < 8 {
										k := vfMin(8-len(spHdr), len(d))
										spHdr = append(spHdr, d[:k]...)
										d = d[k:]
										if len(spHdr) == 8 {
											spSentinel = spHdr[1] == c13Sentinel
											spRemain = int(binary.BigEndian.Uint32(spHdr[4:]))
											if !spSentinel {
												cnt += 8
											}
											if spRemain == 0 {
												spHdr = spHdr[:0]
											}
										}
										continue
									}
									k := vfMin(spRemain, len(d))
									if !spSentinel {
										cnt += k
									}
									spRemain -= k
									d = d[k:]
									if spRemain == 0 {
										spHdr = spHdr[:0]
									}
								}
								atomic.AddInt64(&recvd[a.Side], int64(cnt))
							default:
								atomic.AddInt64(&recvd[a.Side], int64(n))
							}
						}
						if err != nil {
							rmu.Lock()
							res.readErr[ai] = err
							res.readEarly[ai] = atomic.LoadInt32(&closing) == 0
							rmu.Unlock()
							return
						}
					}
				case "dupflight":
					for i := 0; i < a.N; i++ {
						nw.mu.Lock()
						d := nw.lastCCS[a.Side]
						o := nw.ends[1-a.Side]
						if d != nil && !o.closed {
							o.q = append(o.q, append([]byte(nil), d...))
							nw.cond.Broadcast()
						}
						nw.mu.Unlock()
						nw.tick()
						time.Sleep(time.Millisecond)
					}
				case "state":
					wasComplete := false
					for i := 0; i < a.N; i++ {
						st := conn.ConnectionState()
						if wasComplete && !st.HandshakeComplete {
							rmu.Lock()
							res.stateBad = "ConnectionState reported HandshakeComplete=true and later HandshakeComplete=false on the same connection"
							rmu.Unlock()
						}
						wasComplete = wasComplete || st.HandshakeComplete
						if st.HandshakeComplete && (st.CipherSuite != c.Suite || st.Version != c13Version) {
							rmu.Lock()
							res.stateBad = fmt.Sprintf("ConnectionState reports a complete handshake with suite %#04x version %#04x (negotiated %#04x)", st.CipherSuite, st.Version, c.Suite)
							rmu.Unlock()
						}
						if st.HandshakeComplete && a.Side == 0 && len(st.PeerCertificates) == 0 {
							rmu.Lock()
							res.stateBad = "ConnectionState reports a complete handshake without the server's certificates"
							rmu.Unlock()
						}
						if a.N > 50 {
							time.Sleep(100 * time.Microsecond) // a long-running poller
						}
						runtime.Gosched()
					}
				case "deadline":
					far := time.Now().Add(time.Hour)
					for i := 0; i < a.N; i++ {
						switch i % 3 {
						case 0:
							conn.SetDeadline(far)
						case 1:
							conn.SetReadDeadline(time.Time{})
						case 2:
							conn.SetWriteDeadline(far)
						}
						runtime.Gosched()
					}
				case "expire":
					// a deadline that passes while the handshake waits for the silent peer; afterwards the
					// deadline is lifted and Handshake is called once more
					conn.SetDeadline(time.Now().Add(time.Duration(a.N) * time.Millisecond))
					// wait until the deadline has made some caller's handshake fail (callers start at
					// their triggers, 300 ms at the latest), then lift it
					for i := 0; i < 400; i++ {
						rmu.Lock()
						n := len(res.hsErr[a.Side])
						rmu.Unlock()
						if n > 0 {
							break
						}
						time.Sleep(5 * time.Millisecond)
					}
					conn.SetDeadline(time.Time{})
					err := conn.Handshake()
					rmu.Lock()
					res.hsErr[a.Side] = append(res.hsErr[a.Side], err)
					rmu.Unlock()
				case "closer":
					atomic.StoreInt32(&closing, 1)
					closeAt.CompareAndSwap(nil, time.Now())
					conn.Close()
				}
			}); pm != "" {
				panics <- pm
			}
		}()
	}
	close(start)

	// wait for a wait group while watching for progress
	waitQuiet := func(wg *sync.WaitGroup, what string) (string, string) {
		ch := make(chan struct{})
		go func() { wg.Wait(); close(ch) }()
		last, lastAt := atomic.LoadInt64(&nw.progress), time.Now()
		for {
			select {
			case <-ch:
				return "", ""
			case pm := <-panics:
				return "panic", pm
			case <-time.After(50 * time.Millisecond):
			}
			if p := atomic.LoadInt64(&nw.progress); p != last {
				last, lastAt = p, time.Now()
			} else if time.Since(lastAt) > c13Quiet {
				return "deadlock", fmt.Sprintf("%s: no transport operation and no call returning for %v; goroutines inside the connection:\n%s", what, c13Quiet, c13Dump())
			}
			if v := closeAt.Load(); v != nil && time.Since(v.(time.Time)) > c13Cap {
				return "close-does-not-unblock", fmt.Sprintf("%s: calls still pending %v after Close was called; goroutines inside the connection:\n%s", what, c13Cap, c13Dump())
			}
		}
	}
	abort := func() {
		nw.ends[0].Close()
		nw.ends[1].Close()
	}

	if c.Scenario == "duplex" {
		if s, m := waitQuiet(&wgFinite, "writers, handshake callers and noise"); s != "" {
			abort()
			return s, m
		}
		// expected volume per receiving side
		var want [2]int64
		rmu.Lock()
		for ai, a := range c.Actors {
			if a.Kind == "writer" {
				for s := 0; s < res.written[ai]; s++ {
					if c.Dgram && !mixed {
						want[1-a.Side]++
					} else {
						want[1-a.Side] += int64(8 + a.Sizes[s])
					}
				}
			}
		}
		hasReader := [2]bool{}
		for _, a := range c.Actors {
			if a.Kind == "reader" {
				hasReader[a.Side] = true
			}
		}
		rmu.Unlock()
		if c.EarlyClose > 0 {
			atomic.StoreInt32(&closing, 1)
			closeAt.CompareAndSwap(nil, time.Now())
			es := c.EarlyClose - 1
			wgAll.Add(1)
			go func() { defer wgAll.Done(); defer nw.tick(); conns[es].Close() }()
			hasReader[es] = false // its own readers are cut off by its Close
		}
		if mixed {
			for s := 0; s < 2; s++ {
				if !hasReader[s] {
					continue
				}
				s := s
				wgAll.Add(1)
				go func() {
					defer wgAll.Done()
					for i := 0; i < 5000 && atomic.LoadInt32(&closing) == 0 && atomic.LoadInt64(&recvd[s]) < want[s]; i++ {
						time.Sleep(2 * time.Millisecond)
						if atomic.LoadInt64(&recvd[s]) >= want[s] {
							return
						}
						if _, err := c13Write(conns[1-s], true, c13Frame(c13Sentinel, 0, 0)); err != nil {
							return
						}
					}
				}()
			}
		}
		last, lastAt := int64(-1), time.Now()
		for {
			okAll := true
			for s := 0; s < 2; s++ {
				if hasReader[s] && atomic.LoadInt64(&recvd[s]) < want[s] {
					okAll = false
				}
			}
			rmu.Lock()
			early := false
			for _, e := range res.readEarly {
				early = early || e
			}
			rmu.Unlock()
			if okAll || early || c.Fail {
				break
			}
			if p := atomic.LoadInt64(&nw.progress); p != last {
				last, lastAt = p, time.Now()
			} else if time.Since(lastAt) > c13Quiet {
				abort()
				return "bytes-lost", fmt.Sprintf("readers received %d/%d (side 0) and %d/%d (side 1) bytes or datagrams and nothing moves any more; goroutines inside the connection:\n%s",
					atomic.LoadInt64(&recvd[0]), want[0], atomic.LoadInt64(&recvd[1]), want[1], c13Dump())
			}
			time.Sleep(time.Millisecond)
		}
		// Close both sides while the readers are blocked: Close must unblock them
		atomic.StoreInt32(&closing, 1)
		closeAt.CompareAndSwap(nil, time.Now())
		var cw sync.WaitGroup
		for s := 0; s < 2; s++ {
			s := s
			cw.Add(1)
			wgAll.Add(1)
			go func() { defer wgAll.Done(); defer cw.Done(); defer nw.tick(); conns[s].Close() }()
		}
	}
	if likeClose {
		if s, m := waitQuiet(&wgX, "calls of the closing side"); s != "" {
			abort()
			return s, m
		}
		// the harness now closes the peer as well: its pending calls must return too
		wgAll.Add(1)
		go func() { defer wgAll.Done(); defer nw.tick(); conns[1-closingSide].Close() }()
	}
	if s, m := waitQuiet(&wgAll, "after Close"); s != "" {
		abort()
		return s, m
	}
	if c.Scenario == "close" {
		// calls made after Close must fail promptly, and the other side is then closed too
		post := make(chan string, 1)
		go func() {
			for s := 0; s < 2; s++ {
				closed := false
				for _, a := range c.Actors {
					closed = closed || (a.Kind == "closer" && a.Side == s)
				}
				if !closed {
					continue
				}
				if _, err := c13Write(conns[s], c.Dgram, []byte("after close")); err == nil {
					post <- "Write after Close reported success"
					return
				}
				// Read may still hand out data that was decrypted or buffered before Close (as crypto/tls
				// does); it must not block and must end in an error once that is used up
				ended := false
				rb := make([]byte, 4096)
				for i := 0; i < 200 && !ended; i++ {
					_, err := c13Read(conns[s], c.Dgram, rb)
					ended = err != nil
				}
				if !ended {
					post <- "Read kept succeeding after Close (200 calls)"
					return
				}
				conns[s].Close()
			}
			post <- ""
		}()
		select {
		case m := <-post:
			if m != "" {
				abort()
				return "use-after-close", m
			}
		case <-time.After(c13Cap):
			abort()
			return "close-does-not-unblock", "calls made after Close did not return:\n" + c13Dump()
		}
	}
	abort()
	select {
	case pm := <-panics:
		return "panic", pm
	default:
	}
	return c13Judge(c, res)
}

func c13SameErr(a, b error) bool {
	if a == nil || b == nil {
		return a == b
	}
	return a == b || a.Error() == b.Error()
}

// c13Judge applies the content oracles to what the actors observed.
func c13Judge(c c13Case, res *c13Result) (sig, msg string) {
	if res.stateBad != "" {
		return "state-inconsistent", res.stateBad
	}
	closeScenario := c.Scenario == "close" || c.Scenario == "timeout"
	if c.Scenario == "timeout" {
		for s := 0; s < 2; s++ {
			for i, e := range res.hsErr[s] {
				if len(res.hsErr[1-s]) > 0 && s != 0 && len(res.hsErr[0]) == 0 {
					break
				}
				if e == nil {
					return "handshake-result-differs", fmt.Sprintf("the peer never answered and the deadline passed inside the handshake, yet Handshake caller %d of side %d got nil (the others: %v)", i, s, res.hsErr[s])
				}
				if !c13SameErr(e, res.hsErr[s][0]) {
					return "handshake-result-differs", fmt.Sprintf("Handshake callers of side %d saw different results after a deadline expired inside the handshake: %v / %v", s, res.hsErr[s][0], e)
				}
			}
		}
		return "", ""
	}
	for s := 0; s < 2; s++ {
		for i, e := range res.hsErr[s] {
			if !closeScenario {
				if (e != nil) != c.Fail {
					return "handshake-result", fmt.Sprintf("Handshake caller %d of side %d got %v (failure expected: %v)", i, s, e, c.Fail)
				}
				if !c13SameErr(e, res.hsErr[s][0]) {
					return "handshake-result-differs", fmt.Sprintf("Handshake callers of side %d saw different results: %v / %v", s, res.hsErr[s][0], e)
				}
			}
		}
	}
	if c.Fail {
		for ai := range res.chunks {
			if len(res.chunks[ai]) > 0 {
				return "data-after-failed-handshake", fmt.Sprintf("reader %d received data although the handshake failed", ai)
			}
		}
		for ai, n := range res.written {
			if n > 0 {
				return "data-after-failed-handshake", fmt.Sprintf("writer %d: Write succeeded although the handshake failed", ai)
			}
		}
		return "", ""
	}
	if !closeScenario {
		for ai, e := range res.writeErr {
			return "write-error", fmt.Sprintf("writer %d: %v", ai, e)
		}
		for ai, early := range res.readEarly {
			if early {
				return "read-error", fmt.Sprintf("reader %d got %v before anybody closed the connection", ai, res.readErr[ai])
			}
		}
	}
	for side := 0; side < 2; side++ { // side = receiving side
		var readers, writers []int
		for ai, a := range c.Actors {
			if a.Kind == "reader" && a.Side == side {
				readers = append(readers, ai)
			}
			if a.Kind == "writer" && a.Side == 1-side {
				writers = append(writers, ai)
			}
		}
		if len(readers) == 0 {
			continue
		}
		sort.Ints(readers)
		sort.Ints(writers)
		if c.Dgram {
			seen := map[[2]int]int{}
			for _, ri := range readers {
				lastSeq := map[int]int{}
				chunks := res.chunks[ri]
				if c.Actors[ri].Stream {
					// a stream-style reader: its chunks, joined, are whole messages one after the other
					var all []byte
					for _, ch := range chunks {
						all = append(all, ch...)
					}
					chunks = nil
					for len(all) > 0 {
						if bytes.HasPrefix(c13Frame(c13Sentinel, 0, 0), all) {
							break // the case ended while this reader was inside one of the harness's own messages
						}
						if len(all) < 8 || all[0] != 0xF5 {
							return "datagram-damaged", fmt.Sprintf("reader %d (Read, %d-byte buffer, next to ReadFrom readers): its bytes do not continue with a message at offset %d: % x", ri, c.Actors[ri].Buf, len(all), all[:vfMin(len(all), 16)])
						}
						l := 8 + int(binary.BigEndian.Uint32(all[4:]))
						if l > len(all) {
							if closeScenario {
								break
							}
							l = len(all)
						}
						chunks = append(chunks, all[:l])
						all = all[l:]
					}
				}
				for _, ch := range chunks {
					if bytes.Equal(ch, c13Frame(c13Sentinel, 0, 0)) {
						continue
					}
					if len(ch) < 8 || ch[0] != 0xF5 {
						return "datagram-damaged", fmt.Sprintf("reader %d received a datagram that is no frame: % x", ri, ch[:vfMin(len(ch), 24)])
					}
					id, seq, sz := int(ch[1]), int(binary.BigEndian.Uint16(ch[2:])), int(binary.BigEndian.Uint32(ch[4:]))
					if id >= len(c.Actors) || c.Actors[id].Kind != "writer" || seq >= len(c.Actors[id].Sizes) || sz != c.Actors[id].Sizes[seq] || !bytes.Equal(ch, c13Frame(id, seq, sz)) {
						return "datagram-damaged", fmt.Sprintf("reader %d received a datagram that differs from what writer %d sent as message %d", ri, id, seq)
					}
					seen[[2]int{id, seq}]++
					if seen[[2]int{id, seq}] > 1 {
						return "datagram-duplicated", fmt.Sprintf("message %d of writer %d was delivered twice", seq, id)
					}
					if l, ok := lastSeq[id]; ok && seq < l {
						return "datagram-reordered", fmt.Sprintf("reader %d received message %d of writer %d after message %d over an ordered transport", ri, seq, id, l)
					}
					lastSeq[id] = seq
				}
			}
			if !closeScenario {
				for _, wi := range writers {
					for s := 0; s < res.written[wi]; s++ {
						if seen[[2]int{wi, s}] != 1 {
							return "datagram-lost", fmt.Sprintf("message %d of writer %d (WriteTo returned success) was never delivered over a lossless transport", s, wi)
						}
					}
				}
			}
			continue
		}
		if len(readers) == 1 {
			var all []byte
			for _, ch := range res.chunks[readers[0]] {
				all = append(all, ch...)
			}
			next := map[int]int{}
			off := 0
			for off < len(all) {
				rest := all[off:]
				if len(rest) < 8 {
					if closeScenario {
						break
					}
					return "stream-torn", fmt.Sprintf("the stream ends with %d stray bytes at offset %d", len(rest), off)
				}
				if rest[0] != 0xF5 {
					return "stream-torn", fmt.Sprintf("at offset %d the stream does not continue with a frame: % x (a Write was torn, lost or duplicated)", off, rest[:vfMin(len(rest), 16)])
				}
				id, seq, sz := int(rest[1]), int(binary.BigEndian.Uint16(rest[2:])), int(binary.BigEndian.Uint32(rest[4:]))
				if id >= len(c.Actors) || c.Actors[id].Kind != "writer" || c.Actors[id].Side == side || seq >= len(c.Actors[id].Sizes) || sz != c.Actors[id].Sizes[seq] {
					return "stream-torn", fmt.Sprintf("at offset %d: frame header (writer %d, message %d, %d bytes) matches nothing that was written", off, id, seq, sz)
				}
				if seq != next[id] {
					return "stream-order", fmt.Sprintf("at offset %d: message %d of writer %d where message %d was due (lost, duplicated or reordered Write)", off, seq, id, next[id])
				}
				f := c13Frame(id, seq, sz)
				if len(rest) < len(f) {
					if closeScenario && bytes.Equal(rest, f[:len(rest)]) {
						break
					}
					return "stream-torn", fmt.Sprintf("at offset %d: message %d of writer %d is cut short (%d of %d bytes)", off, seq, id, len(rest), len(f))
				}
				if !bytes.Equal(rest[:len(f)], f) {
					i := 0
					for rest[i] == f[i] {
						i++
					}
					return "stream-torn", fmt.Sprintf("message %d of writer %d (%d bytes) is not contiguous: differs from what was written at byte %d", seq, id, sz, i)
				}
				next[id]++
				off += len(f)
			}
			if !closeScenario {
				for _, wi := range writers {
					if next[wi] != res.written[wi] {
						return "stream-lost", fmt.Sprintf("writer %d: %d Writes returned success, the peer's stream holds %d of them", wi, res.written[wi], next[wi])
					}
				}
			}
			continue
		}
		// several readers, one writer: the chunks must tile the written stream
		if len(writers) != 1 {
			continue
		}
		wi := writers[0]
		var exp []byte
		for s := 0; s < res.written[wi]; s++ {
			exp = append(exp, c13Frame(wi, s, c.Actors[wi].Sizes[s])...)
		}
		if closeScenario {
			// a Write interrupted by Close may have been delivered in part
			for s := res.written[wi]; s < len(c.Actors[wi].Sizes) && s <= res.written[wi]; s++ {
				exp = append(exp, c13Frame(wi, s, c.Actors[wi].Sizes[s])...)
			}
		}
		var qs [][][]byte
		total := 0
		for _, ri := range readers {
			qs = append(qs, res.chunks[ri])
			for _, ch := range res.chunks[ri] {
				total += len(ch)
			}
		}
		if pos, ok := c13Tile(exp, qs); !ok {
			return "readers-tiling", fmt.Sprintf("the chunks returned to %d concurrent readers (%d bytes) cannot be arranged into the %d bytes written: arrangement breaks at offset %d (bytes lost, duplicated or handed out of order)", len(readers), total, len(exp), pos)
		}
		if !closeScenario && total != len(exp) {
			return "readers-tiling", fmt.Sprintf("concurrent readers received %d bytes in total, %d were written", total, len(exp))
		}
	}
	return "", ""
}

func vfMin(a, b int) int {
	if a < b {
		return a
	}
	return b
}

// c13Tile decides whether the per-reader chunk sequences can be merged (keeping each reader's own
// order) into a prefix of exp. Returns the furthest offset reached when they cannot.
func c13Tile(exp []byte, qs [][][]byte) (int, bool) {
	idx := make([]int, len(qs))
	dead := map[string]bool{}
	furthest := 0
	var rec func(pos int) bool
	rec = func(pos int) bool {
		if pos > furthest {
			furthest = pos
		}
		fin := true
		for i := range qs {
			if idx[i] < len(qs[i]) {
				fin = false
			}
		}
		if fin {
			return true
		}
		key := fmt.Sprint(idx)
		if dead[key] {
			return false
		}
		for i := range qs {
			if idx[i] >= len(qs[i]) {
				continue
			}
			ch := qs[i][idx[i]]
			if pos+len(ch) <= len(exp) && bytes.Equal(exp[pos:pos+len(ch)], ch) {
				idx[i]++
				if rec(pos + len(ch)) {
					return true
				}
				idx[i]--
			}
		}
		dead[key] = true
		return false
	}
	ok := rec(0)
	return furthest, ok
}

// ---------------------------------------------------------------------------- generators

func c13GenTrig(t *rapid.T, maxK int) string {
	plus := func() string {
		if d := rapid.SampledFrom([]int{0, 0, 100, 500, 2000, 5000}).Draw(t, "plus"); d > 0 {
			return fmt.Sprintf("+%d", d)
		}
		return ""
	}
	switch rapid.IntRange(0, 4).Draw(t, "trigKind") {
	case 0:
		return "t0"
	case 1:
		return fmt.Sprintf("t%d", rapid.IntRange(0, 30000).Draw(t, "us"))
	case 2:
		return fmt.Sprintf("w%d", rapid.IntRange(0, maxK).Draw(t, "wk")) + plus()
	default:
		return fmt.Sprintf("r%d", rapid.IntRange(0, 2*maxK).Draw(t, "rk")) + plus()
	}
}

func c13GenSizes(t *rapid.T, dgram bool) []int {
	n := rapid.IntRange(1, 8).Draw(t, "nwrites")
	var out []int
	for i := 0; i < n; i++ {
		var sz int
		switch {
		case dgram:
			sz = rapid.IntRange(0, 1100).Draw(t, "size")
		default:
			switch rapid.IntRange(0, 6).Draw(t, "sizeClass") {
			case 6:
				// more than 16 full records in one Write (stream stack; the datagram stack keeps to its range)
				sz = rapid.SampledFrom([]int{262144, 262145, 300000}).Draw(t, "size")
				if c13Datagram {
					sz = rapid.IntRange(17000, c13MaxWrite).Draw(t, "dsize")
				}
			case 0:
				sz = rapid.IntRange(0, 64).Draw(t, "size")
			case 1, 2:
				sz = rapid.IntRange(64, 4000).Draw(t, "size")
			case 3:
				sz = rapid.IntRange(16000, 17000).Draw(t, "size")
			default:
				sz = rapid.IntRange(17000, c13MaxWrite).Draw(t, "size")
			}
		}
		out = append(out, sz)
	}
	return out
}

func c13GenSlow(t *rapid.T) []c13Slow {
	n := rapid.IntRange(0, 3).Draw(t, "nslow")
	var out []c13Slow
	for i := 0; i < n; i++ {
		out = append(out, c13Slow{Side: rapid.IntRange(0, 1).Draw(t, "slowSide"), Op: rapid.SampledFrom([]string{"w", "w", "r"}).Draw(t, "slowOp"),
			K: rapid.IntRange(0, 9).Draw(t, "slowK"), Us: rapid.SampledFrom([]int{200, 1000, 3000, 8000}).Draw(t, "slowUs")})
	}
	return out
}

func c13GenDuplex(t *rapid.T) c13Case {
	c := c13Case{Scenario: "duplex", Suite: rapid.SampledFrom(vfSuites).Draw(t, "suite"), Resume: rapid.IntRange(0, 3).Draw(t, "resume") == 0,
		Pre: rapid.IntRange(0, 3).Draw(t, "pre") == 0, Fail: rapid.IntRange(0, 9).Draw(t, "fail") == 0,
		Seed: rapid.Uint64().Draw(t, "seed"), YieldPct: rapid.SampledFrom([]int{0, 10, 50}).Draw(t, "yield"), Gate: [2]int{-1, -1}}
	if c13Datagram {
		c.Dgram = rapid.Bool().Draw(t, "dgram")
	}
	if c.Fail {
		c.Resume = false
	}
	c.Slow = c13GenSlow(t)
	for side := 0; side < 2; side++ {
		nhs := rapid.IntRange(0, 3).Draw(t, "nhs")
		nwr := rapid.IntRange(0, 4).Draw(t, "nwriters")
		for i := 0; i < nhs; i++ {
			c.Actors = append(c.Actors, c13Actor{Side: side, Kind: "hs", Trig: c13GenTrig(t, 9)})
		}
		for i := 0; i < nwr; i++ {
			c.Actors = append(c.Actors, c13Actor{Side: side, Kind: "writer", Trig: c13GenTrig(t, 9), Sizes: c13GenSizes(t, c.Dgram)})
		}
		if rapid.Bool().Draw(t, "state") {
			c.Actors = append(c.Actors, c13Actor{Side: side, Kind: "state", Trig: c13GenTrig(t, 9), N: rapid.IntRange(1, 40).Draw(t, "n")})
		}
		if rapid.Bool().Draw(t, "deadline") {
			c.Actors = append(c.Actors, c13Actor{Side: side, Kind: "deadline", Trig: c13GenTrig(t, 9), N: rapid.IntRange(1, 40).Draw(t, "n")})
		}
	}
	// readers: one reader when the peer has several writers (contiguity needs a total order),
	// possibly several when it has at most one (or in datagram mode)
	for side := 0; side < 2; side++ {
		peerWriters := 0
		for _, a := range c.Actors {
			if a.Kind == "writer" && a.Side == 1-side {
				peerWriters++
			}
		}
		nr := 1
		if peerWriters <= 1 || c.Dgram {
			nr = rapid.IntRange(1, 4).Draw(t, "nreaders")
		}
		for i := 0; i < nr; i++ {
			buf := rapid.SampledFrom([]int{1, 7, 100, 1000, 4096, 16384, 40000}).Draw(t, "buf")
			if c.Dgram {
				buf = 2048
			}
			c.Actors = append(c.Actors, c13Actor{Side: side, Kind: "reader", Trig: c13GenTrig(t, 9), Buf: buf})
		}
		// datagram calls: one more reader that uses Read with a small buffer, so that the rest of a message
		// stays inside the connection while the others call ReadFrom
		if c.Dgram && peerWriters > 0 && rapid.IntRange(0, 2).Draw(t, "streamReader") == 0 {
			c.Actors = append(c.Actors, c13Actor{Side: side, Kind: "reader", Trig: c13GenTrig(t, 9), Stream: true,
				Buf: rapid.SampledFrom([]int{1, 4, 7, 100, 500}).Draw(t, "sbuf")})
		}
	}
	// datagram stack: duplicates of a side's final flight arrive after the handshake, over a slow link,
	// while the application keeps asking for the connection state
	if c13Datagram && !c.Fail && rapid.IntRange(0, 2).Draw(t, "dupflight") == 0 {
		side := rapid.IntRange(0, 1).Draw(t, "dupSide")
		c.Actors = append(c.Actors, c13Actor{Side: side, Kind: "dupflight", Trig: fmt.Sprintf("t%d", rapid.IntRange(15000, 80000).Draw(t, "dupAt")), N: rapid.IntRange(1, 6).Draw(t, "ndup")})
		c.SlowWrites[1-side] = rapid.SampledFrom([]int{0, 500, 2000, 5000}).Draw(t, "slowWrites")
		for s2 := 0; s2 < 2; s2++ {
			c.Actors = append(c.Actors, c13Actor{Side: s2, Kind: "state", Trig: fmt.Sprintf("t%d", rapid.IntRange(10000, 60000).Draw(t, "stateAt")), N: rapid.IntRange(100, 400).Draw(t, "nstate")})
		}
	}
	// early close: a side whose peer writes nothing may close as soon as its own writers are done
	if !c.Dgram && !c.Fail {
		w := [2]int{}
		for _, a := range c.Actors {
			if a.Kind == "writer" {
				w[a.Side]++
			}
		}
		for side := 0; side < 2; side++ {
			if w[side] > 0 && w[1-side] == 0 && c.EarlyClose == 0 && rapid.Bool().Draw(t, "earlyClose") {
				c.EarlyClose = 1 + side
			}
		}
	}
	return c
}

func c13GenClose(t *rapid.T) c13Case {
	c := c13Case{Scenario: "close", Suite: rapid.SampledFrom(vfSuites).Draw(t, "suite"), Pre: rapid.Bool().Draw(t, "pre"),
		Seed: rapid.Uint64().Draw(t, "seed"), YieldPct: rapid.SampledFrom([]int{0, 10, 50}).Draw(t, "yield"), Gate: [2]int{-1, -1}}
	if c13Datagram {
		c.Dgram = rapid.Bool().Draw(t, "dgram")
	}
	c.Slow = c13GenSlow(t)
	x := rapid.IntRange(0, 1).Draw(t, "closingSide")
	// the peer may stall: its transport writes block from some point on (silent peer, slow loris)
	switch rapid.IntRange(0, 3).Draw(t, "stall") {
	case 0:
		c.Gate[1-x] = rapid.IntRange(0, 4).Draw(t, "peerGate")
	case 1:
		c.Gate[x] = rapid.IntRange(0, 12).Draw(t, "ownGate") // back-pressure on the closing side's own writes
	}
	nPend := rapid.IntRange(1, 5).Draw(t, "npending")
	for i := 0; i < nPend; i++ {
		kind := rapid.SampledFrom([]string{"hs", "reader", "reader", "writer", "writer", "state"}).Draw(t, "kind")
		a := c13Actor{Side: x, Kind: kind, Trig: c13GenTrig(t, 9)}
		switch kind {
		case "writer":
			a.Sizes = c13GenSizes(t, c.Dgram)
		case "reader":
			a.Buf = 2048
		case "state":
			a.N = rapid.IntRange(1, 10).Draw(t, "n")
		}
		c.Actors = append(c.Actors, a)
	}
	nCl := rapid.IntRange(1, 2).Draw(t, "nclosers")
	for i := 0; i < nCl; i++ {
		c.Actors = append(c.Actors, c13Actor{Side: x, Kind: "closer", Trig: c13GenTrig(t, 12)})
	}
	// the peer: somebody drives its handshake and reads (1..3 readers); the harness closes it at the end
	c.Actors = append(c.Actors, c13Actor{Side: 1 - x, Kind: "reader", Trig: "t0", Buf: 2048})
	for i := rapid.IntRange(0, 2).Draw(t, "morePeerReaders"); i > 0; i-- {
		buf := rapid.SampledFrom([]int{64, 2048, 40000}).Draw(t, "buf")
		if c.Dgram {
			buf = 2048
		}
		c.Actors = append(c.Actors, c13Actor{Side: 1 - x, Kind: "reader", Trig: c13GenTrig(t, 9), Buf: buf})
	}
	if rapid.Bool().Draw(t, "peerWrites") {
		c.Actors = append(c.Actors, c13Actor{Side: 1 - x, Kind: "writer", Trig: c13GenTrig(t, 9), Sizes: c13GenSizes(t, c.Dgram)})
	}
	// one reader per direction at most on the closing side when the peer writes (frame oracle)
	nr := 0
	for i := range c.Actors {
		if c.Actors[i].Kind == "reader" && c.Actors[i].Side == x {
			nr++
			if nr > 1 && !c.Dgram {
				c.Actors[i].Kind = "hs"
				c.Actors[i].Buf = 0
			}
		}
	}
	return c
}

func c13GenTimeout(t *rapid.T) c13Case {
	c := c13Case{Scenario: "timeout", Suite: rapid.SampledFrom(vfSuites).Draw(t, "suite"), Seed: rapid.Uint64().Draw(t, "seed"),
		YieldPct: rapid.SampledFrom([]int{0, 10, 50}).Draw(t, "yield"), Gate: [2]int{-1, -1}}
	x := rapid.IntRange(0, 1).Draw(t, "side")
	// the peer stalls: nothing it writes from its k-th transport write on gets through
	c.Gate[1-x] = rapid.IntRange(0, 1).Draw(t, "peerGate")
	n := rapid.IntRange(1, 4).Draw(t, "ncallers")
	for i := 0; i < n; i++ {
		c.Actors = append(c.Actors, c13Actor{Side: x, Kind: "hs", Trig: c13GenTrig(t, 6)})
	}
	c.Actors = append(c.Actors, c13Actor{Side: x, Kind: "expire", Trig: "t0", N: rapid.IntRange(5, 80).Draw(t, "deadlineMs")})
	// somebody drives the peer's handshake; the harness closes it at the end
	c.Actors = append(c.Actors, c13Actor{Side: 1 - x, Kind: "hs", Trig: "t0"})
	return c
}

func c13Class(c c13Case) []string {
	cl := []string{c.Scenario}
	if !c.Pre {
		cl = append(cl, "first-use-race")
	}
	if c.Fail {
		cl = append(cl, "failing-handshake")
	}
	if c.Resume {
		cl = append(cl, "resumed")
	}
	if c.Dgram {
		cl = append(cl, "datagram-calls")
	}
	w, r := [2]int{}, [2]int{}
	for _, a := range c.Actors {
		if a.Kind == "writer" {
			w[a.Side]++
		}
		if a.Kind == "reader" {
			r[a.Side]++
		}
	}
	if w[0] > 1 || w[1] > 1 {
		cl = append(cl, "concurrent-writers")
	}
	if r[0] > 1 || r[1] > 1 {
		cl = append(cl, "concurrent-readers")
	}
	if c.Gate[0] >= 0 || c.Gate[1] >= 0 {
		cl = append(cl, "stalled-or-backpressured")
	}
	if len(c.Slow) > 0 {
		cl = append(cl, "slow-transport-op")
	}
	if c.EarlyClose > 0 {
		cl = append(cl, "early-close")
	}
	for _, a := range c.Actors {
		if a.Kind == "dupflight" {
			cl = append(cl, "duplicate-final-flight")
			break
		}
	}
	return cl
}

func c13Nontrivial(c c13Case) bool {
	n := [2]int{}
	for _, a := range c.Actors {
		n[a.Side]++
	}
	return n[0] > 1 || n[1] > 1
}

// c13Stall: the signatures that rest on "nothing moved for c13Quiet" or "still pending c13Cap after Close".
func c13Stall(sig string) bool {
	return sig == "deadlock" || sig == "bytes-lost" || sig == "close-does-not-unblock"
}

func c13Check(t *rapid.T, rec *vfRecord, c c13Case) {
	sig, msg := c13Run(c)
	if c13Stall(sig) {
		// A stall is judged by the wall clock. Twice, on a machine running five such campaigns at once,
		// a case was reported as stalled that passed every one of 80 re-runs; so a stall is reported when
		// the same case stalls again in one of three immediate re-runs (a blocking defect does: the
		// seeded ones stall every time or every few times), and is counted as unconfirmed otherwise.
		confirmed := false
		for i := 0; i < 3 && !confirmed; i++ {
			if s2, m2 := c13Run(c); c13Stall(s2) {
				confirmed = true
				msg = msg + "\n-- stalled again in re-run " + fmt.Sprint(i+1) + ": " + s2 + ": " + m2
			} else if s2 != "" {
				sig, msg, confirmed = s2, m2, true // the re-run found something else: report that
			}
		}
		if !confirmed {
			rec.Excluded("unconfirmed-stall")
			fmt.Fprintf(os.Stderr, "NOTE stall not confirmed by three re-runs: %s: %.400s\n", sig, msg)
			sig = ""
		}
	}
	if sig != "" {
		// a schedule-dependent failure: report the case together with what was seen
		rec.Fail(t, sig, c, "%s", msg)
	}
	rec.Eval(c13Nontrivial(c), c, c13Class(c)...)
}

func TestVF_C13_Duplex(t *testing.T) {
	rec := vfRec("C13", "C13a-duplex", "generated scenarios: per side 0..3 Handshake callers, 0..4 writers (1..8 Writes of 0..40000 bytes each, or datagram calls), 1..4 readers, ConnectionState and deadline-setter goroutines, each started at a generated time or when the side's k-th transport read/write begins (first use racing with the handshake), over a real-time transport with generated yields and slow operations; honest, resumed and failing handshakes; built with -race; oracles: same Handshake result for all callers, the reader's stream is exactly the written frames (each contiguous, once, in per-writer order), chunks of concurrent readers tile the written stream, every datagram delivered once, Close unblocks the readers, no period without progress; non-trivial = more than one goroutine on a side; distinct = the case")
	vfRapid(t, rec, "duplex", vfN(400, 3200), func(t *rapid.T) { c13Check(t, rec, c13GenDuplex(t)) })
}

func TestVF_C13_Close(t *testing.T) {
	rec := vfRec("C13", "C13b-close", "generated scenarios: 1..5 pending calls (Handshake, Read, Write, ConnectionState) on one side, started at generated points of the handshake or after it, a peer that may stall at its k-th transport write, back-pressure on the closing side's own writes, and 1..2 goroutines calling Close at a generated point; oracles: every call returns within "+c13Cap.String()+" of the first Close, a later Write fails and later Reads end in an error once buffered data is used up, whatever the peer received is a prefix of whole frames; built with -race; non-trivial = more than one goroutine on a side; distinct = the case")
	vfRapid(t, rec, "close", vfN(300, 2400), func(t *rapid.T) { c13Check(t, rec, c13GenClose(t)) })
}

func TestVF_C13_Timeout(t *testing.T) {
	if vfStack != "tlcp" {
		// the datagram handshake sets and clears the transport's read deadline itself (retransmission
		// timeouts), so an application deadline during the handshake is not a defined way to end it there
		t.Skip("stream stack only")
	}
	rec := vfRec("C13", "C13e-handshake-timeout", "a peer that stalls at its 1st or 2nd transport write, 1..4 Handshake callers on the other side started at generated points, and a deadline of 5..80 ms set on that connection; after it has passed the deadline is lifted and Handshake is called again; built with -race; oracle: every caller, the late one included, sees the same non-nil result; non-trivial = at least two callers; distinct = the case")
	vfRapid(t, rec, "timeout", vfN(120, 1200), func(t *rapid.T) { c13Check(t, rec, c13GenTimeout(t)) })
}

func init() {
	rp := func(raw json.RawMessage) error {
		var c c13Case
		if err := json.Unmarshal(raw, &c); err != nil {
			return err
		}
		// the failure depends on the schedule: try the scenario repeatedly
		for i := 0; i < 300; i++ {
			if sig, msg := c13Run(c); sig != "" {
				return fmt.Errorf("%s (attempt %d): %s", sig, i+1, msg)
			}
		}
		return nil
	}
	vfRegisterReplay("C13a-duplex", rp)
	vfRegisterReplay("C13b-close", rp)
	vfRegisterReplay("C13e-handshake-timeout", rp)
}

var _ = errors.New
