//go:build verif

package dtlcp

// C15: datagram connections keep message boundaries and respect the path MTU.
// C17c: a handshake gives the same result whatever path MTU either side uses.

import (
	"strings"
	"bytes"
	"encoding/json"
	"fmt"
	"sync"
	"testing"

	"github.com/emmansun/gmsm/sm2"
	"pgregory.net/rapid"
)

// c15MaxPayload: independent arithmetic. A record on the wire is 13 header bytes plus, for GCM,
// 8 explicit nonce + n + 16 tag; for CBC, 16 IV + (n + 32 MAC + padding of 1..16 bytes up to a
// multiple of 16). The largest n whose record fits into pmtu, capped at 2^14.
func c15MaxPayload(suite uint16, pmtu int) int {
	if pmtu <= 0 {
		pmtu = 1400
	}
	var n int
	if vfIsGCM(suite) {
		n = pmtu - 13 - 8 - 16
	} else {
		blocks := (pmtu - 13 - 16) / 16
		n = blocks*16 - 32 - 1
	}
	if n > 16384 {
		n = 16384
	}
	return n
}

func c15RecordLen(suite uint16, n int) int {
	if vfIsGCM(suite) {
		return 13 + 8 + n + 16
	}
	return 13 + 16 + ((n+32)/16+1)*16
}

var (
	c15MinOnce sync.Once
	c15MinPMTU = map[uint16]int{}
)

// c15Smallest finds, per suite, the smallest path MTU at which the tree under test completes an
// honest handshake (measured, not assumed).
func c15Smallest(suite uint16) int {
	c15MinOnce.Do(func() {
		for _, s := range vfSuites {
			for pmtu := 40; pmtu <= 400; pmtu++ {
				ccfg, scfg := vfBaseConfigs(s, false)
				ccfg.PMTU, scfg.PMTU = pmtu, pmtu
				r := vfRunPair(ccfg, scfg, vfPairOpt{})
				if r.CErr == nil && r.SErr == nil && !r.Stalled && r.CPanic == "" && r.SPanic == "" {
					c15MinPMTU[s] = pmtu
					break
				}
			}
		}
	})
	return c15MinPMTU[suite]
}

type c15Send struct {
	Size    int  `json:"size"`
	WriteTo bool `json:"writeto"`
}

type c15Case struct {
	Suite      uint16    `json:"suite"`
	CPMTU      int       `json:"cpmtu"`
	SPMTU      int       `json:"spmtu"`
	Dir        int       `json:"dir"` // 0: client sends
	Sends      []c15Send `json:"sends"`
	LoseFlight bool      `json:"lose"` // lose one handshake datagram so that a retransmission is measured too
	// RBuf > 0: payloads sent with Write are read with a buffer of this size; when such a payload fits one
	// record and is followed by a WriteTo payload, the reader calls ReadFrom after its first short Read
	// and collects the rest of the first payload afterwards (mixed use of the two reading calls)
	RBuf int `json:"rbuf,omitempty"`
	// PrePMTU != 0: the configurations were first used for a connection with this path MTU; the
	// measured connection runs on clones of them whose PMTU was then set to CPMTU / SPMTU
	PrePMTU int `json:"prepmtu,omitempty"`
	// ListenPMTU != 0: the server is created with a listener configuration whose path MTU is this value
	// (-1: unset) and whose GetConfigForClient returns the configuration with SPMTU, which is then in force
	ListenPMTU int `json:"listenpmtu,omitempty"`
}

func c15Run(c c15Case) (sig, msg string, known string) {
	ccfg, scfg := vfBaseConfigs(c.Suite, false)
	if c.PrePMTU != 0 {
		ccfg.PMTU, scfg.PMTU = c.PrePMTU, c.PrePMTU
		if c.PrePMTU < 0 {
			ccfg.PMTU, scfg.PMTU = 0, 0
		}
		r0 := vfRunPair(ccfg, scfg, vfPairOpt{InPlace: true,
			CliAct: func(cn *Conn) error { return vfSendAll(cn, []byte("first use")) },
			SrvAct: func(cn *Conn) error { _, err := vfRecvN(cn, 9); return err },
		})
		if r0.CErr != nil || r0.SErr != nil {
			return "honest-failed", fmt.Sprintf("first use of the configurations (PMTU %d) failed: %v / %v", c.PrePMTU, r0.CErr, r0.SErr), ""
		}
		ccfg, scfg = ccfg.Clone(), scfg.Clone()
	}
	ccfg.PMTU, scfg.PMTU = c.CPMTU, c.SPMTU
	cc := vfNewCapCache(4)
	ccfg.SessionCache, scfg.SessionCache = cc, vfNewCapCache(4)
	pm := [2]int{c.CPMTU, c.SPMTU}
	for i := range pm {
		if pm[i] <= 0 {
			pm[i] = 1400
		}
	}
	sendPMTU := pm[c.Dir]
	max := c15MaxPayload(c.Suite, sendPMTU)
	hsPM := pm // bound for datagrams that are not the measured application data
	runScfg := scfg
	if c.ListenPMTU != 0 {
		l, inner := scfg.Clone(), scfg
		l.PMTU = c.ListenPMTU
		if l.PMTU < 0 {
			l.PMTU = 0
		}
		l.GetConfigForClient = func(*ClientHelloInfo) (*Config, error) { return inner, nil }
		runScfg = l
		// the first server datagrams leave before the per-client configuration is known
		if lp := l.PMTU; lp <= 0 && hsPM[1] < 1400 {
			hsPM[1] = 1400
		} else if lp > hsPM[1] {
			hsPM[1] = lp
		}
	}
	var payloads [][]byte
	for i, s := range c.Sends {
		payloads = append(payloads, c01Payload(s.Size, byte(i+1)))
	}
	type got struct {
		data []byte
		err  error
	}
	var recv []got
	var sendErrs []error
	var libMax int
	var appStart int
	send := func(cn *Conn) error {
		libMax = cn.maxPayloadSizeForWrite(recordTypeApplicationData)
		sim := cn.pconn.(*vfDEnd).s
		sim.mu.Lock()
		appStart = len(sim.sent)
		sim.mu.Unlock()
		for i, s := range c.Sends {
			var err error
			var n int
			if s.WriteTo {
				n, err = cn.WriteTo(payloads[i], cn.RemoteAddr())
			} else {
				n, err = cn.Write(payloads[i])
			}
			if err == nil && n != s.Size {
				err = fmt.Errorf("short write %d of %d", n, s.Size)
			}
			sendErrs = append(sendErrs, err)
		}
		return nil
	}
	rcv := func(cn *Conn) error {
		skip := -1
		for si, s := range c.Sends {
			if si == skip {
				continue
			}
			if c.RBuf > 0 && !s.WriteTo && s.Size <= max && s.Size > c.RBuf && si+1 < len(c.Sends) && c.Sends[si+1].WriteTo && c.Sends[si+1].Size <= max {
				// short Read, ReadFrom (the next datagram), then the rest of the first payload
				head := make([]byte, c.RBuf)
				n, err := cn.Read(head)
				if err != nil {
					recv = append(recv, got{head[:n], err})
					return nil
				}
				big := make([]byte, 20000)
				m, _, err2 := cn.ReadFrom(big)
				tail, err3 := vfRecvN(cn, s.Size-n)
				recv = append(recv, got{append(append([]byte(nil), head[:n]...), tail...), err3})
				recv = append(recv, got{append([]byte(nil), big[:m]...), err2})
				if err2 != nil || err3 != nil {
					return nil
				}
				skip = si + 1
				continue
			}
			if c.RBuf > 0 && !s.WriteTo && s.Size > 0 {
				var all []byte
				buf := make([]byte, c.RBuf)
				var rerr error
				for len(all) < s.Size && rerr == nil {
					want := s.Size - len(all)
					if want > len(buf) {
						want = len(buf)
					}
					var n int
					n, rerr = cn.Read(buf[:want])
					all = append(all, buf[:n]...)
				}
				recv = append(recv, got{all, rerr})
				if rerr != nil {
					return nil
				}
				continue
			}
			if s.WriteTo && s.Size <= max {
				buf := make([]byte, 20000)
				n, _, err := cn.ReadFrom(buf)
				recv = append(recv, got{append([]byte(nil), buf[:n]...), err})
				if err != nil {
					return nil
				}
				continue
			}
			if s.Size == 0 {
				recv = append(recv, got{nil, nil})
				continue
			}
			b, err := vfRecvN(cn, s.Size)
			recv = append(recv, got{b, err})
			if err != nil {
				return nil
			}
		}
		return nil
	}
	opt := vfPairOpt{InPlace: c.PrePMTU != 0}
	if c.LoseFlight {
		opt.Faults = []vfFault{{Kind: "drop", Dir: 1, Nth: 1}} // the server's first flight: retransmitted on the client's retransmitted hello
	}
	if c.Dir == 0 {
		opt.CliAct, opt.SrvAct = send, rcv
	} else {
		opt.CliAct, opt.SrvAct = rcv, send
	}
	r := vfRunPair(ccfg, runScfg, opt)
	if r.CPanic != "" || r.SPanic != "" {
		return "panic", r.CPanic + r.SPanic, ""
	}
	if r.CErr != nil || r.SErr != nil {
		tr := r.Sim.traceStrings()
		if len(tr) > 12 {
			tr = tr[len(tr)-12:]
		}
		return "honest-failed", fmt.Sprintf("handshake with PMTU %d/%d failed: %v / %v (sim: %v); last datagrams: %v", c.CPMTU, c.SPMTU, r.CErr, r.SErr, r.RunErr, tr), ""
	}
	// every datagram handed to the network respects its sender's path MTU
	r.Sim.mu.Lock()
	sent := append([]vfSentRec(nil), r.Sim.sent...)
	r.Sim.mu.Unlock()
	// A listed known finding (K3: handshake flights ignore the path MTU) must not hide what lies behind
	// it: while it is listed, an oversized handshake datagram is remembered and reported only if nothing
	// else is wrong with the case, so that the application-data clauses are still examined.
	var k3sig, k3msg string
	for i, s := range sent {
		limit := hsPM[s.From]
		if i >= appStart && s.From == c.Dir {
			limit = pm[s.From]
		}
		if len(s.Data) > limit {
			kind := "handshake"
			k := "K3"
			if i >= appStart && s.From == c.Dir {
				kind = "application"
				k = ""
				if !vfIsGCM(c.Suite) {
					k = "F9"
				}
			}
			vsig, vmsg := "datagram-exceeds-pmtu:"+kind, fmt.Sprintf("%s datagram of %d bytes from side %d whose path MTU is %d: %s", kind, len(s.Data), s.From, pm[s.From], vfSummarize(s.Data))
			if k == "K3" && vfKnown("K3") {
				if k3sig == "" {
					k3sig, k3msg = vsig, vmsg
				}
				continue
			}
			return vsig, vmsg, k
		}
	}
	if k3sig != "" {
		defer func() {
			if sig == "" {
				sig, msg, known = k3sig, k3msg, "K3"
			}
		}()
	}
	if libMax != max {
		k := ""
		if !vfIsGCM(c.Suite) && libMax > max {
			k = "F9"
		}
		return "max-payload", fmt.Sprintf("the library's maximum payload for suite %x at path MTU %d is %d, independent arithmetic gives %d", c.Suite, sendPMTU, libMax, max), k
	}
	// application datagrams: boundaries and content
	app := 0
	var appD [][]byte
	for i, s := range sent {
		if i >= appStart && s.From == c.Dir {
			appD = append(appD, s.Data)
		}
	}
	keys, err := refKeysOfDgrams(r, cc)
	if err != nil {
		return "ref-parse", err.Error(), ""
	}
	key, iv, mac := keys.dir(c.Dir == 0)
	for _, d := range appD {
		recs, ok := vfFrameDatagram(d, 0)
		if !ok {
			return "datagram-framing", "application datagram does not frame into records", ""
		}
		for _, rec := range recs {
			pt, err := refOpen(keys.GCM, key, iv, mac, vfSeqInput(rec), rec.Typ, rec.Ver, rec.Frag)
			if err != nil {
				return "record-open", "application record does not open under the reference: " + err.Error(), ""
			}
			if len(pt) > 16384 {
				return "plaintext-size", fmt.Sprintf("record carries %d bytes of plaintext", len(pt)), ""
			}
		}
	}
	for i, s := range c.Sends {
		if sendErrs[i] != nil {
			return "send-error", fmt.Sprintf("send %d (%d bytes, WriteTo=%v) failed: %v", i, s.Size, s.WriteTo, sendErrs[i]), ""
		}
		if i >= len(recv) {
			return "receive-missing", fmt.Sprintf("payload %d was not received", i), ""
		}
		if recv[i].err != nil {
			return "receive-error", fmt.Sprintf("receiving payload %d (%d bytes): %v", i, s.Size, recv[i].err), ""
		}
		if !bytes.Equal(recv[i].data, payloads[i]) && !(s.Size == 0 && len(recv[i].data) == 0) {
			return "payload-differs", fmt.Sprintf("payload %d: sent %d bytes, received %d", i, s.Size, len(recv[i].data)), ""
		}
		if s.WriteTo && s.Size <= max {
			// exactly one datagram with one record
			if app >= len(appD) {
				k := ""
				if s.Size == 0 {
					k = "F17"
				}
				return "writeto-no-datagram", fmt.Sprintf("WriteTo of %d bytes produced no datagram", s.Size), k
			}
			recs, _ := vfFrameDatagram(appD[app], 0)
			if len(recs) != 1 || len(appD[app]) != c15RecordLen(c.Suite, s.Size) {
				return "writeto-boundary", fmt.Sprintf("WriteTo of %d bytes (max payload %d) produced a datagram of %d bytes with %d records, expected one record of %d bytes", s.Size, max, len(appD[app]), len(recs), c15RecordLen(c.Suite, s.Size)), ""
			}
			app++
		} else {
			// Write (or an oversized WriteTo): split into ceil(size/max) records
			n := (s.Size + max - 1) / max
			app += n
		}
	}
	if app != len(appD) {
		return "datagram-count", fmt.Sprintf("%d application datagrams on the wire, %d expected from the sends", len(appD), app), ""
	}
	return "", "", ""
}

// refKeysOfDgrams derives the record keys from the tapped hellos and the cached master secret.
func refKeysOfDgrams(r *vfPair, cache *vfCapCache) (refKeys, error) {
	cm, sm := vfPlainHandshake(vfRecordsOf(r, 0)), vfPlainHandshake(vfRecordsOf(r, 1))
	var ch, sh *vfHSMsg
	for i := range cm {
		if cm[i].Typ == hsClientHello {
			ch = &cm[i]
		}
	}
	for i := range sm {
		if sm[i].Typ == hsServerHello && sh == nil {
			sh = &sm[i]
		}
	}
	if ch == nil || sh == nil {
		return refKeys{}, fmt.Errorf("hellos not found")
	}
	cr, _, _, ok1 := c04Hello(ch.Body)
	sr, sid, rest, ok2 := c04Hello(sh.Body)
	if !ok1 || !ok2 || len(rest) < 2 {
		return refKeys{}, fmt.Errorf("hello too short")
	}
	master := cache.masterFor(sid)
	if master == nil {
		return refKeys{}, fmt.Errorf("session not cached")
	}
	return refKeyBlock(master, cr, sr, vfIsGCM(uint16(rest[0])<<8|uint16(rest[1]))), nil
}

func TestVF_C15(t *testing.T) {
	rec := vfRec("C15", "C15-mtu", "suite x path MTU per side (from the smallest value at which this tree completes a handshake, through the default, to above the record limit) x payload sizes (0, 1, around the maximum payload, around 16384) x WriteTo/Write x one lost flight; oracle: independent maximum-payload arithmetic, one datagram of exactly one record per WriteTo up to the maximum, complete in-order delivery for Write, every datagram of any kind <= the sender's path MTU, plaintext <= 16384 per record; non-trivial = size within 32 of a boundary or non-default path MTU; distinct = the case")
	check := func(c c15Case, fail func(sig, msg string)) {
		sig, msg, known := c15Run(c)
		if sig != "" {
			if known != "" && vfKnown(known) {
				rec.Excluded(known)
				rec.Eval(true, c, "excluded-known:"+known)
				return
			}
			fail(sig, msg)
			return
		}
		rec.Eval(true, c, fmt.Sprintf("suite:%04x", c.Suite))
	}
	idx := 0
	for _, suite := range vfSuites {
		min := c15Smallest(suite)
		if min == 0 {
			rec.Violation("honest-failed", suite, "no path MTU up to 400 allows a handshake")
			continue
		}
		pmtus := []int{min, min + 1, min + 7, 100, 200, 576, 1399, 0, 1401, 16384 + 13, 16422, 17000, 20000}
		for _, pmtu := range pmtus {
			if pmtu != 0 && pmtu < min {
				continue
			}
			max := c15MaxPayload(suite, pmtu)
			var sizes []int
			for d := -3; d <= 3; d++ {
				sizes = append(sizes, max+d)
			}
			sizes = append(sizes, 0, 1, 2*max, 2*max+1)
			if max >= 400 {
				sizes = append(sizes, 16384, 16385) // several records; pointless (thousands of datagrams) at a tiny path MTU
			}
			for dir := 0; dir < 2; dir++ {
				idx++
				if !vfMine(idx) {
					continue
				}
				c := c15Case{Suite: suite, CPMTU: pmtu, SPMTU: pmtu, Dir: dir, LoseFlight: pmtu >= 1399 && dir == 0, RBuf: []int{0, 7, 100}[idx%3]}
				for _, sz := range sizes {
					if sz < 0 {
						continue
					}
					c.Sends = append(c.Sends, c15Send{Size: sz, WriteTo: sz <= max})
					if sz > 0 {
						c.Sends = append(c.Sends, c15Send{Size: sz, WriteTo: false})
					}
				}
				check(c, func(sig, msg string) { rec.Violation(sig, c, "%s", msg) })
			}
		}
	}
	rec.SetExhaustive(false, fmt.Sprintf("%d enumerated (suite, path MTU, direction) cases with boundary sizes; random cases sampled", idx))
	vfRapid(t, rec, "random", vfN(300, 6000), func(t *rapid.T) {
		suite := rapid.SampledFrom(vfSuites).Draw(t, "suite")
		min := c15Smallest(suite)
		pm := func(l string) int {
			return rapid.OneOf(rapid.IntRange(min, 300), rapid.IntRange(min, 2000), rapid.SampledFrom([]int{0, 1400, 16397, 16500, 30000})).Draw(t, l)
		}
		c := c15Case{Suite: suite, CPMTU: pm("cpmtu"), SPMTU: pm("spmtu"), Dir: rapid.IntRange(0, 1).Draw(t, "dir"), LoseFlight: rapid.IntRange(0, 3).Draw(t, "lose") == 0,
			RBuf: rapid.SampledFrom([]int{0, 0, 1, 7, 100, 700}).Draw(t, "rbuf"), PrePMTU: rapid.SampledFrom([]int{0, 0, 0, -1, 1400, 600, 3000}).Draw(t, "prepmtu")}
		if rapid.IntRange(0, 3).Draw(t, "listen") == 0 {
			c.ListenPMTU = rapid.SampledFrom([]int{-1, 1400, 3000, 600, 300}).Draw(t, "listenpmtu")
			if c.ListenPMTU > 0 && c.ListenPMTU < min {
				c.ListenPMTU = min
			}
		}
		sp := c.CPMTU
		if c.Dir == 1 {
			sp = c.SPMTU
		}
		max := c15MaxPayload(suite, sp)
		n := rapid.IntRange(1, 5).Draw(t, "nsends")
		for i := 0; i < n; i++ {
			sz := rapid.OneOf(rapid.IntRange(0, max), rapid.IntRange(max-2, max+2), rapid.IntRange(0, 4*max), rapid.SampledFrom([]int{2 * max, 3 * max, 16384, 16385})).Draw(t, "size")
			if sz < 0 {
				sz = 0
			}
			if sz > 60000 {
				sz = 60000
			}
			if sz > 60*max {
				sz = 60 * max
			}
			c.Sends = append(c.Sends, c15Send{Size: sz, WriteTo: sz <= max && rapid.Bool().Draw(t, "writeto")})
		}
		check(c, func(sig, msg string) { rec.Fail(t, sig, c, "%s", msg) })
	})
	for _, k := range []string{"F9", "K3", "F17"} {
		if !vfKnown(k) {
			continue
		}
		var c c15Case
		switch k {
		case "F9":
			c = c15Case{Suite: ECC_SM4_CBC_SM3, Sends: []c15Send{{Size: 1339, WriteTo: true}}}
		case "K3":
			c = c15Case{Suite: ECC_SM4_GCM_SM3, CPMTU: 200, SPMTU: 200, Sends: []c15Send{{Size: 10, WriteTo: true}}}
		case "F17":
			c = c15Case{Suite: ECC_SM4_GCM_SM3, Sends: []c15Send{{Size: 0, WriteTo: true}}}
		}
		sig, _, _ := c15Run(c)
		rec.Known(k, sig != "")
	}
}

// ---------------------------------------------------------------------------- C17c

type c17GridCase struct {
	Suite        uint16 `json:"suite"`
	CPMTU, SPMTU int
	ClientAuth   bool `json:"auth"`
	// Lose: one handshake datagram is lost or duplicated (the same fault is applied to a run with the
	// default path MTU: the outcome must not differ)
	Lose *vfFault `json:"lose,omitempty"`
}

func c17GridRun(c c17GridCase) (sig, msg, known string) {
	if c.Lose != nil && (c.CPMTU != 0 || c.SPMTU != 0) {
		d := c
		d.CPMTU, d.SPMTU = 0, 0
		if s, _, _ := c17GridRun(d); s != "" {
			return "", "", "default-fails-too" // not a matter of the path MTU
		}
	}
	p := vfGetPKI()
	ccfg, scfg := vfBaseConfigs(c.Suite, c.ClientAuth)
	ccfg.PMTU, scfg.PMTU = c.CPMTU, c.SPMTU
	ccfg.NextProtos, scfg.NextProtos = []string{"h2"}, []string{"h2"}
	cc, sc := vfNewCapCache(4), vfNewCapCache(4)
	ccfg.SessionCache, scfg.SessionCache = cc, sc
	var faults []vfFault
	if c.Lose != nil {
		faults = []vfFault{*c.Lose}
	}
	r := vfRunPair(ccfg, scfg, vfPairOpt{Faults: faults,
		// the fault touches the hello exchange only (ClientHello, HelloVerifyRequest and their
		// retransmissions): a loss there is recovered at the default path MTU, while a partial loss of a later
		// flight is the listed finding F11 of C19 at any path MTU
		Prepare: func(sim *vfDSim, _, _ *Conn) {
			sim.faultable = func(d []byte) bool {
				ct := c19Content(d)
				if ct == "" {
					return false
				}
				for _, p := range strings.Split(ct, "+") {
					if p != "hs1" && p != "hs3" {
						return false
					}
				}
				return true
			}
		},
		CliAct: func(cn *Conn) error {
			if err := vfSendAll(cn, []byte("ping")); err != nil {
				return err
			}
			_, err := vfRecvN(cn, 4)
			return err
		},
		SrvAct: func(cn *Conn) error {
			b, err := vfRecvN(cn, 4)
			if err != nil {
				return err
			}
			return vfSendAll(cn, b)
		},
	})
	if r.CPanic != "" || r.SPanic != "" {
		return "panic", r.CPanic + r.SPanic, ""
	}
	if r.CErr != nil || r.SErr != nil || r.Stalled {
		return "pmtu-changes-outcome", fmt.Sprintf("handshake with path MTU client=%d server=%d failed (it completes with the default): %v / %v", c.CPMTU, c.SPMTU, r.CErr, r.SErr), ""
	}
	if r.CAct != nil || r.SAct != nil {
		return "pmtu-data", fmt.Sprintf("data exchange failed: %v / %v", r.CAct, r.SAct), ""
	}
	if r.CS.CipherSuite != c.Suite || r.SS.CipherSuite != c.Suite || r.CS.NegotiatedProtocol != "h2" || r.SS.NegotiatedProtocol != "h2" || r.CS.DidResume || r.SS.DidResume {
		return "pmtu-changes-negotiation", "negotiated parameters depend on the path MTU", ""
	}
	if c.Lose != nil {
		return "", "", "" // with retransmissions on the wire the transcript analysis does not apply
	}
	// Finished values on the wire = independent PRF over the unfragmented transcript
	_, s, m := c04Analyze(r, c04Case{Suite: c.Suite}, false, nil, cc, sc, p.SrvEnc.PrivateKey.(*sm2.PrivateKey), nil, nil, nil, c04Opt{SkipApp: true})
	if s != "" {
		return "pmtu-transcript:" + s, fmt.Sprintf("path MTU client=%d server=%d: %s", c.CPMTU, c.SPMTU, m), ""
	}
	return "", "", ""
}

func TestVF_C17_Grid(t *testing.T) {
	rec := vfRec("C17", "C17c-pmtu-grid", "handshakes over a grid of (client path MTU, server path MTU) from the smallest workable value upward, four suites, with and without client authentication, and with one lost or duplicated handshake datagram (outcome compared with the same fault at the default path MTU); oracle: completion, same negotiated parameters, data flows, and the Finished values on the wire equal the independent PRF over the unfragmented transcript; non-trivial = a path MTU that forces fragmentation; distinct = the case")
	idx := 0
	for _, suite := range vfSuites {
		min := c15Smallest(suite)
		if min == 0 {
			continue
		}
		vals := []int{min, min + 1, min + 2, min + 3, min + 5, min + 8, min + 13, 80, 96, 110, 128, 160, 200, 256, 300, 400, 576, 800, 1000, 1200, 1400, 0}
		if vfThorough() {
			for v := min; v < min+40; v++ {
				vals = append(vals, v)
			}
		}
		for i, a := range vals {
			for j, b := range vals {
				if !vfThorough() && (i+j)%3 != 0 && a != b {
					continue
				}
				idx++
				if !vfMine(idx) {
					continue
				}
				c := c17GridCase{Suite: suite, CPMTU: a, SPMTU: b, ClientAuth: (i+j)%2 == 0}
				if (a != 0 && a < min) || (b != 0 && b < min) {
					continue
				}
				sig, msg, _ := c17GridRun(c)
				if sig != "" {
					rec.Violation(sig, c, "%s", msg)
				}
				rec.Eval((a != 0 && a < 1200) || (b != 0 && b < 1200), c, fmt.Sprintf("suite:%04x", suite))
			}
		}
	}
	// one lost or duplicated handshake datagram at path MTUs that fragment the hellos
	for _, suite := range vfSuites {
		min := c15Smallest(suite)
		if min == 0 {
			continue
		}
		for _, v := range []int{min, min + 5, 80, 96, 110, 128, 200} {
			if v < min {
				continue
			}
			for _, ab := range [][2]int{{v, 0}, {v, v}, {0, v}} {
				for dir := 0; dir < 2; dir++ {
					for nth := 0; nth < 4; nth++ {
						for _, kind := range []string{"drop", "dup"} {
							idx++
							if !vfMine(idx) {
								continue
							}
							c := c17GridCase{Suite: suite, CPMTU: ab[0], SPMTU: ab[1], ClientAuth: idx%2 == 0, Lose: &vfFault{Kind: kind, Dir: dir, Nth: nth}}
							sig, msg, known := c17GridRun(c)
							if sig != "" {
								rec.Violation(sig, c, "%s", msg)
							}
							if known != "" {
								rec.Excluded(known)
							}
							rec.Eval(known == "", c, "lose:"+kind)
						}
					}
				}
			}
		}
	}
	rec.SetExhaustive(false, fmt.Sprintf("%d grid points", idx))
	vfRapid(t, rec, "random", vfN(300, 6000), func(t *rapid.T) {
		suite := rapid.SampledFrom(vfSuites).Draw(t, "suite")
		min := c15Smallest(suite)
		c := c17GridCase{Suite: suite, CPMTU: rapid.IntRange(min, 1500).Draw(t, "c"), SPMTU: rapid.IntRange(min, 1500).Draw(t, "s"), ClientAuth: rapid.Bool().Draw(t, "auth")}
		sig, msg, _ := c17GridRun(c)
		if sig != "" {
			rec.Fail(t, sig, c, "%s", msg)
		}
		rec.Eval(c.CPMTU < 1200 || c.SPMTU < 1200, c)
	})
}

func init() {
	vfRegisterReplay("C15-mtu", func(raw json.RawMessage) error {
		var c c15Case
		if err := json.Unmarshal(raw, &c); err != nil {
			return err
		}
		if sig, msg, _ := c15Run(c); sig != "" {
			return fmt.Errorf("%s: %s", sig, msg)
		}
		return nil
	})
	vfRegisterReplay("C17c-pmtu-grid", func(raw json.RawMessage) error {
		var c c17GridCase
		if err := json.Unmarshal(raw, &c); err != nil {
			return err
		}
		if sig, msg, _ := c17GridRun(c); sig != "" {
			return fmt.Errorf("%s: %s", sig, msg)
		}
		return nil
	})
}
