//go:build verif

package vfpkg

//vf:pkgs tlcp dtlcp

// C02c: an impostor on the resumption path. The impostor holds no key and no session: it echoes the
// session identifier the client offers and derives its keys and Finished from a master secret it can
// guess (all zeros, all 0xff, the identifier itself, random). The client's LRU cache is small and has
// been through evictions, so that whatever an eviction leaves behind under the server's address is
// what gets offered. A verifying client must never complete with such a peer.

import (
	"bytes"
	"crypto/rand"
	"encoding/json"
	"fmt"
	"testing"

	"pgregory.net/rapid"
)

type c02ResCase struct {
	Suite   uint16 `json:"suite"`
	Cap     int    `json:"cap"`     // capacity of the client's session cache
	Resume  bool   `json:"resume"`  // one honest resumption with the server first
	Others  int    `json:"others"`  // honest full handshakes with servers at other addresses afterwards
	Guess   string `json:"guess"`   // zero | ff | sid | random
	Verify  bool   `json:"verify"`
}

func c02ResRun(c c02ResCase) (sig, msg string, offered bool) {
	p := vfGetPKI()
	cache := NewLRUSessionCache(c.Cap)
	mkc := func() *Config {
		return &Config{Time: vfTime, RootCAs: p.A.pool, ServerName: vfServerName, InsecureSkipVerify: !c.Verify,
			CipherSuites: []uint16{c.Suite}, SessionCache: cache, Certificates: []Certificate{p.CliSig, p.CliEnc}}
	}
	mks := func() *Config {
		s := &Config{Time: vfTime, Certificates: []Certificate{p.SrvSig, p.SrvEnc}, CipherSuites: []uint16{c.Suite}, SessionCache: NewLRUSessionCache(8)}
		if vfIsECDHE(c.Suite) {
			s.ClientAuth, s.ClientCAs = RequireAndVerifyClientCert, p.A.pool
		}
		return s
	}
	srvX := mks()
	n := 1
	if c.Resume {
		n = 2
	}
	for i := 0; i < n; i++ {
		if r := vfRunPair(mkc(), srvX, vfPairOpt{}); r.CErr != nil || r.SErr != nil {
			return "honest-failed", fmt.Sprintf("honest connection %d with the server: %v / %v", i, r.CErr, r.SErr), false
		}
	}
	for i := 0; i < c.Others; i++ {
		if r := vfRunPair(mkc(), mks(), vfPairOpt{SrvAddr: fmt.Sprintf("10.2.%d.2:2000", i+1)}); r.CErr != nil || r.SErr != nil {
			return "honest-failed", fmt.Sprintf("honest connection with another server: %v / %v", r.CErr, r.SErr), false
		}
	}
	// the impostor answers at the first server's address
	pcfg := &Config{Time: vfTime, Certificates: []Certificate{p.SrvSigB, p.SrvEncB}, CipherSuites: []uint16{c.Suite}}
	var got []byte
	var readErr error
	r := vfRunVsPeer(true, mkc(), pcfg, func(pc *Conn) error {
		sp := vfNewSrvPeer(pc)
		if err := sp.ReadClientHello(); err != nil {
			return err
		}
		sid := sp.ch.sessionId
		if len(sid) == 0 {
			return nil // nothing offered: nothing to impersonate
		}
		offered = true
		if err := sp.PickSuite(c.Suite); err != nil {
			return err
		}
		if err := sp.SendServerHello(vfSHOpt{SessionID: append([]byte(nil), sid...)}); err != nil {
			return err
		}
		var m []byte
		switch c.Guess {
		case "zero":
			m = make([]byte, 48)
		case "ff":
			m = bytes.Repeat([]byte{0xff}, 48)
		case "sid":
			for len(m) < 48 {
				m = append(m, sid...)
			}
			m = m[:48]
		default:
			m = make([]byte, 48)
			rand.Read(m)
		}
		sp.SetMaster(m)
		sp.EstablishKeys()
		sp.SendCCS()
		sp.SendFinished(false)
		sp.ReadClientFinished()
		sp.SendAppData([]byte(c02Data))
		return nil
	}, func(cn *Conn, hsErr error) error {
		buf := make([]byte, 100)
		k, err := cn.Read(buf)
		got, readErr = buf[:k], err
		return nil
	})
	if r.UPanic != "" {
		return "panic", "client panicked: " + r.UPanic, offered
	}
	if r.PPanic != "" {
		return "harness-peer-panic", r.PPanic, offered
	}
	if r.UHung && offered {
		return "hang", "client neither completed nor failed", offered
	}
	if !offered {
		return "", "", false
	}
	if r.UErr == nil {
		return "accepted-impostor:resumption-" + c.Guess, fmt.Sprintf("client (verification %v, cache capacity %d, %d other servers visited) completed a resumed handshake with a peer that echoed the offered session identifier and used the master secret guess %q; it reports DidResume=%v and %d peer certificates", c.Verify, c.Cap, c.Others, c.Guess, r.UState.DidResume, len(r.UState.PeerCertificates)), true
	}
	if r.UState.HandshakeComplete {
		return "complete-flag", "HandshakeComplete reported after a failed handshake", true
	}
	if len(got) != 0 || readErr == nil {
		return "delivered-data", fmt.Sprintf("client Read returned %q, %v after a failed handshake", got, readErr), true
	}
	return "", "", true
}

func TestVF_C02_ResumeImpostor(t *testing.T) {
	rec := vfRec("C02", "C02c-resumption-impostor", "client with an LRU session cache of capacity 1..4 or 64: one honest handshake (optionally one honest resumption) with a server, 0..3 honest handshakes with servers at other addresses (evictions), then a peer at the first address that holds no key, echoes the offered session identifier and derives keys and Finished from a guessed master secret (all zeros, all 0xff, the identifier, random); four suites, verification on and off; oracle: the client never completes and delivers nothing; non-trivial = the client offered a session to the impostor; distinct = the case")
	vfRapid(t, rec, "cases", vfN(80, 2000), func(t *rapid.T) {
		c := c02ResCase{Suite: rapid.SampledFrom(vfSuites).Draw(t, "suite"), Cap: rapid.SampledFrom([]int{1, 2, 3, 3, 4, 64}).Draw(t, "cap"),
			Resume: rapid.Bool().Draw(t, "resume"), Others: rapid.IntRange(0, 3).Draw(t, "others"),
			Guess: rapid.SampledFrom([]string{"zero", "zero", "ff", "sid", "random"}).Draw(t, "guess"), Verify: rapid.IntRange(0, 3).Draw(t, "verify") != 0}
		sig, msg, offered := c02ResRun(c)
		if sig != "" {
			rec.Fail(t, sig, c, "%s", msg)
		}
		rec.Eval(offered, c, "guess:"+c.Guess, fmt.Sprintf("offered:%v", offered))
	})
}

func init() {
	vfRegisterReplay("C02c-resumption-impostor", func(raw json.RawMessage) error {
		var c c02ResCase
		if err := json.Unmarshal(raw, &c); err != nil {
			return err
		}
		if sig, msg, _ := c02ResRun(c); sig != "" {
			return fmt.Errorf("%s: %s", sig, msg)
		}
		return nil
	})
}
