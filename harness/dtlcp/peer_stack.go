//go:build verif

package dtlcp

// Datagram-stack hooks of the scripted peers and the runner "endpoint under test vs peer".

import (
	"net"
	"context"
	"fmt"
	"time"
)

type vfRaw struct {
	typ  uint8
	body []byte
	seq  uint16
}

func (m *vfRaw) marshal() ([]byte, error) {
	n := len(m.body)
	x := []byte{m.typ, byte(n >> 16), byte(n >> 8), byte(n), byte(m.seq >> 8), byte(m.seq), 0, 0, 0, byte(n >> 16), byte(n >> 8), byte(n)}
	return append(x, m.body...), nil
}
func (m *vfRaw) unmarshal([]byte) bool    { return false }
func (m *vfRaw) messageType() uint8       { return m.typ }
func (m *vfRaw) debug()                   {}
func (m *vfRaw) setMessageSeq(seq uint16) { m.seq = seq }
func (m *vfRaw) getMessageSeq() uint16    { return m.seq }

func vfRawMsg(c *Conn, typ uint8, body []byte) handshakeMessage { return &vfRaw{typ: typ, body: body} }

func vfPeerSeq(c *Conn, m handshakeMessage) {
	m.setMessageSeq(c.messageSeq)
	c.messageSeq++
}

// vfPeerReadClientHello reads ClientHello and performs the cookie exchange as an honest server would.
func vfPeerReadClientHello(c *Conn) (*clientHelloMsg, error) {
	ch, err := c.readClientHello(context.Background())
	if err != nil {
		return nil, err
	}
	for i := 0; i < 4; i++ {
		params := ch.marshalForCookie()
		secret := c.effectiveCookieSecret()
		if len(ch.cookie) > 0 && verifyCookie(secret, c.remoteAddr.String(), params, ch.cookie) {
			return ch, nil
		}
		hvr := &helloVerifyRequestMsg{serverVersion: VersionTLCP, cookie: generateCookie(secret, c.remoteAddr.String(), params)}
		vfPeerSeq(c, hvr)
		if _, err := c.writeHandshakeRecord(hvr, nil); err != nil {
			return nil, err
		}
		if _, err := c.flush(); err != nil {
			return nil, err
		}
		msg, err := c.readHandshake(nil)
		if err != nil {
			return nil, err
		}
		var ok bool
		if ch, ok = msg.(*clientHelloMsg); !ok {
			return nil, fmt.Errorf("peer: expected ClientHello, got %T", msg)
		}
	}
	return nil, fmt.Errorf("peer: cookie exchange did not converge")
}

// vfPeerHelloExchange sends the ClientHello, answers HelloVerifyRequest, returns the ServerHello.
func vfPeerHelloExchange(c *Conn, hello *clientHelloMsg, mut func([]byte) []byte) (*serverHelloMsg, error) {
	for i := 0; i < 4; i++ {
		hello.raw = nil
		vfPeerSeq(c, hello)
		var m handshakeMessage = hello
		if mut != nil && len(hello.cookie) > 0 {
			data, err := hello.marshal()
			if err != nil {
				return nil, err
			}
			raw := &vfRaw{typ: typeClientHello, body: mut(append([]byte(nil), data[12:]...)), seq: hello.getMessageSeq()}
			hello.raw, _ = raw.marshal()
			m = raw
		}
		if _, err := c.writeHandshakeRecord(m, nil); err != nil {
			return nil, err
		}
		if _, err := c.flush(); err != nil {
			return nil, err
		}
		msg, err := c.readHandshake(nil)
		if err != nil {
			return nil, err
		}
		switch m := msg.(type) {
		case *helloVerifyRequestMsg:
			hello.cookie = append([]byte(nil), m.cookie...)
			c.handBuf.Reset()
		case *serverHelloMsg:
			return m, nil
		default:
			return nil, fmt.Errorf("peer: expected ServerHello, got %T", msg)
		}
	}
	return nil, fmt.Errorf("peer: no ServerHello after cookie exchange")
}

func vfPeerReadRecord(c *Conn) error {
	c.hsState.Store(int32(stateFinished))
	return c.readRecord()
}

func vfPeerReadApp(c *Conn) ([]byte, error) {
	for len(c.readBuf) == 0 {
		if err := vfPeerReadRecord(c); err != nil {
			return nil, err
		}
	}
	b := c.readBuf
	c.readBuf = nil
	return b, nil
}

type vfVsPeer struct {
	UErr           error
	UAct           error
	PErr           error
	UPanic, PPanic string
	Stalled        bool
	UHung          bool
	Watchdog       bool
	RunErr         error
	U              *Conn
	UState         ConnectionState
	Sim            *vfDSim
}

// vfPeerServerNilAddr: the next vfRunVsPeer server is created without a peer address.
var vfPeerServerNilAddr bool

func vfRunVsPeer(underTestIsClient bool, ucfg, pcfg *Config, peer func(pc *Conn) error, uact func(c *Conn, hsErr error) error) *vfVsPeer {
	sim := vfNewDSim(nil, 0)
	if vfPeerClientAddr != "" {
		sim.ends[0].addr = vfDAddr(vfPeerClientAddr)
	}
	uc, pcf := ucfg.Clone(), pcfg.Clone()
	uc.NewTimer, pcf.NewTimer = sim.newTimer, sim.newTimer
	if g := uc.GetConfigForClient; g != nil {
		// a per-client configuration (possibly one object shared by several connections) runs on this
		// simulation's clock
		uc.GetConfigForClient = func(h *ClientHelloInfo) (*Config, error) {
			c, err := g(h)
			if c != nil {
				c.NewTimer = sim.newTimer
			}
			return c, err
		}
	}
	var u, pc *Conn
	ui, pi := 0, 1
	if underTestIsClient {
		u, pc = Client(sim.ends[0], sim.ends[1].addr, uc), Server(sim.ends[1], sim.ends[0].addr, pcf)
	} else {
		ui, pi = 1, 0
		var peerAddr net.Addr = sim.ends[0].addr
		if vfPeerServerNilAddr {
			peerAddr = nil // the server learns its peer from the first datagram
		}
		u, pc = Server(sim.ends[1], peerAddr, uc), Client(sim.ends[0], sim.ends[1].addr, pcf)
	}
	r := &vfVsPeer{U: u, Sim: sim}
	udone, pdone := make(chan struct{}), make(chan struct{})
	go func() {
		defer close(udone)
		defer sim.ends[ui].markDone()
		r.UPanic = vfRecover(func() {
			r.UErr = u.Handshake()
			if uact != nil {
				r.UAct = uact(u, r.UErr)
			}
		})
	}()
	go func() {
		defer close(pdone)
		defer sim.ends[pi].markDone()
		r.PPanic = vfRecover(func() { r.PErr = peer(pc) })
	}()
	wd := time.AfterFunc(30*time.Second, func() {
		r.Watchdog = true
		sim.ends[0].Close()
		sim.ends[1].Close()
	})
	r.RunErr = sim.run(120 * time.Second)
	wd.Stop()
	if r.RunErr != nil {
		r.Stalled = true
		sim.mu.Lock()
		r.UHung = !sim.ends[ui].done
		sim.mu.Unlock()
		sim.ends[0].Close()
		sim.ends[1].Close()
	}
	<-udone
	<-pdone
	r.UState = u.ConnectionState()
	return r
}

// vfPeerPending reports whether the endpoint under test has sent something the peer has not read
// yet. Virtual time: a read with a 125 ms deadline either gets the datagram (the endpoint under test
// answers without letting virtual time pass) or times out.
func vfPeerPending(pc *Conn) bool {
	if len(pc.rawInputBuf) >= recordHeaderLen || pc.handBuf.Len() > 0 {
		return true
	}
	pc.pconn.SetReadDeadline(time.Now().Add(125 * time.Millisecond))
	err := pc.readDatagram()
	pc.pconn.SetReadDeadline(time.Time{})
	return err == nil
}

// vfPeerTuneConfig: the endpoint under test must not retransmit while the peer polls for output
// in 125 ms steps of virtual time.
func vfPeerTuneConfig(cfg *Config) {
	cfg.InitialRetransmitTimeout = 16 * time.Second
	cfg.MaxRetransmitTimeout = 64 * time.Second
}

// vfConnBuffered: bytes the connection currently buffers on behalf of the peer.
func vfConnBuffered(c *Conn) int {
	n := c.handBuf.Len() + len(c.rawInputBuf)
	for _, fb := range c.pendingFragments {
		n += len(fb.data)
	}
	return n
}

const vfConnBufBound = 2*(65536+12) + 2*(16384+2048+13)

// vfPeerWriteOne writes exactly one record, also for an empty payload.
func vfPeerWriteOne(c *Conn, typ recordType, data []byte) error {
	c.out.Lock()
	defer c.out.Unlock()
	outBuf := make([]byte, recordHeaderLen, recordHeaderLen+len(data)+128)
	c.setWriteSeq()
	vers := c.vers
	if vers == 0 {
		vers = VersionTLCP
	}
	outBuf[0], outBuf[1], outBuf[2] = byte(typ), byte(vers>>8), byte(vers)
	outBuf[3], outBuf[4] = byte(c.writeEpoch>>8), byte(c.writeEpoch)
	outBuf[5], outBuf[6], outBuf[7] = byte(c.writeSeq>>40), byte(c.writeSeq>>32), byte(c.writeSeq>>24)
	outBuf[8], outBuf[9], outBuf[10] = byte(c.writeSeq>>16), byte(c.writeSeq>>8), byte(c.writeSeq)
	outBuf[11], outBuf[12] = byte(len(data)>>8), byte(len(data))
	outBuf, err := c.out.encrypt(outBuf, data, c.config.rand())
	if err != nil {
		return err
	}
	n := len(outBuf) - recordHeaderLen
	outBuf[11], outBuf[12] = byte(n>>8), byte(n)
	c.writeSeq++
	if _, err := c.write(outBuf); err != nil {
		return err
	}
	_, err = c.flush()
	return err
}
