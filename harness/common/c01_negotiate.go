//go:build verif

package vfpkg

//vf:pkgs tlcp dtlcp

// C01: honest handshakes end in agreement on every negotiated parameter.
// Generator: pairs of configuration specs; oracle: c01Model (negotiation written from the
// property statement and the documented Config semantics, not from the library's code).

import (
	"bytes"
	"encoding/json"
	"fmt"
	"testing"

	x509 "github.com/emmansun/gmsm/smx509"
	"pgregory.net/rapid"
)

var c01ALPN = [][]string{nil, {"h2"}, {"http/1.1"}, {"h2", "http/1.1"}, {"http/1.1", "h2"}, {"x"}, {"y", "x"}}

// suite list encodings: index into c01SuiteLists; -1 = nil (library default)
var c01Priority = []uint16{ECC_SM4_GCM_SM3, ECC_SM4_CBC_SM3, ECDHE_SM4_GCM_SM3, ECDHE_SM4_CBC_SM3}

type c01Spec struct {
	CSuites   []uint16 `json:"cs"` // nil = default
	CSuitesNil bool    `json:"csnil"`
	CKeys     int      `json:"ck"`  // number of client key pairs: 0, 1 (sign only), 2
	CKeysCB   bool     `json:"ckcb"` // supplied through GetClientCertificate / GetClientKECertificate
	CIssuer   int      `json:"ci"`  // 0: client certificates issued by root A, 1: by root B
	CVerify   bool     `json:"cv"`
	CName     int      `json:"cn"` // 0 "", 1 matching, 2 mismatching
	CALPN     int      `json:"ca"`
	CCache    bool     `json:"cc"`
	CClone    bool     `json:"ccl"`
	SSuites   []uint16 `json:"ss"`
	SSuitesNil bool    `json:"ssnil"`
	SCert     int      `json:"sc"` // 0 issued by A (trusted by the client), 1 issued by B
	SPolicy   int      `json:"sp"` // ClientAuthType 0..5
	SCAs      int      `json:"sca"` // ClientCAs: 0 nil, 1 root A, 2 root B
	SALPN     int      `json:"sa"`
	SCache    bool     `json:"sch"`
	SMode     int      `json:"sm"` // 0 direct, 1 clone, 2 GetConfigForClient returning a clone
	NConn     int      `json:"n"`
	// CSuites2 (with NConn >= 2): from the second connection on the client uses a clone of its
	// configuration (same session cache) whose suite list is CSuites2
	CSuites2 []uint16 `json:"cs2,omitempty"`
	Sizes     []int    `json:"sz"` // echo payload sizes (client->server, server->client)
}

type c01Expect struct {
	OK       bool
	Reason   string
	Suite    uint16
	ALPN     string
	CliCerts [][]byte // DER the client presents (what the server must report as peer certificates)
	SrvCerts [][]byte
}

func c01Has(l []uint16, x uint16) bool {
	for _, v := range l {
		if v == x {
			return true
		}
	}
	return false
}

func c01Model(s c01Spec) c01Expect {
	p := vfGetPKI()
	var e c01Expect
	cs, ss := s.CSuites, s.SSuites
	if s.CSuitesNil {
		cs = c01Priority
	}
	if s.SSuitesNil {
		ss = c01Priority
	}
	// suite: first in the documented priority order enabled by both, ECDHE only with both client key pairs
	found := false
	for _, id := range c01Priority {
		if !c01Has(cs, id) || !c01Has(ss, id) {
			continue
		}
		if vfIsECDHE(id) && s.CKeys < 2 {
			continue
		}
		e.Suite, found = id, true
		break
	}
	if !found {
		e.Reason = "no-common-suite"
		return e
	}
	// ALPN
	ca, sa := c01ALPN[s.CALPN], c01ALPN[s.SALPN]
	if len(ca) > 0 && len(sa) > 0 {
		sel, fallback := "", false
	outer:
		for _, sp := range sa {
			for _, cp := range ca {
				if sp == cp {
					sel = sp
					break outer
				}
				if sp == "h2" && cp == "http/1.1" {
					fallback = true
				}
			}
		}
		if sel == "" && !fallback {
			e.Reason = "alpn-disjoint"
			return e
		}
		e.ALPN = sel
	}
	// server certificates and the client's verification
	switch s.SCert {
	case 0:
		e.SrvCerts = [][]byte{p.SrvSig.Certificate[0], p.SrvEnc.Certificate[0]}
	case 2:
		// issued by an intermediate CA, which the server sends along behind the two end-entity certificates
		e.SrvCerts = [][]byte{p.ChainSig.Certificate[0], p.ChainEnc.Certificate[0], p.I.cert.Raw}
	default:
		e.SrvCerts = [][]byte{p.SrvSigB.Certificate[0], p.SrvEncB.Certificate[0]}
	}
	if s.CVerify {
		if s.SCert == 1 {
			e.Reason = "server-untrusted"
			return e
		}
		if s.CName == 2 {
			e.Reason = "server-name-mismatch"
			return e
		}
	}
	// client authentication
	ecdhe := vfIsECDHE(e.Suite)
	requested := s.SPolicy >= int(RequestClientCert) || ecdhe
	var sent [][]byte
	if requested {
		sig, enc := p.CliSig, p.CliEnc
		if s.CIssuer == 1 {
			sig, enc = p.CliSigB, p.CliEncB
		}
		// a client offers a certificate only if the server's acceptable-CA list is empty or names its issuer
		// (CertificateRequestInfo.AcceptableCAs); certificates supplied through callbacks are returned unconditionally
		acceptable := s.SCAs == 0 || s.SCAs-1 == s.CIssuer || s.CKeysCB
		if s.CKeys >= 1 && acceptable {
			sent = append(sent, sig.Certificate[0])
		}
		if s.CKeys >= 2 {
			if acceptable {
				sent = append(sent, enc.Certificate[0])
			} else if ecdhe {
				e.Reason = "client-enc-cert-not-acceptable"
				return e
			}
		}
		if ecdhe && len(sent) < 2 {
			e.Reason = "ecdhe-needs-two-client-certs"
			return e
		}
		pol := ClientAuthType(s.SPolicy)
		if len(sent) == 0 && requiresClientCert(pol) {
			e.Reason = "client-cert-required"
			return e
		}
		if pol >= VerifyClientCertIfGiven && len(sent) > 0 {
			// chain must lead to the configured ClientCAs
			if s.SCAs == 0 || s.SCAs-1 != s.CIssuer {
				e.Reason = "client-cert-untrusted"
				return e
			}
		}
	}
	e.CliCerts = sent
	e.OK = true
	return e
}

func c01Configs(s c01Spec) (ccfg, scfg *Config) {
	p := vfGetPKI()
	ccfg = &Config{Time: vfTime, InsecureSkipVerify: !s.CVerify, RootCAs: p.A.pool, NextProtos: c01ALPN[s.CALPN]}
	if !s.CSuitesNil {
		ccfg.CipherSuites = append([]uint16{}, s.CSuites...)
	}
	switch s.CName {
	case 1:
		ccfg.ServerName = vfServerName
	case 2:
		ccfg.ServerName = "wrong.example"
	}
	sig, enc := p.CliSig, p.CliEnc
	if s.CIssuer == 1 {
		sig, enc = p.CliSigB, p.CliEncB
	}
	if s.CKeysCB {
		if s.CKeys >= 1 {
			ccfg.GetClientCertificate = func(*CertificateRequestInfo) (*Certificate, error) { return &sig, nil }
		}
		if s.CKeys >= 2 {
			ccfg.GetClientKECertificate = func(*CertificateRequestInfo) (*Certificate, error) { return &enc, nil }
		}
	} else {
		if s.CKeys >= 1 {
			ccfg.Certificates = append(ccfg.Certificates, sig)
		}
		if s.CKeys >= 2 {
			ccfg.Certificates = append(ccfg.Certificates, enc)
		}
	}
	if s.CCache {
		ccfg.SessionCache = NewLRUSessionCache(8)
	}
	scfg = &Config{Time: vfTime, ClientAuth: ClientAuthType(s.SPolicy), NextProtos: c01ALPN[s.SALPN]}
	if !s.SSuitesNil {
		scfg.CipherSuites = append([]uint16{}, s.SSuites...)
	}
	switch s.SCert {
	case 0:
		scfg.Certificates = []Certificate{p.SrvSig, p.SrvEnc}
	case 2:
		sg := p.ChainSig
		sg.Certificate = [][]byte{p.ChainSig.Certificate[0], p.I.cert.Raw}
		scfg.Certificates = []Certificate{sg, p.ChainEnc}
	default:
		scfg.Certificates = []Certificate{p.SrvSigB, p.SrvEncB}
	}
	switch s.SCAs {
	case 1:
		scfg.ClientCAs = p.A.pool
	case 2:
		scfg.ClientCAs = p.B.pool
	}
	if s.SCache {
		scfg.SessionCache = NewLRUSessionCache(8)
	}
	if s.CClone {
		ccfg = ccfg.Clone()
	}
	switch s.SMode {
	case 1:
		scfg = scfg.Clone()
	case 2:
		inner := scfg.Clone()
		scfg = &Config{Time: vfTime, GetConfigForClient: func(*ClientHelloInfo) (*Config, error) { return inner, nil }}
	}
	return
}

func c01DER(cs []*x509.Certificate) [][]byte {
	var out [][]byte
	for _, c := range cs {
		out = append(out, c.Raw)
	}
	return out
}

func c01SameDER(a, b [][]byte) bool {
	if len(a) != len(b) {
		return false
	}
	for i := range a {
		if !bytes.Equal(a[i], b[i]) {
			return false
		}
	}
	return true
}

func c01Payload(n int, tag byte) []byte {
	b := make([]byte, n)
	for i := range b {
		b[i] = byte(i*31+int(tag)) ^ byte(i>>8)
	}
	return b
}

// c01Run runs the spec's connections; returns "" or (sig, msg) of the first violated clause.
func c01Run(s c01Spec) (sig, msg string, classes []string) {
	exp := c01Model(s)
	ccfg, scfg := c01Configs(s)
	n := s.NConn
	if n < 1 {
		n = 1
	}
	resumedBefore := false
	var prevSuite uint16
	var prevCli [][]byte
	for conn := 0; conn < n; conn++ {
		if conn == 1 && s.CSuites2 != nil {
			ccfg = ccfg.Clone()
			ccfg.CipherSuites = s.CSuites2
			s2 := s
			s2.CSuites, s2.CSuitesNil = s.CSuites2, false
			exp = c01Model(s2)
		}
		sz := [2]int{64, 64}
		if len(s.Sizes) >= 2 {
			sz = [2]int{s.Sizes[0], s.Sizes[1]}
		}
		up, down := c01Payload(sz[0], byte(conn)), c01Payload(sz[1], byte(conn+100))
		r := vfRunPair(ccfg, scfg, vfPairOpt{
			CliAct: func(c *Conn) error {
				if err := vfSendAll(c, up); err != nil {
					return err
				}
				got, err := vfRecvN(c, len(down))
				if err != nil {
					return err
				}
				if !bytes.Equal(got, down) {
					return fmt.Errorf("client read bytes that differ from what the server wrote")
				}
				return nil
			},
			SrvAct: func(c *Conn) error {
				got, err := vfRecvN(c, len(up))
				if err != nil {
					return err
				}
				if !bytes.Equal(got, up) {
					return fmt.Errorf("server read bytes that differ from what the client wrote")
				}
				return vfSendAll(c, down)
			},
		})
		pre := fmt.Sprintf("connection %d: ", conn)
		if r.CPanic != "" || r.SPanic != "" {
			return "panic", pre + "endpoint panicked: " + r.CPanic + r.SPanic, nil
		}
		if r.Stalled {
			return "no-end", pre + fmt.Sprintf("handshake did not end on both sides (cerr=%v serr=%v)", r.CErr, r.SErr), nil
		}
		if (r.CErr == nil) != (r.SErr == nil) {
			return "split-outcome", pre + fmt.Sprintf("one side succeeded and the other failed: client=%v server=%v", r.CErr, r.SErr), nil
		}
		ok := r.CErr == nil
		if ok != exp.OK {
			return "compat-boundary", pre + fmt.Sprintf("model says compatible=%v (%s) but handshake ok=%v (client=%v server=%v)", exp.OK, exp.Reason, ok, r.CErr, r.SErr), nil
		}
		if !ok {
			classes = append(classes, "incompatible:"+exp.Reason)
			// a failed handshake must not report completion
			if r.CS.HandshakeComplete || r.SS.HandshakeComplete {
				return "complete-after-failure", pre + "HandshakeComplete reported after a failed handshake", nil
			}
			continue
		}
		if !r.CS.HandshakeComplete || !r.SS.HandshakeComplete {
			return "not-complete", pre + "Handshake returned nil but HandshakeComplete is false", nil
		}
		if r.CS.Version != VersionTLCP || r.SS.Version != VersionTLCP {
			return "version", pre + fmt.Sprintf("versions %x / %x", r.CS.Version, r.SS.Version), nil
		}
		if r.CS.CipherSuite != r.SS.CipherSuite {
			return "suite-disagree", pre + fmt.Sprintf("client reports suite %x, server %x", r.CS.CipherSuite, r.SS.CipherSuite), nil
		}
		// a session is resumed (with its own suite) when both sides cache and the client still offers that suite
		wantResume := conn > 0 && s.CCache && s.SCache && prevSuite != 0
		if wantResume && conn >= 1 && s.CSuites2 != nil && len(s.CSuites2) > 0 && !c01Has(s.CSuites2, prevSuite) {
			wantResume = false
		}
		wantSuite := exp.Suite
		if wantResume {
			wantSuite = prevSuite
			exp.CliCerts = prevCli // a resumed connection has the peer identity of the original
		}
		prevCli = exp.CliCerts
		if r.CS.CipherSuite != wantSuite {
			return "suite-priority", pre + fmt.Sprintf("negotiated %x, expected %x (documented priority gives %x; session suite %x, resumption expected: %v)", r.CS.CipherSuite, wantSuite, exp.Suite, prevSuite, wantResume), nil
		}
		prevSuite = r.CS.CipherSuite
		if ws, ok := vfServerHelloSuite(r); ok && ws != r.CS.CipherSuite {
			return "suite-wire", pre + fmt.Sprintf("ServerHello on the wire carries %x but endpoints report %x", ws, r.CS.CipherSuite), nil
		}
		if r.CS.NegotiatedProtocol != r.SS.NegotiatedProtocol {
			return "alpn-disagree", pre + fmt.Sprintf("client reports ALPN %q, server %q", r.CS.NegotiatedProtocol, r.SS.NegotiatedProtocol), nil
		}
		if r.CS.NegotiatedProtocol != exp.ALPN {
			return "alpn-model", pre + fmt.Sprintf("ALPN %q, model %q", r.CS.NegotiatedProtocol, exp.ALPN), nil
		}
		if r.CS.DidResume != r.SS.DidResume {
			return "resume-disagree", pre + fmt.Sprintf("DidResume client=%v server=%v", r.CS.DidResume, r.SS.DidResume), nil
		}
		if r.CS.DidResume != wantResume {
			return "resume-model", pre + fmt.Sprintf("DidResume=%v, expected %v", r.CS.DidResume, wantResume), nil
		}
		if !c01SameDER(c01DER(r.CS.PeerCertificates), exp.SrvCerts) {
			return "client-peer-certs", pre + fmt.Sprintf("client's peer certificates (%d) are not what the server presented (%d)", len(r.CS.PeerCertificates), len(exp.SrvCerts)), nil
		}
		if !c01SameDER(c01DER(r.SS.PeerCertificates), exp.CliCerts) {
			return "server-peer-certs", pre + fmt.Sprintf("server's peer certificates (%d) are not what the client presented (%d)", len(r.SS.PeerCertificates), len(exp.CliCerts)), nil
		}
		if r.CAct != nil || r.SAct != nil {
			return "echo", pre + fmt.Sprintf("application data exchange failed: client=%v server=%v", r.CAct, r.SAct), nil
		}
		if r.CS.DidResume {
			resumedBefore = true
			classes = append(classes, "resumed")
		}
		classes = append(classes, fmt.Sprintf("suite:%04x", exp.Suite))
		if len(exp.CliCerts) > 0 {
			classes = append(classes, "client-certs")
		}
	}
	_ = resumedBefore
	if exp.OK {
		classes = append(classes, "compatible")
	}
	return "", "", classes
}

func c01SuiteListGen() *rapid.Generator[[]uint16] {
	return rapid.Custom(func(t *rapid.T) []uint16 {
		mask := rapid.SampledFrom([]int{15, 15, 15, 7, 3, 12, 5, 10, 1, 2, 4, 8, 14, 13, 11, 9, 6, 0}).Draw(t, "mask")
		var l []uint16
		for i, id := range c01Priority {
			if mask&(1<<i) != 0 {
				l = append(l, id)
			}
		}
		if rapid.IntRange(0, 5).Draw(t, "unknown") == 0 {
			l = append(l, 0xe0ff)
		}
		// permutation
		perm := rapid.Permutation(l).Draw(t, "perm")
		return perm
	})
}

func c01SpecGen() *rapid.Generator[c01Spec] {
	return rapid.Custom(func(t *rapid.T) c01Spec {
		s := c01Spec{}
		s.CSuitesNil = rapid.IntRange(0, 3).Draw(t, "csnil") == 0
		if !s.CSuitesNil {
			s.CSuites = c01SuiteListGen().Draw(t, "cs")
		}
		s.SSuitesNil = rapid.IntRange(0, 3).Draw(t, "ssnil") == 0
		if !s.SSuitesNil {
			s.SSuites = c01SuiteListGen().Draw(t, "ss")
		}
		s.CKeys = rapid.SampledFrom([]int{0, 1, 2, 2}).Draw(t, "ck")
		s.CKeysCB = rapid.IntRange(0, 3).Draw(t, "ckcb") == 0
		s.CIssuer = rapid.SampledFrom([]int{0, 0, 0, 1}).Draw(t, "ci")
		s.CVerify = rapid.IntRange(0, 4).Draw(t, "cv") != 0
		s.CName = rapid.SampledFrom([]int{0, 1, 1, 1, 1, 1, 1, 2}).Draw(t, "cn")
		s.CALPN = rapid.SampledFrom([]int{0, 0, 0, 1, 2, 3, 3, 4, 5, 6}).Draw(t, "ca")
		s.CCache = rapid.Bool().Draw(t, "cc")
		s.CClone = rapid.Bool().Draw(t, "ccl")
		s.SCert = rapid.SampledFrom([]int{0, 0, 0, 0, 0, 0, 2, 2, 1}).Draw(t, "sc")
		s.SPolicy = rapid.IntRange(0, 5).Draw(t, "sp")
		s.SCAs = rapid.SampledFrom([]int{0, 1, 1, 2}).Draw(t, "sca")
		s.SALPN = rapid.SampledFrom([]int{0, 0, 0, 1, 2, 3, 3, 4, 5, 6}).Draw(t, "sa")
		s.SCache = rapid.Bool().Draw(t, "sch")
		s.SMode = rapid.IntRange(0, 2).Draw(t, "sm")
		s.NConn = rapid.IntRange(1, 3).Draw(t, "n")
		if s.NConn >= 2 && rapid.IntRange(0, 3).Draw(t, "reconf") == 0 {
			s.CSuites2 = c01SuiteListGen().Draw(t, "cs2")
		}
		max := 40000
		if vfStack == "dtlcp" {
			max = 5000
		}
		s.Sizes = []int{rapid.IntRange(1, max).Draw(t, "up"), rapid.IntRange(1, max).Draw(t, "down")}
		if vfStack == "tlcp" && rapid.IntRange(0, 7).Draw(t, "bulk") == 0 {
			// a bulk transfer: the record size ramp reaches full-size records
			s.Sizes[rapid.IntRange(0, 1).Draw(t, "bulkdir")] = rapid.SampledFrom([]int{131072, 200000, 300000}).Draw(t, "bulksize")
		}
		return s
	})
}

func c01NonTrivial(s c01Spec) bool {
	return !(s.CSuitesNil && s.SSuitesNil && s.CKeys == 0 && s.SPolicy == 0 && s.CALPN == 0 && s.SALPN == 0 && !s.CCache && !s.SCache && !s.CClone && s.SMode == 0 && s.NConn == 1)
}

func TestVF_C01(t *testing.T) {
	rec := vfRec("C01", "C01-negotiate", "pairs of configuration specs (suite subsets and orders incl. unknown ids and nil=default, 0/1/2 client key pairs static or via callbacks, client certificate issuer, verification on/off, server name none/matching/mismatching, 7 ALPN lists per side, session cache on/off, config used directly / via Clone / via GetConfigForClient, six client-auth policies, ClientCAs nil/A/B, server certificates issued by the trusted root, by an intermediate CA sent along, or by an untrusted root, 1-3 consecutive connections (optionally with the client's suite list changed from the second one on), echo sizes up to 40000 bytes and bulk transfers of 128..300 KB) checked against a negotiation model; non-trivial = anything but the all-default pair; distinct = hash of the spec")
	check := func(s c01Spec, fail func(sig, msg string)) {
		sig, msg, classes := c01Run(s)
		if sig != "" {
			fail(sig, msg)
			return
		}
		rec.Eval(c01NonTrivial(s), s, classes...)
	}
	// thorough: exhaustive product over the dimensions that decide the suite and client authentication
	if vfThorough() {
		idx := 0
		for cm := 0; cm < 16; cm++ {
			for sm := 0; sm < 16; sm++ {
				for ck := 0; ck <= 2; ck++ {
					for pol := 0; pol <= 5; pol++ {
						for cas := 0; cas <= 2; cas++ {
							idx++
							if !vfMine(idx) {
								continue
							}
							s := c01Spec{CKeys: ck, SPolicy: pol, SCAs: cas, CVerify: true, CName: 1, NConn: 2, CCache: true, SCache: true, Sizes: []int{100, 100}}
							for i, id := range c01Priority {
								if cm&(1<<i) != 0 {
									s.CSuites = append(s.CSuites, id)
								}
								if sm&(1<<i) != 0 {
									s.SSuites = append(s.SSuites, id)
								}
							}
							check(s, func(sig, msg string) { rec.Violation(sig, s, "%s", msg) })
						}
					}
				}
			}
		}
		rec.SetExhaustive(false, "exhaustive product suite-subset(16) x suite-subset(16) x client keys(3) x policy(6) x ClientCAs(3) = 13824 specs x 2 connections, plus random specs over all dimensions")
	}
	vfRapid(t, rec, "pairs", vfN(4000, 60000), func(t *rapid.T) {
		s := c01SpecGen().Draw(t, "spec")
		check(s, func(sig, msg string) { rec.Fail(t, sig, s, "%s", msg) })
	})
}

func init() {
	vfRegisterReplay("C01-negotiate", func(raw json.RawMessage) error {
		var s c01Spec
		if err := json.Unmarshal(raw, &s); err != nil {
			return err
		}
		if sig, msg, _ := c01Run(s); sig != "" {
			return fmt.Errorf("%s: %s", sig, msg)
		}
		return nil
	})
}
