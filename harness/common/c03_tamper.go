//go:build verif

package vfpkg

//vf:pkgs tlcp dtlcp

// C03: tampering with a handshake never yields two completed endpoints that differ.
// A scripted man-in-the-middle applies one edit, addressed on-line as (direction, record index,
// offset within that record as seen now); the stack-specific part (how an edit is applied to a
// byte stream / to datagrams) is c03Apply in the package directory.

import (
	"bytes"
	"encoding/json"
	"fmt"
	"testing"

	"github.com/emmansun/gmsm/sm2"
	"pgregory.net/rapid"
)

type c03Scenario struct {
	Suite      uint16 `json:"suite"`
	Resumed    bool   `json:"resumed"`
	ClientAuth bool   `json:"auth"`
	PMTU       int    `json:"pmtu,omitempty"` // datagram stack: path MTU of both sides (handshake messages get fragmented)
}

type c03Edit struct {
	Kind string `json:"k"` // flip, drop, dup, swap, trunc, inject, addext (Off: 0 append / 1 prepend an unknown extension to a hello, lengths fixed up), (dtlcp) ddrop, ddup, ddelay, dtrunc
	Dir  int    `json:"d"`
	Rec  int    `json:"r"` // record index within the direction (datagram index for d* kinds)
	Off  int    `json:"o"`
	Mask byte   `json:"m"`
	Inj  string `json:"inj,omitempty"` // inject: warn, fatal, ccs, emptyhs, garbage, app
}

type c03Case struct {
	Sc   c03Scenario `json:"sc"`
	Edit c03Edit     `json:"edit"`
}

type c03World struct {
	ccfg, scfg *Config
	cc, sc     *vfCapCache
	prev       *c04Conv
}

// c03Prepare builds the configurations of a scenario and, for a resumed scenario, performs the
// honest original connection.
func c03Prepare(sc c03Scenario) (*c03World, string) {
	p := vfGetPKI()
	w := &c03World{cc: vfNewCapCache(8), sc: vfNewCapCache(8)}
	w.ccfg, w.scfg = vfBaseConfigs(sc.Suite, sc.ClientAuth)
	// the client offers every suite (it holds both key pairs) so that a downgrade is possible in principle
	w.ccfg.CipherSuites = nil
	w.ccfg.Certificates = []Certificate{p.CliSig, p.CliEnc}
	w.ccfg.NextProtos = []string{"h2", "http/1.1"}
	w.scfg.NextProtos = []string{"h2"}
	w.ccfg.SessionCache, w.scfg.SessionCache = w.cc, w.sc
	if sc.PMTU > 0 {
		c03SetPMTU(w.ccfg, sc.PMTU)
		c03SetPMTU(w.scfg, sc.PMTU)
	}
	if sc.Resumed {
		r := vfRunPair(w.ccfg, w.scfg, vfPairOpt{})
		if r.CErr != nil || r.SErr != nil || r.Stalled {
			return nil, fmt.Sprintf("original connection failed: %v / %v", r.CErr, r.SErr)
		}
		conv, sig, msg := c04Analyze(r, c04Case{Suite: sc.Suite}, false, nil, w.cc, w.sc, p.SrvEnc.PrivateKey.(*sm2.PrivateKey), nil, nil, nil, c04Opt{SkipApp: true})
		if sig != "" {
			return nil, "original connection: " + sig + ": " + msg
		}
		w.prev = conv
	}
	return w, ""
}

type c03Result struct {
	applied  bool
	bothDone bool
	outcome  string
}

// c03Exec runs one tampered handshake and applies the oracle.
func c03Exec(c c03Case) (res c03Result, sig, msg string) {
	p := vfGetPKI()
	w, perr := c03Prepare(c.Sc)
	if perr != "" {
		return res, "honest-failed", perr
	}
	var opt vfPairOpt
	applied := false
	c03Apply(&opt, c.Edit, &applied)
	r := vfRunPair(w.ccfg, w.scfg, opt)
	res.applied = applied
	if r.CPanic != "" || r.SPanic != "" {
		return res, "panic", "endpoint panicked under tampering: " + r.CPanic + r.SPanic
	}
	cok, sok := r.CErr == nil, r.SErr == nil
	switch {
	case cok && sok:
		res.outcome = "both"
	case cok:
		res.outcome = "client-only"
	case sok:
		res.outcome = "server-only"
	default:
		res.outcome = "none"
	}
	if !(cok && sok) {
		// re-framing leaves every handshake message byte for byte what its sender sent (a message may
		// span records): it is not tampering with what the property protects, and the outcome must be
		// the untampered one
		if c.Edit.Kind == "reframe" && applied {
			return res, "reframing-changes-outcome", fmt.Sprintf("handshake record %d of direction %d was split into two records (first part: %d, 5 = half); the handshake byte stream is unchanged, yet client=%v server=%v", c.Edit.Rec, c.Edit.Dir, c.Edit.Off, r.CErr, r.SErr)
		}
		return res, "", ""
	}
	res.bothDone = true
	// identical views
	if r.CS.Version != r.SS.Version || r.CS.Version != VersionTLCP {
		return res, "view-version", fmt.Sprintf("versions %x / %x", r.CS.Version, r.SS.Version)
	}
	if r.CS.CipherSuite != r.SS.CipherSuite {
		return res, "view-suite", fmt.Sprintf("suites %x / %x", r.CS.CipherSuite, r.SS.CipherSuite)
	}
	if r.CS.CipherSuite != c.Sc.Suite {
		return res, "downgrade-suite", fmt.Sprintf("negotiated %x, untampered handshake negotiates %x", r.CS.CipherSuite, c.Sc.Suite)
	}
	if r.CS.NegotiatedProtocol != r.SS.NegotiatedProtocol || r.CS.NegotiatedProtocol != "h2" {
		return res, "view-alpn", fmt.Sprintf("ALPN %q / %q, untampered negotiates h2", r.CS.NegotiatedProtocol, r.SS.NegotiatedProtocol)
	}
	if r.CS.DidResume != r.SS.DidResume || r.CS.DidResume != c.Sc.Resumed {
		return res, "view-resume", fmt.Sprintf("DidResume %v / %v, untampered %v", r.CS.DidResume, r.SS.DidResume, c.Sc.Resumed)
	}
	if !c01SameDER(c01DER(r.CS.PeerCertificates), [][]byte{p.SrvSig.Certificate[0], p.SrvEnc.Certificate[0]}) {
		return res, "view-server-certs", "client's peer certificates are not the server's"
	}
	var wantCli [][]byte
	if c.Sc.ClientAuth || vfIsECDHE(c.Sc.Suite) {
		wantCli = [][]byte{p.CliSig.Certificate[0], p.CliEnc.Certificate[0]}
	}
	if !c01SameDER(c01DER(r.SS.PeerCertificates), wantCli) {
		return res, "view-client-certs", fmt.Sprintf("server's peer certificates (%d) are not what the untampered client presents (%d)", len(r.SS.PeerCertificates), len(wantCli))
	}
	var zero [12]byte
	for i := 0; i < 2; i++ {
		if r.CFin[i] != zero && r.SFin[i] != zero && r.CFin[i] != r.SFin[i] {
			return res, "view-finished", fmt.Sprintf("Finished value %d differs between the endpoints", i)
		}
	}
	// byte-for-byte clause, decided with the independent PRF: the Finished values the endpoints hold
	// must be the PRF over the handshake messages as their senders sent them (taps before the MITM)
	var lastSig, lastMsg string
	okRef := false
	for back := 0; back < 4; back++ {
		_, s, m := c04Analyze(r, c04Case{Suite: c.Sc.Suite}, c.Sc.Resumed, w.prev, w.cc, w.sc, p.SrvEnc.PrivateKey.(*sm2.PrivateKey), nil, nil, nil, c04Opt{SkipApp: true, CHBack: back})
		if s == "" {
			okRef = true
			break
		}
		if back == 0 || (s != "ref-parse") {
			lastSig, lastMsg = s, m
		}
		if vfStack == "tlcp" || s == "ref-parse" {
			break
		}
	}
	if !okRef {
		return res, "accepted-differs-from-sent:" + lastSig, "both endpoints completed but the conversation is not the one the senders sent: " + lastMsg
	}
	if d := c03StackCheck(r); d != "" {
		return res, "accepted-modified-handshake", d
	}
	return res, "", ""
}


// c03AddExt inserts an unknown extension into a ClientHello / ServerHello that fills one cleartext
// record, fixing up the extension-block, handshake (and fragment) and record lengths: a
// structure-aware edit that leaves every field the receiver parses unchanged. ok is false when the
// record does not hold a whole hello.
func c03AddExt(rec []byte, prepend bool) (out []byte, ok bool) {
	if len(rec) < vfRecHdrLen+vfHSHdrLen+35 || rec[0] != 22 {
		return rec, false
	}
	if vfRecHdrLen == 13 && (rec[3] != 0 || rec[4] != 0) {
		return rec, false // protected
	}
	hs := rec[vfRecHdrLen:]
	typ := hs[0]
	if typ != 1 && typ != 2 {
		return rec, false
	}
	blen := int(hs[1])<<16 | int(hs[2])<<8 | int(hs[3])
	if vfHSHdrLen+blen != len(hs) {
		return rec, false
	}
	body := hs[vfHSHdrLen:]
	p := 2 + 32
	if p >= len(body) {
		return rec, false
	}
	p += 1 + int(body[p]) // session id
	if typ == 1 {
		if vfRecHdrLen == 13 {
			if p >= len(body) {
				return rec, false
			}
			p += 1 + int(body[p]) // cookie
		}
		if p+2 > len(body) {
			return rec, false
		}
		p += 2 + (int(body[p])<<8 | int(body[p+1])) // suites
		if p >= len(body) {
			return rec, false
		}
		p += 1 + int(body[p]) // compression methods
	} else {
		p += 2 + 1
	}
	if p > len(body) {
		return rec, false
	}
	var exts []byte
	if p < len(body) {
		if p+2 > len(body) {
			return rec, false
		}
		n := int(body[p])<<8 | int(body[p+1])
		if p+2+n != len(body) {
			return rec, false
		}
		exts = body[p+2:]
	}
	ext := []byte{0xfe, 0x42, 0, 3, 'v', 'f', '!'}
	var ne []byte
	if prepend {
		ne = append(append(ne, ext...), exts...)
	} else {
		ne = append(append(ne, exts...), ext...)
	}
	nb := append([]byte(nil), body[:p]...)
	nb = append(nb, byte(len(ne)>>8), byte(len(ne)))
	nb = append(nb, ne...)
	nh := append([]byte(nil), hs[:vfHSHdrLen]...)
	nh[1], nh[2], nh[3] = byte(len(nb)>>16), byte(len(nb)>>8), byte(len(nb))
	if vfHSHdrLen == 12 {
		nh[9], nh[10], nh[11] = nh[1], nh[2], nh[3]
	}
	out = append([]byte(nil), rec[:vfRecHdrLen]...)
	pl := len(nh) + len(nb)
	out[vfRecHdrLen-2], out[vfRecHdrLen-1] = byte(pl>>8), byte(pl)
	out = append(append(out, nh...), nb...)
	return out, true
}

func c03Scenarios() []c03Scenario {
	var out []c03Scenario
	if vfStack == "dtlcp" {
		// fragmented handshakes
		out = append(out, c03Scenario{Suite: ECC_SM4_GCM_SM3, PMTU: 400}, c03Scenario{Suite: ECDHE_SM4_CBC_SM3, ClientAuth: true, PMTU: 300},
			c03Scenario{Suite: ECC_SM4_CBC_SM3, Resumed: true, PMTU: 120})
	}
	for _, resumed := range []bool{false, true} {
		for _, s := range vfSuites {
			out = append(out, c03Scenario{Suite: s, Resumed: resumed, ClientAuth: vfIsECDHE(s)})
			if !vfIsECDHE(s) {
				out = append(out, c03Scenario{Suite: s, Resumed: resumed, ClientAuth: true})
			}
		}
	}
	return out
}

var c03Injections = []string{"warn", "fatal", "ccs", "emptyhs", "garbage", "app"}

func c03InjectBody(kind string) (typ byte, body []byte) {
	switch kind {
	case "warn":
		return 21, []byte{1, 90}
	case "fatal":
		return 21, []byte{2, 40}
	case "ccs":
		return 20, []byte{1}
	case "emptyhs":
		return 22, nil
	case "garbage":
		return 22, bytes.Repeat([]byte{0xA5}, 32)
	default:
		return 23, []byte("hello")
	}
}

func TestVF_C03(t *testing.T) {
	rec := vfRec("C03", "C03-tamper", "one man-in-the-middle edit per handshake, addressed on-line as (direction, record, offset): flip of every byte of every record x masks 01,80,FF, drop / duplicate / adjacent swap of records, truncation at record boundaries and inside records, injection of 6 record kinds before each record, an unknown extension appended / prepended to each hello with all lengths fixed up, (stream stack) each handshake record re-framed into two with the first carrying 1..4 bytes or half (datagram stack: also datagram drop / duplicate / delay / truncation); scenarios {full,resumed} x 4 suites x client auth; oracle: both endpoints complete only with identical views equal to the untampered negotiation and Finished values that an independent PRF reproduces from the messages as sent; non-trivial = edit applied; distinct = (scenario, edit)")
	scs := c03Scenarios()
	masks := []byte{0x01, 0x80, 0xFF}
	idx := 0
	run := func(c c03Case, fail func(sig, msg string)) {
		res, sig, msg := c03Exec(c)
		if sig != "" {
			fail(sig, msg)
			return
		}
		rec.Eval(res.applied, c, "outcome:"+res.outcome, "edit:"+c.Edit.Kind, fmt.Sprintf("outcome:%s:%s", c.Edit.Kind, res.outcome))
	}
	viol := func(c c03Case) func(string, string) {
		return func(sig, msg string) { rec.Violation(sig, c, "%s", msg) }
	}
	for si, sc := range scs {
		// quick tier: a third of the scenarios get the enumerated sweep (rotating with the seed); the
		// others only the structure-aware edits and the flips of every record's header and first payload byte
		light := !vfThorough() && (si+vfSeed())%3 != 0 && sc.PMTU == 0
		// baseline: learn the record layout of this scenario
		w, perr := c03Prepare(sc)
		if perr != "" {
			rec.Violation("honest-failed", sc, "%s", perr)
			continue
		}
		base := vfRunPair(w.ccfg, w.scfg, vfPairOpt{})
		if base.CErr != nil || base.SErr != nil {
			rec.Violation("honest-failed", sc, "baseline failed: %v / %v", base.CErr, base.SErr)
			continue
		}
		for dir := 0; dir < 2; dir++ {
			lens := c03RecordLens(base, dir)
			for ri, rl := range lens {
				structural := []c03Edit{{Kind: "drop", Dir: dir, Rec: ri}, {Kind: "dup", Dir: dir, Rec: ri}, {Kind: "swap", Dir: dir, Rec: ri}, {Kind: "trunc", Dir: dir, Rec: ri, Off: 0}, {Kind: "trunc", Dir: dir, Rec: ri, Off: rl / 2}}
				for _, inj := range c03Injections {
					structural = append(structural, c03Edit{Kind: "inject", Dir: dir, Rec: ri, Inj: inj})
				}
				structural = append(structural, c03StackEdits(base, dir, ri)...)
				if light {
					structural = c03StackEdits(base, dir, ri)
					if vfStack == "dtlcp" {
						structural = nil
					}
				}
				if ri < 3 {
					structural = append(structural, c03Edit{Kind: "addext", Dir: dir, Rec: ri, Off: 0}, c03Edit{Kind: "addext", Dir: dir, Rec: ri, Off: 1})
				}
				for _, e := range structural {
					idx++
					if vfMine(idx) {
						c := c03Case{Sc: sc, Edit: e}
						run(c, viol(c))
					}
				}
				for off := 0; off < rl+2; off++ {
					// quick tier: all header bytes and the first bytes of every record, a stride elsewhere
					if !vfThorough() && off > vfRecHdrLen+vfHSHdrLen+8 && (off+ri)%11 != 0 && !(ri == 0 && off < 160) {
						continue
					}
					if light && off > vfRecHdrLen {
						continue
					}
					ms := masks
					if ri == 0 || vfThorough() {
						// the hellos carry the negotiated parameters: also the masks that turn one
						// suite identifier into another (e053^e013=40, e053^e051=02, e053^e011=42)
						ms = append(append([]byte(nil), masks...), 0x40, 0x02, 0x42)
					}
					for _, m := range ms {
						idx++
						if vfMine(idx) {
							c := c03Case{Sc: sc, Edit: c03Edit{Kind: "flip", Dir: dir, Rec: ri, Off: off, Mask: m}}
							run(c, viol(c))
						}
					}
				}
			}
		}
	}
	rec.SetExhaustive(vfThorough(), fmt.Sprintf("%d enumerated edits (thorough: every byte x 3 masks on all %d scenarios; quick: strided sweep on a third of the scenarios, header and first payload byte of every record plus the hello edits on all of them)", idx, len(scs)))
	vfRapid(t, rec, "random", vfN(1500, 40000), func(t *rapid.T) {
		sc := rapid.SampledFrom(scs).Draw(t, "sc")
		e := c03Edit{Dir: rapid.IntRange(0, 1).Draw(t, "dir"), Rec: rapid.IntRange(0, 9).Draw(t, "rec")}
		e.Kind = rapid.SampledFrom(append([]string{"flip", "flip", "flip", "drop", "dup", "swap", "trunc", "inject", "addext"}, c03StackKinds...)).Draw(t, "kind")
		switch e.Kind {
		case "flip":
			e.Off = rapid.IntRange(0, 700).Draw(t, "off")
			e.Mask = byte(rapid.IntRange(1, 255).Draw(t, "mask"))
		case "trunc", "dtrunc":
			e.Off = rapid.IntRange(0, 400).Draw(t, "off")
		case "inject":
			e.Inj = rapid.SampledFrom(c03Injections).Draw(t, "inj")
		case "addext":
			e.Rec = rapid.IntRange(0, 2).Draw(t, "helloRec")
			e.Off = rapid.IntRange(0, 1).Draw(t, "prepend")
		case "reframe":
			e.Off = rapid.IntRange(1, 5).Draw(t, "first")
		}
		c := c03Case{Sc: sc, Edit: e}
		run(c, func(sig, msg string) { rec.Fail(t, sig, c, "%s", msg) })
	})
}

func init() {
	vfRegisterReplay("C03-tamper", func(raw json.RawMessage) error {
		var c c03Case
		if err := json.Unmarshal(raw, &c); err != nil {
			return err
		}
		if _, sig, msg := c03Exec(c); sig != "" {
			return fmt.Errorf("%s: %s", sig, msg)
		}
		return nil
	})
}
