//go:build verif

package tlcp

// C06: the protected stream is delivered exactly, in order, within record size limits.

import (
	"time"
	"sync/atomic"
	"bytes"
	"encoding/json"
	"errors"
	"fmt"
	"io"
	"testing"

	"pgregory.net/rapid"
)

type c06Case struct {
	Suite     uint16 `json:"suite"`
	NoDynamic bool   `json:"nodyn"`
	Dir       int    `json:"dir"` // 0: client sends, 1: server sends
	Writes    []int  `json:"writes"`
	Seg       int    `json:"seg"`  // receiver transport segmentation: 0 whole, 1 one byte, 2 cycling small, 3 MSS-like 1208
	SegCycle  []int  `json:"segc"` // for Seg==2
	Bufs      []int  `json:"bufs"` // receiver read buffer sizes, cycled
	Close     int    `json:"close"` // 0 none, 1 Close after the last write, 2 CloseWrite
	Resumed   bool   `json:"resumed,omitempty"` // the measured connection resumes a session of an earlier one
	// EOFData (with Close == 1): the receiver starts reading only when the sender has written and closed, and
	// the transport reports io.EOF together with the last bytes it hands over
	EOFData bool `json:"eofdata,omitempty"`
	// Pre > 0: before Writes, Pre writes of PreSize bytes each (a chatty connection: more than a thousand
	// records while little has been sent)
	Pre     int `json:"pre,omitempty"`
	PreSize int `json:"presize,omitempty"`
	// Reply > 0 (with Close == 2): after CloseWrite the sender keeps reading; the receiver, having seen
	// the end of the stream, answers with Reply bytes and closes: the sender must read exactly those
	Reply int `json:"reply,omitempty"`
	// EarlyAt k > 0: the first write is issued by a second goroutine at the moment the sender's k-th
	// transport write of the handshake begins (that transport write is held for 3 ms); the remaining
	// writes follow when it has returned. The bytes must still arrive, in order.
	EarlyAt int `json:"earlyat,omitempty"`
}

// refKeysOfPair derives the record keys of a completed conversation from the tapped hellos and
// the master secret stored in a harness-supplied session cache (taken as given here; C04 checks it).
func refKeysOfPair(r *vfPair, cache *vfCapCache) (refKeys, error) {
	a, _ := r.Sim.snapshot(0)
	b, _ := r.Sim.snapshot(1)
	return refKeysOfTaps(a, b, cache)
}

// refKeysOfTaps is refKeysOfPair on raw captured byte streams (usable while the conversation runs).
func refKeysOfTaps(c2s, s2c []byte, cache *vfCapCache) (refKeys, error) {
	cm, sm := vfPlainHandshake(vfFrameStream(c2s)), vfPlainHandshake(vfFrameStream(s2c))
	var ch, sh *vfHSMsg
	for i := range cm {
		if cm[i].Typ == hsClientHello {
			ch = &cm[i]
		}
	}
	for i := range sm {
		if sm[i].Typ == hsServerHello && sh == nil {
			sh = &sm[i]
		}
	}
	if ch == nil || sh == nil {
		return refKeys{}, errors.New("hellos not found on the wire")
	}
	cr, _, _, ok1 := c04Hello(ch.Body)
	sr, sid, rest, ok2 := c04Hello(sh.Body)
	if !ok1 || !ok2 || len(rest) < 2 {
		return refKeys{}, errors.New("hello too short")
	}
	master := cache.masterFor(sid)
	if master == nil {
		return refKeys{}, errors.New("session not in cache")
	}
	suite := uint16(rest[0])<<8 | uint16(rest[1])
	return refKeyBlock(master, cr, sr, vfIsGCM(suite)), nil
}

func c06Run(c c06Case) (sig, msg string) {
	ccfg, scfg := vfBaseConfigs(c.Suite, false)
	cc := vfNewCapCache(4)
	ccfg.SessionCache, scfg.SessionCache = cc, vfNewCapCache(4)
	ccfg.DynamicRecordSizingDisabled, scfg.DynamicRecordSizingDisabled = c.NoDynamic, c.NoDynamic
	if c.Resumed {
		if r0 := vfRunPair(ccfg, scfg, vfPairOpt{}); r0.CErr != nil || r0.SErr != nil {
			return "honest-failed", fmt.Sprintf("priming handshake failed: %v / %v", r0.CErr, r0.SErr)
		}
	}
	if c.Pre > 0 {
		w := make([]int, c.Pre, c.Pre+len(c.Writes))
		for i := range w {
			w[i] = c.PreSize
		}
		c.Writes = append(w, c.Writes...)
	}
	var all []byte
	for i, n := range c.Writes {
		all = append(all, c01Payload(n, byte(i))...)
	}
	reply := c01Payload(c.Reply, 0x5a)
	var replyGot []byte
	var replyErr error
	var got []byte
	var recvErr, sendErr error
	sawEOF := false
	sendDone := make(chan struct{})
	var hsReturned int32
	earlyDone := make(chan struct{})
	earlyStarted := false
	var earlyN int
	var earlyErr error
	send := func(cn *Conn) error {
		defer close(sendDone)
		atomic.StoreInt32(&hsReturned, 1)
		off := 0
		for i, n := range c.Writes {
			if i == 0 && c.EarlyAt > 0 {
				// the first write belongs to the early writer (if it was started)
				if earlyStarted {
					<-earlyDone
					if earlyErr != nil || earlyN != n {
						sendErr = fmt.Errorf("write 0 of %d bytes, issued while the handshake was finishing, returned (%d, %v)", n, earlyN, earlyErr)
						return sendErr
					}
					off += n
					continue
				}
			}
			m, err := cn.Write(all[off : off+n])
			if err != nil || m != n {
				sendErr = fmt.Errorf("write %d of %d bytes returned (%d, %v)", i, n, m, err)
				return sendErr
			}
			off += n
		}
		switch c.Close {
		case 1:
			if err := cn.Close(); err != nil {
				sendErr = fmt.Errorf("Close: %v", err)
			}
		case 2:
			if err := cn.CloseWrite(); err != nil {
				sendErr = fmt.Errorf("CloseWrite: %v", err)
			}
			if c.Reply > 0 && sendErr == nil {
				buf := make([]byte, 777)
				for {
					n, err := cn.Read(buf)
					replyGot = append(replyGot, buf[:n]...)
					if err == io.EOF {
						break
					}
					if err != nil {
						replyErr = fmt.Errorf("after CloseWrite, reading the peer's answer failed after %d of %d bytes: %v", len(replyGot), len(reply), err)
						break
					}
					if n == 0 || len(replyGot) > len(reply) {
						replyErr = fmt.Errorf("after CloseWrite, reading the peer's answer: read returned %d bytes, %d of %d so far", n, len(replyGot), len(reply))
						break
					}
				}
			}
		}
		return sendErr
	}
	recv := func(cn *Conn) error {
		if c.EOFData && c.Close == 1 {
			<-sendDone
		}
		i := 0
		for {
			if c.Close == 0 && len(got) >= len(all) {
				return nil
			}
			bs := 4096
			if len(c.Bufs) > 0 {
				bs = c.Bufs[i%len(c.Bufs)]
			}
			i++
			buf := make([]byte, bs)
			n, err := cn.Read(buf)
			got = append(got, buf[:n]...)
			if err == io.EOF {
				sawEOF = true
				if c.Reply > 0 && c.Close == 2 {
					for off := 0; off < len(reply); {
						k := 1 + (off*7+13)%5000
						if off+k > len(reply) {
							k = len(reply) - off
						}
						if _, werr := cn.Write(reply[off : off+k]); werr != nil {
							recvErr = fmt.Errorf("answering after the peer's CloseWrite: %v", werr)
							return recvErr
						}
						off += k
					}
					cn.Close()
				}
				return nil
			}
			if err != nil {
				recvErr = fmt.Errorf("read %d failed after %d bytes: %v", i, len(got), err)
				return recvErr
			}
			if n == 0 {
				recvErr = fmt.Errorf("read %d returned (0, nil)", i)
				return recvErr
			}
			if len(got) > len(all)+10 {
				recvErr = errors.New("more bytes delivered than written")
				return recvErr
			}
		}
	}
	opt := vfPairOpt{}
	recvEnd := 1 - c.Dir
	eofData := c.EOFData && c.Close == 1
	if eofData || c.EarlyAt > 0 {
		opt.Prepare = func(sim *vfStream, cli, srv *Conn) {
			if eofData {
				sim.ends[recvEnd].eofWithData = true
			}
			if c.EarlyAt > 0 && len(c.Writes) > 0 {
				sender := cli
				if c.Dir == 1 {
					sender = srv
				}
				first := all[:c.Writes[0]]
				sim.ends[c.Dir].onWrite = func(k int) {
					if k+1 != c.EarlyAt || atomic.LoadInt32(&hsReturned) != 0 || earlyStarted {
						return
					}
					earlyStarted = true
					go func() {
						defer close(earlyDone)
						earlyN, earlyErr = sender.Write(first)
					}()
					time.Sleep(3 * time.Millisecond)
				}
			}
		}
	}
	k := 0
	switch c.Seg {
	case 1:
		opt.Seg[recvEnd] = func(int) int { return 1 }
	case 2:
		opt.Seg[recvEnd] = func(int) int { k++; return c.SegCycle[k%len(c.SegCycle)] }
	case 3:
		opt.Seg[recvEnd] = func(int) int { return 1208 }
	}
	if c.Dir == 0 {
		opt.CliAct, opt.SrvAct = send, recv
	} else {
		opt.CliAct, opt.SrvAct = recv, send
	}
	r := vfRunPair(ccfg, scfg, opt)
	if r.CPanic != "" || r.SPanic != "" {
		return "panic", r.CPanic + r.SPanic
	}
	if r.CErr != nil || r.SErr != nil {
		return "honest-failed", fmt.Sprintf("honest handshake failed: %v / %v", r.CErr, r.SErr)
	}
	if sendErr != nil {
		return "write-result", sendErr.Error()
	}
	if recvErr != nil {
		return "read-error", recvErr.Error()
	}
	if r.Stalled {
		return "bytes-lost", fmt.Sprintf("receiver blocked with %d of %d bytes delivered", len(got), len(all))
	}
	if !bytes.Equal(got, all) {
		n := 0
		for n < len(got) && n < len(all) && got[n] == all[n] {
			n++
		}
		return "stream-differs", fmt.Sprintf("read %d bytes, written %d, first difference at offset %d", len(got), len(all), n)
	}
	if c.Close != 0 && !sawEOF {
		return "no-eof", "sender closed after its last write but the receiver never saw io.EOF"
	}
	if c.Reply > 0 && c.Close == 2 {
		if replyErr != nil {
			return "reply-after-closewrite", replyErr.Error()
		}
		if !bytes.Equal(replyGot, reply) {
			return "reply-after-closewrite", fmt.Sprintf("after CloseWrite the sender read %d bytes of the peer's answer, %d were written", len(replyGot), len(reply))
		}
	}
	// record size limits, from the wire
	keys, err := refKeysOfPair(r, cc)
	if err != nil {
		return "ref-parse", err.Error()
	}
	key, iv, mac := keys.dir(c.Dir == 0)
	var dec []byte
	for _, rec := range vfRecordsOf(r, c.Dir) {
		if len(rec.Frag) > 16384+2048 {
			return "ciphertext-size", fmt.Sprintf("record with %d bytes of ciphertext on the wire", len(rec.Frag))
		}
		if rec.Epoch == 0 {
			continue
		}
		pt, err := refOpen(keys.GCM, key, iv, mac, vfSeqInput(rec), rec.Typ, rec.Ver, rec.Frag)
		if err != nil {
			return "record-open", fmt.Sprintf("sender record seq %d does not open under the reference: %v", rec.Seq, err)
		}
		if len(pt) > 16384 {
			return "plaintext-size", fmt.Sprintf("record carries %d bytes of plaintext", len(pt))
		}
		if rec.Typ == 23 {
			dec = append(dec, pt...)
		}
	}
	if !bytes.Equal(dec, all) {
		return "wire-plaintext", "concatenated record plaintexts differ from what was written"
	}
	return "", ""
}

func TestVF_C06(t *testing.T) {
	rec := vfRec("C06", "C06-stream", "suite x full / resumed handshake x dynamic sizing on/off x direction x write-size lists (0,1,2,small,16383..16385,40000,70000; ramps of many small writes followed by a long one; 990..1100 writes of 1..40 bytes followed by long ones; runs of 1..60 empty writes between data) x receiver transport segmentation (whole, 1 byte, cycling 1..50, 1208) x read buffer sizes (1,7,100,4096,20000 cycled) x close mode (none, Close, CloseWrite; with Close optionally a late reader and a transport that reports io.EOF together with its last bytes; optionally the first write issued by a second goroutine while the sender's handshake is in its first or second transport write; with CloseWrite optionally an answer of 1..70000 bytes which the half-closed side must read to its end); oracle: writes report full length, concat(reads)=concat(writes), EOF after everything when closed, record sizes from the wire via the reference opener; non-trivial = more than one record, or segmentation != whole, or a read buffer smaller than a record")
	sizeGen := rapid.OneOf(rapid.SampledFrom([]int{0, 1, 2, 16383, 16384, 16385, 40000, 70000}), rapid.IntRange(1, 300), rapid.IntRange(1, 20000))
	vfRapid(t, rec, "cases", vfN(2000, 30000), func(t *rapid.T) {
		c := c06Case{Suite: rapid.SampledFrom(vfSuites).Draw(t, "suite"), NoDynamic: rapid.Bool().Draw(t, "nodyn"), Dir: rapid.IntRange(0, 1).Draw(t, "dir"),
			Writes: rapid.SliceOfN(sizeGen, 1, 6).Draw(t, "writes"), Seg: rapid.SampledFrom([]int{0, 0, 1, 2, 2, 3}).Draw(t, "seg"),
			Bufs: rapid.SliceOfN(rapid.SampledFrom([]int{1, 7, 100, 4096, 20000}), 1, 3).Draw(t, "bufs"), Close: rapid.IntRange(0, 2).Draw(t, "close"),
			Resumed: rapid.IntRange(0, 3).Draw(t, "resumed") == 0, EOFData: rapid.IntRange(0, 2).Draw(t, "eofdata") == 0}
		if c.Seg == 2 {
			c.SegCycle = rapid.SliceOfN(rapid.IntRange(1, 50), 1, 5).Draw(t, "segc")
		}
		// the dynamic-sizing ramp: many records while fewer than 128 KiB were sent, then a long write
		switch rapid.IntRange(0, 9).Draw(t, "ramp") {
		case 0:
			k := rapid.IntRange(10, 20).Draw(t, "nsmall")
			c.Writes = nil
			for i := 0; i < k; i++ {
				c.Writes = append(c.Writes, rapid.IntRange(1, 600).Draw(t, "small"))
			}
			c.Writes = append(c.Writes, rapid.SampledFrom([]int{16384, 16385, 20000, 40000}).Draw(t, "big"))
			c.Seg, c.Bufs = 0, []int{20000}
		case 1:
			c.Writes = []int{rapid.SampledFrom([]int{120000, 137000, 140000, 200000}).Draw(t, "huge")}
			c.Seg, c.Bufs = 0, []int{20000}
		case 2:
			// a run of empty writes between data: they must neither show up in the peer's stream nor
			// wear out the receiver (which tolerates only a bounded number of records without payload)
			k := rapid.SampledFrom([]int{1, 2, 15, 16, 17, 18, 33, 60}).Draw(t, "nempty")
			c.Writes = []int{rapid.IntRange(1, 300).Draw(t, "before")}
			for i := 0; i < k; i++ {
				c.Writes = append(c.Writes, 0)
			}
			c.Writes = append(c.Writes, rapid.IntRange(1, 5000).Draw(t, "after"))
		case 3:
			// a chatty connection: more than a thousand small records while fewer than 128 KiB were sent, then long writes
			c.Pre, c.PreSize = rapid.SampledFrom([]int{990, 1000, 1001, 1002, 1010, 1100}).Draw(t, "pre"), rapid.IntRange(1, 40).Draw(t, "presize")
			c.Writes = []int{rapid.SampledFrom([]int{16384, 16385, 20000, 50000}).Draw(t, "big"), rapid.IntRange(1, 20000).Draw(t, "next")}
			c.Seg, c.Bufs = 0, []int{20000}
		}
		if rapid.IntRange(0, 5).Draw(t, "early") == 0 && c.Writes[0] > 0 && !c.Resumed {
			c.EarlyAt = rapid.IntRange(1, 2).Draw(t, "earlyat")
		}
		if c.Close == 2 && rapid.Bool().Draw(t, "reply") {
			c.Reply = rapid.SampledFrom([]int{1, 100, 16385, 70000}).Draw(t, "replysize")
		}
		total := 0
		for _, n := range c.Writes {
			total += n
		}
		// one-byte transport reads or one-byte application reads of a very long stream only cost time
		small := c.Seg == 1 || c.Seg == 2
		for _, b := range c.Bufs {
			if b <= 7 {
				small = true
			}
		}
		if small && total > 40000 {
			for i := range c.Writes {
				if c.Writes[i] > 17000 {
					c.Writes[i] = 16385
				}
			}
			if len(c.Writes) > 2 {
				c.Writes = c.Writes[:2]
			}
		}
		sig, msg := c06Run(c)
		if sig != "" {
			rec.Fail(t, sig, c, "%s", msg)
		}
		minBuf := 1 << 30
		for _, b := range c.Bufs {
			if b < minBuf {
				minBuf = b
			}
		}
		rec.Eval(total > 1200 || c.Seg != 0 || minBuf < 1000, c, fmt.Sprintf("seg:%d", c.Seg), fmt.Sprintf("close:%d", c.Close), fmt.Sprintf("suite:%04x", c.Suite))
	})
}

func init() {
	vfRegisterReplay("C06-stream", func(raw json.RawMessage) error {
		var c c06Case
		if err := json.Unmarshal(raw, &c); err != nil {
			return err
		}
		if sig, msg := c06Run(c); sig != "" {
			return fmt.Errorf("%s: %s", sig, msg)
		}
		return nil
	})
}
