//go:build verif

package vfpkg

//vf:pkgs tlcp dtlcp

// C11c: concurrent use of the session cache is equivalent to some sequential order (generated
// concurrent histories checked for linearizability against the LRU model with porcupine; the
// binary is built with -race). C11d: connection histories through caches of every small capacity:
// every honest handshake must succeed.

import (
	"encoding/json"
	"fmt"
	"sync"
	"sync/atomic"
	"testing"
	"time"

	"github.com/anishathalye/porcupine"
	"pgregory.net/rapid"
)

type c11cIn struct {
	Op  int // 0 get, 1 put, 2 delete
	Key string
	Val int // value id for put
}

type c11cOut struct {
	Ok  bool
	Val int // 0 = nil / absent
}

type c11cEntry struct {
	key string
	val int
}

// state: most recently used first
type c11cState struct {
	cap   int
	order []c11cEntry
}

func c11cModel(capacity int) porcupine.Model {
	return porcupine.Model{
		Init: func() interface{} { return c11cState{cap: capacity} },
		Step: func(st, in, out interface{}) (bool, interface{}) {
			s := st.(c11cState)
			i, o := in.(c11cIn), out.(c11cOut)
			ord := append([]c11cEntry(nil), s.order...)
			find := func(k string) int {
				for j, e := range ord {
					if e.key == k {
						return j
					}
				}
				return -1
			}
			front := func(j int) {
				e := ord[j]
				copy(ord[1:j+1], ord[:j])
				ord[0] = e
			}
			switch i.Op {
			case 0:
				j := find(i.Key)
				if j < 0 {
					return !o.Ok, s
				}
				if !o.Ok || o.Val != ord[j].val {
					return false, s
				}
				front(j)
			case 1:
				j := find(i.Key)
				if j >= 0 {
					ord[j].val = i.Val
					front(j)
				} else {
					if len(ord) == s.cap {
						ord = ord[:len(ord)-1]
					}
					ord = append([]c11cEntry{{i.Key, i.Val}}, ord...)
				}
			case 2:
				if j := find(i.Key); j >= 0 {
					ord = append(ord[:j], ord[j+1:]...)
				}
			}
			return true, c11cState{cap: s.cap, order: ord}
		},
		Equal: func(a, b interface{}) bool {
			x, y := a.(c11cState), b.(c11cState)
			if len(x.order) != len(y.order) {
				return false
			}
			for i := range x.order {
				if x.order[i] != y.order[i] {
					return false
				}
			}
			return true
		},
		DescribeOperation: func(in, out interface{}) string { return fmt.Sprintf("%+v -> %+v", in, out) },
	}
}

type c11cCase struct {
	Cap     int       `json:"cap"`
	Threads [][]c11cIn `json:"threads"`
}

func c11cRun(c c11cCase) (sig, msg string) {
	cache := NewLRUSessionCache(c.Cap)
	var ops []porcupine.Operation
	var mu sync.Mutex
	var clock int64
	var wg sync.WaitGroup
	start := make(chan struct{})
	for ti, th := range c.Threads {
		wg.Add(1)
		go func(ti int, th []c11cIn) {
			defer wg.Done()
			<-start
			for _, in := range th {
				call := atomic.AddInt64(&clock, 1)
				var out c11cOut
				switch in.Op {
				case 0:
					s, ok := cache.Get(in.Key)
					out.Ok = ok
					if ok && s != nil && len(s.sessionId) == 2 {
						out.Val = int(s.sessionId[0])<<8 | int(s.sessionId[1])
						// a session handed out must be intact
						if len(s.masterSecret) != 48 || s.masterSecret[0] != byte(out.Val) {
							out.Val = -1
						}
					}
				case 1:
					ms := make([]byte, 48)
					ms[0] = byte(in.Val)
					cache.Put(in.Key, &SessionState{sessionId: []byte{byte(in.Val >> 8), byte(in.Val)}, vers: VersionTLCP, cipherSuite: ECC_SM4_GCM_SM3, masterSecret: ms})
				case 2:
					cache.Put(in.Key, nil)
				}
				ret := atomic.AddInt64(&clock, 1)
				mu.Lock()
				ops = append(ops, porcupine.Operation{ClientId: ti, Input: in, Call: call, Output: out, Return: ret})
				mu.Unlock()
			}
		}(ti, th)
	}
	close(start)
	wg.Wait()
	for _, o := range ops {
		if o.Output.(c11cOut).Val == -1 {
			return "lru-concurrent-harm", fmt.Sprintf("a session returned by Get under concurrent use had a damaged master secret (%+v)", o.Input)
		}
	}
	res := porcupine.CheckOperationsTimeout(c11cModel(func() int {
		if c.Cap < 1 {
			return 64
		}
		return c.Cap
	}()), ops, 10*time.Second)
	switch res {
	case porcupine.Illegal:
		return "lru-not-linearizable", fmt.Sprintf("concurrent history of %d operations on a cache of capacity %d is not equivalent to any sequential order", len(ops), c.Cap)
	case porcupine.Unknown:
		return "inconclusive", "linearizability check timed out"
	}
	return "", ""
}

func TestVF_C11_Concurrent(t *testing.T) {
	rec := vfRec("C11", "C11c-linearizable", "2..8 goroutines x up to 12 operations (get / put fresh value / delete over a small key alphabet) on caches of capacity 1..4, 8; the recorded call/return history is checked for linearizability against the LRU model with porcupine; built with -race; every session handed out must be intact; non-trivial = at least two goroutines; distinct = the case")
	vfRapid(t, rec, "histories", vfN(1200, 20000), func(t *rapid.T) {
		c := c11cCase{Cap: rapid.SampledFrom([]int{1, 2, 3, 4, 8}).Draw(t, "cap")}
		nt := rapid.IntRange(2, 8).Draw(t, "threads")
		val := 0
		for i := 0; i < nt; i++ {
			n := rapid.IntRange(1, 12).Draw(t, "nops")
			var th []c11cIn
			for j := 0; j < n; j++ {
				in := c11cIn{Op: rapid.SampledFrom([]int{0, 0, 1, 1, 2}).Draw(t, "op"), Key: rapid.SampledFrom([]string{"a", "b", "c", "d", "e"}).Draw(t, "key")}
				if in.Op == 1 {
					val++
					in.Val = val
				}
				th = append(th, in)
			}
			c.Threads = append(c.Threads, th)
		}
		sig, msg := c11cRun(c)
		if sig == "inconclusive" {
			rec.mu.Lock()
			rec.Inconclusive++
			rec.mu.Unlock()
			return
		}
		if sig != "" {
			rec.Fail(t, sig, c, "%s", msg)
		}
		rec.Eval(true, c, fmt.Sprintf("cap:%d", c.Cap))
	})
}

// ---------------------------------------------------------------------------- C11d

type c11dCase struct {
	CliCap, SrvCap int
	Suite          uint16
	Conns          []int `json:"conns"` // which of three servers each connection goes to
	Parallel       int   `json:"parallel"`
}

func c11dRun(c c11dCase) (sig, msg string) {
	p := vfGetPKI()
	ccache := NewLRUSessionCache(c.CliCap)
	var scfgs [3]*Config
	for i := range scfgs {
		scfgs[i] = &Config{Time: vfTime, Certificates: []Certificate{p.SrvSig, p.SrvEnc}, CipherSuites: []uint16{c.Suite}, SessionCache: NewLRUSessionCache(c.SrvCap), ClientCAs: p.A.pool}
	}
	run := func(i int) error {
		ccfg := &Config{Time: vfTime, RootCAs: p.A.pool, ServerName: vfServerName, CipherSuites: []uint16{c.Suite}, SessionCache: ccache, Certificates: []Certificate{p.CliSig, p.CliEnc}}
		r := vfRunPair(ccfg, scfgs[i%3], vfPairOpt{SrvAddr: fmt.Sprintf("10.0.%d.2:2000", i%3+1)})
		if r.CPanic != "" || r.SPanic != "" {
			return fmt.Errorf("panic: %s%s", r.CPanic, r.SPanic)
		}
		if r.CErr != nil || r.SErr != nil {
			return fmt.Errorf("client=%v server=%v (resumed=%v)", r.CErr, r.SErr, r.CS.DidResume)
		}
		return nil
	}
	if c.Parallel <= 1 {
		for k, i := range c.Conns {
			if err := run(i); err != nil {
				return "honest-handshake-failed", fmt.Sprintf("connection %d of %v through caches of capacity %d/%d failed: %v", k, c.Conns, c.CliCap, c.SrvCap, err)
			}
		}
		return "", ""
	}
	var wg sync.WaitGroup
	errs := make([]error, len(c.Conns))
	sem := make(chan struct{}, c.Parallel)
	for k, i := range c.Conns {
		wg.Add(1)
		go func(k, i int) {
			defer wg.Done()
			sem <- struct{}{}
			errs[k] = run(i)
			<-sem
		}(k, i)
	}
	wg.Wait()
	for k, err := range errs {
		if err != nil {
			return "honest-handshake-failed-concurrent", fmt.Sprintf("connection %d of %v (%d in parallel) through caches of capacity %d/%d failed: %v", k, c.Conns, c.Parallel, c.CliCap, c.SrvCap, err)
		}
	}
	return "", ""
}

func TestVF_C11_Connections(t *testing.T) {
	rec := vfRec("C11", "C11d-connections", "histories of honest connections between one client and up to three servers through client and server caches of capacity 1..4, sequentially and with up to 8 handshakes in parallel (race build); oracle: every handshake succeeds; non-trivial = more connections than the smaller capacity; distinct = the case")
	idx := 0
	for cc := 1; cc <= 4; cc++ {
		for sc := 1; sc <= 4; sc++ {
			for _, conns := range [][]int{{0, 0}, {0, 0, 0}, {0, 1, 0, 1}, {0, 1, 2, 0, 1, 2}, {0, 0, 1, 1, 0}} {
				idx++
				if !vfMine(idx) {
					continue
				}
				c := c11dCase{CliCap: cc, SrvCap: sc, Suite: []uint16{ECC_SM4_GCM_SM3, ECDHE_SM4_CBC_SM3}[idx%2], Conns: conns}
				sig, msg := c11dRun(c)
				if sig != "" {
					rec.Violation(sig, c, "%s", msg)
				}
				rec.Eval(true, c, "sequential")
			}
		}
	}
	vfRapid(t, rec, "random", vfN(60, 1500), func(t *rapid.T) {
		c := c11dCase{CliCap: rapid.IntRange(1, 4).Draw(t, "cc"), SrvCap: rapid.IntRange(1, 4).Draw(t, "sc"), Suite: rapid.SampledFrom(vfSuites).Draw(t, "suite"),
			Conns: rapid.SliceOfN(rapid.IntRange(0, 2), 2, 10).Draw(t, "conns"), Parallel: rapid.SampledFrom([]int{1, 1, 2, 4, 8}).Draw(t, "par")}
		sig, msg := c11dRun(c)
		if sig != "" {
			rec.Fail(t, sig, c, "%s", msg)
		}
		cl := "sequential"
		if c.Parallel > 1 {
			cl = "parallel"
		}
		rec.Eval(true, c, cl)
	})
}

// C13d: several connections that share one client Config (and its session cache) and a few server
// Configs run their handshakes at the same time: state shared between connections (caches, pools,
// lazily initialised configuration fields) must not make any of them fail. Built with -race.
func TestVF_C13_SharedConfig(t *testing.T) {
	rec := vfRec("C13", "C13d-shared-config", "2..8 honest handshakes at a time between one client Config and up to three server Configs, all sharing session caches of capacity 1..3, 4..14 connections per case; built with -race; oracle: every handshake succeeds, no race report; non-trivial = at least two in parallel; distinct = the case")
	vfRapid(t, rec, "parallel", vfN(40, 600), func(t *rapid.T) {
		c := c11dCase{CliCap: rapid.IntRange(1, 3).Draw(t, "cc"), SrvCap: rapid.IntRange(1, 3).Draw(t, "sc"), Suite: rapid.SampledFrom(vfSuites).Draw(t, "suite"),
			Conns: rapid.SliceOfN(rapid.IntRange(0, 2), 4, 14).Draw(t, "conns"), Parallel: rapid.SampledFrom([]int{2, 4, 8}).Draw(t, "par")}
		sig, msg := c11dRun(c)
		if sig != "" {
			rec.Fail(t, sig, c, "%s", msg)
		}
		rec.Eval(true, c, fmt.Sprintf("parallel:%d", c.Parallel))
	})
}

func init() {
	vfRegisterReplay("C13d-shared-config", func(raw json.RawMessage) error {
		var c c11dCase
		if err := json.Unmarshal(raw, &c); err != nil {
			return err
		}
		for i := 0; i < 30; i++ {
			if sig, msg := c11dRun(c); sig != "" {
				return fmt.Errorf("%s: %s", sig, msg)
			}
		}
		return nil
	})
	vfRegisterReplay("C11c-linearizable", func(raw json.RawMessage) error {
		var c c11cCase
		if err := json.Unmarshal(raw, &c); err != nil {
			return err
		}
		for i := 0; i < 20; i++ {
			if sig, msg := c11cRun(c); sig != "" && sig != "inconclusive" {
				return fmt.Errorf("%s: %s", sig, msg)
			}
		}
		return nil
	})
	vfRegisterReplay("C11d-connections", func(raw json.RawMessage) error {
		var c c11dCase
		if err := json.Unmarshal(raw, &c); err != nil {
			return err
		}
		if sig, msg := c11dRun(c); sig != "" {
			return fmt.Errorf("%s: %s", sig, msg)
		}
		return nil
	})
}
