//go:build verif

package tlcp

// C13f (stream stack, race build): while one goroutine of an endpoint is writing (slow transport) and
// another is reading, the peer sends a correctly protected handshake record after the handshake - the
// one input that makes the reading side send something (the no_renegotiation alert) on its own. The
// alert must go through the same locks as the application's writes. Oracle: the race detector (the
// driver scans the log), no panic, no hang, and everything the endpoint put on the wire opens under
// the reference with sequence numbers 1, 2, 3, ... (no number used twice).

import (
	"encoding/json"
	"fmt"
	"sync"
	"testing"
	"time"
)

type c13fCase struct {
	Suite  uint16 `json:"suite"`
	Side   int    `json:"side"`   // the endpoint under observation
	After  int    `json:"after"`  // the peer sends the handshake record when that many of the endpoint's transport writes have begun
	SlowUs int    `json:"slowus"` // every transport write of the endpoint takes this long
}

func c13fRun(c c13fCase) (sig, msg string) {
	ccfg, scfg := vfBaseConfigs(c.Suite, false)
	cc := vfNewCapCache(4)
	ccfg.SessionCache, scfg.SessionCache = cc, vfNewCapCache(4)
	sim := vfNewStream()
	sim.monitor = false
	cli, srv := Client(sim.ends[0], ccfg), Server(sim.ends[1], scfg)
	var wg sync.WaitGroup
	var e1, e2 error
	wg.Add(2)
	go func() { defer wg.Done(); e1 = cli.Handshake() }()
	go func() { defer wg.Done(); e2 = srv.Handshake() }()
	wg.Wait()
	if e1 != nil || e2 != nil {
		return "honest-failed", fmt.Sprintf("%v / %v", e1, e2)
	}
	x, y := cli, srv
	if c.Side == 1 {
		x, y = srv, cli
	}
	xe := sim.ends[c.Side]
	sim.mu.Lock()
	base := xe.nWrites
	sim.mu.Unlock()
	fire := make(chan struct{})
	var once sync.Once
	xe.onWrite = func(k int) {
		if k-base >= c.After {
			once.Do(func() { close(fire) })
		}
		time.Sleep(time.Duration(c.SlowUs) * time.Microsecond)
	}
	var all sync.WaitGroup
	var panics [3]string
	all.Add(3)
	go func() { // the endpoint's writer
		defer all.Done()
		panics[0] = vfRecover(func() {
			for i := 0; i < 40; i++ {
				if _, err := x.Write(c01Payload(1500, byte(i))); err != nil {
					return
				}
			}
		})
		once.Do(func() { close(fire) })
	}()
	go func() { // the endpoint's reader
		defer all.Done()
		panics[1] = vfRecover(func() {
			buf := make([]byte, 4096)
			for {
				if _, err := x.Read(buf); err != nil {
					return
				}
			}
		})
	}()
	go func() { // the peer: drains, and sends one handshake record at the chosen moment
		defer all.Done()
		panics[2] = vfRecover(func() {
			go func() {
				<-fire
				vfPeerRawRecord(y, recordTypeHandshake, []byte{0, 0, 0, 0})
			}()
			buf := make([]byte, 4096)
			for {
				if _, err := y.Read(buf); err != nil {
					return
				}
			}
		})
	}()
	done := make(chan struct{})
	go func() { all.Wait(); close(done) }()
	// the writer ends (its writes fail once the alert has shut the write side, or all 40 are done); then close
	select {
	case <-done:
	case <-time.After(3 * time.Second):
		x.Close()
		y.Close()
		select {
		case <-done:
		case <-time.After(20 * time.Second):
			sim.ends[0].Close()
			sim.ends[1].Close()
			return "hang", "the goroutines did not end after both connections were closed"
		}
	}
	for _, p := range panics {
		if p != "" {
			return "panic", p
		}
	}
	// what the endpoint put on the wire after the handshake
	keys, err := refKeysOfTaps(sim.ends[0].wrote, sim.ends[1].wrote, cc)
	if err != nil {
		return "ref-parse", err.Error()
	}
	key, iv, mac := keys.dir(c.Side == 0)
	sim.mu.Lock()
	tap := append([]byte(nil), xe.wrote...)
	sim.mu.Unlock()
	for _, rec := range vfFrameStream(tap) {
		if rec.Epoch != 1 {
			continue
		}
		if _, err := refOpen(keys.GCM, key, iv, mac, vfSeqInput(rec), rec.Typ, rec.Ver, rec.Frag); err != nil {
			return "wire-sequence", fmt.Sprintf("record %d (type %d) the endpoint sent does not open under the reference at its position in the stream: %v (two writers used the record layer at once)", rec.Seq, rec.Typ, err)
		}
	}
	return "", ""
}

func TestVF_C13_Renego(t *testing.T) {
	rec := vfRec("C13", "C13f-alert-during-write", "an endpoint with one goroutine writing (40 x 1500 bytes over a slow transport) and one reading receives a correctly protected handshake record after the handshake, at a generated moment; both roles, GCM and CBC; oracle: race detector, no panic, no hang, every record the endpoint sent opens under the reference at its position (no sequence number used twice); distinct = the case")
	idx := 0
	for _, suite := range []uint16{ECC_SM4_GCM_SM3, ECC_SM4_CBC_SM3} {
		for side := 0; side < 2; side++ {
			for _, after := range []int{1, 2, 5, 11} {
				for _, slow := range []int{200, 2000} {
					idx++
					if !vfMine(idx) {
						continue
					}
					c := c13fCase{Suite: suite, Side: side, After: after, SlowUs: slow}
					sig, msg := c13fRun(c)
					if sig != "" {
						rec.Violation(sig, c, "%s", msg)
					}
					rec.Eval(true, c, fmt.Sprintf("side:%d", side))
				}
			}
		}
	}
	rec.SetExhaustive(true, fmt.Sprintf("%d cases", idx))
}

func init() {
	vfRegisterReplay("C13f-alert-during-write", func(raw json.RawMessage) error {
		var c c13fCase
		if err := json.Unmarshal(raw, &c); err != nil {
			return err
		}
		if sig, msg := c13fRun(c); sig != "" {
			return fmt.Errorf("%s: %s", sig, msg)
		}
		return nil
	})
}
