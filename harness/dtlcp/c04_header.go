//go:build verif

package dtlcp

// C04c (datagram stack): "type, version and length authenticated". A genuine application record is
// held back; a copy whose version field (or type) was changed in the header is delivered instead to a
// receiver that reads with ReadFrom (which, unlike Read, does not compare the version with the
// negotiated one before opening the record): nothing may be delivered. The genuine record, delivered
// afterwards, must be (control).

import (
	"encoding/json"
	"fmt"
	"testing"
	"time"
)

type c04HCase struct {
	Suite uint16 `json:"suite"`
	Field int    `json:"field"` // byte of the record header that is changed: 0 type, 1 / 2 version
	Mask  byte   `json:"mask"`
	Read  bool   `json:"read"` // receiver uses Read instead of ReadFrom
}

func c04HRun(c c04HCase) (sig, msg string) {
	ccfg, scfg := vfBaseConfigs(c.Suite, false)
	var sim *vfDSim
	var held []byte
	capture := false
	payload := []byte("c04c genuine payload")
	var got1, got2 []byte
	var err1, err2 error
	opt := vfPairOpt{
		Prepare: func(s *vfDSim, _, _ *Conn) { sim = s },
		Hook: func(from, nth int, data []byte) []vfDelivery {
			if capture && from == 0 && held == nil {
				held = append([]byte(nil), data...)
				return nil
			}
			return []vfDelivery{{Data: data}}
		},
	}
	opt.CliAct = func(cn *Conn) error {
		capture = true
		if _, err := cn.WriteTo(payload, cn.RemoteAddr()); err != nil {
			return err
		}
		capture = false
		if held == nil {
			return fmt.Errorf("no datagram captured")
		}
		d := append([]byte(nil), held...)
		d[c.Field] ^= c.Mask
		sim.inject(1, sim.ends[0].addr, d, 0)
		sim.inject(1, sim.ends[0].addr, held, 2*time.Second)
		return nil
	}
	opt.SrvAct = func(cn *Conn) error {
		rd := func() ([]byte, error) {
			buf := make([]byte, 200)
			cn.SetReadDeadline(time.Now().Add(time.Second))
			if c.Read {
				n, err := cn.Read(buf)
				return buf[:n], err
			}
			n, _, err := cn.ReadFrom(buf)
			return buf[:n], err
		}
		got1, err1 = rd()
		if err1 == nil {
			return nil
		}
		cn.SetReadDeadline(time.Now().Add(3 * time.Second))
		got2, err2 = rd()
		got2b, err2b := got2, err2
		if err2 != nil {
			// the first deadline may have expired just before the genuine datagram was due
			cn.SetReadDeadline(time.Now().Add(3 * time.Second))
			got2b, err2b = rd()
		}
		got2, err2 = got2b, err2b
		return nil
	}
	r := vfRunPair(ccfg, scfg, opt)
	if r.CPanic != "" || r.SPanic != "" {
		return "panic", r.CPanic + r.SPanic
	}
	if r.CErr != nil || r.SErr != nil || r.CAct != nil {
		return "honest-failed", fmt.Sprintf("%v / %v / %v", r.CErr, r.SErr, r.CAct)
	}
	if err1 == nil {
		return "header-not-authenticated", fmt.Sprintf("a record whose header byte %d (0 type, 1-2 version) was changed by %#02x in flight was opened and delivered (%q): that field is not authenticated", c.Field, c.Mask, got1)
	}
	if te, ok := err1.(interface{ Timeout() bool }); !ok || !te.Timeout() {
		return "forgery-kills-connection", fmt.Sprintf("the altered record made the read fail with %v", err1)
	}
	if err2 != nil || string(got2) != string(payload) {
		return "genuine-not-delivered", fmt.Sprintf("after the altered copy the genuine record was not delivered: %q, %v", got2, err2)
	}
	return "", ""
}

func TestVF_C04_Header(t *testing.T) {
	rec := vfRec("C04", "C04c-header-authenticated", "a genuine application datagram is held back and a copy with one header byte changed (type; version high / low byte; masks 01, 02, 80, ff and the DTLS value) is delivered to a receiver reading with ReadFrom or Read, the genuine one afterwards; four suites; oracle: the altered copy is not delivered and does not end the connection, the genuine one is delivered; distinct = the case")
	idx := 0
	for _, suite := range vfSuites {
		for _, field := range []int{0, 1, 2} {
			for _, mask := range []byte{0x01, 0x02, 0x80, 0xff, 0xfc} {
				for _, read := range []bool{false, true} {
					idx++
					if !vfMine(idx) {
						continue
					}
					c := c04HCase{Suite: suite, Field: field, Mask: mask, Read: read}
					sig, msg := c04HRun(c)
					if sig != "" {
						rec.Violation(sig, c, "%s", msg)
					}
					rec.Eval(true, c, fmt.Sprintf("field:%d", field))
				}
			}
		}
	}
	rec.SetExhaustive(true, fmt.Sprintf("%d cases", idx))
}

func init() {
	vfRegisterReplay("C04c-header-authenticated", func(raw json.RawMessage) error {
		var c c04HCase
		if err := json.Unmarshal(raw, &c); err != nil {
			return err
		}
		if sig, msg := c04HRun(c); sig != "" {
			return fmt.Errorf("%s: %s", sig, msg)
		}
		return nil
	})
}
