//go:build verif

package dtlcp

const (
	c13Datagram = true
	c13MaxWrite = 40000
	c13Version  = VersionTLCP
)

func c13Conns(nw *c13Net, ccfg, scfg *Config) (cli, srv *Conn) {
	return Client(nw.ends[0], nw.ends[1].LocalAddr(), ccfg), Server(nw.ends[1], nw.ends[0].LocalAddr(), scfg)
}

func c13Write(c *Conn, dgram bool, p []byte) (int, error) {
	if dgram {
		return c.WriteTo(p, c.RemoteAddr())
	}
	return c.Write(p)
}

func c13Read(c *Conn, dgram bool, p []byte) (int, error) {
	if dgram {
		n, _, err := c.ReadFrom(p)
		return n, err
	}
	return c.Read(p)
}
