//go:build verif

package dtlcp

// C09 (datagram stack, generator G1/G4): generated datagram lists fed to a fresh endpoint that runs
// Handshake and then Read to exhaustion. Oracle: no panic, no spinning on an exhausted transport,
// a bounded number of reassembly buffers and a bounded handshake buffer.

import (
	"encoding/json"
	"fmt"
	"net"
	"runtime"
	"sync"
	"testing"
	"time"

	"pgregory.net/rapid"
)

const (
	c09MaxFragBufs = 257                          // maxHandshakeFragments + 1
	c09MaxHandBuf  = 2*(65536+12) + 16384 + 2048 + 64 // two maximum messages + one record
)

type c09DFeed struct {
	dgrams   [][]byte
	from     []bool // true: from a foreign address
	eofReads int
	onRead   func()
	wrote    int // datagrams the endpoint sent
}

func (f *c09DFeed) ReadFrom(p []byte) (int, net.Addr, error) {
	if f.onRead != nil {
		f.onRead()
	}
	if len(f.dgrams) == 0 {
		f.eofReads++
		if f.eofReads > 200 {
			panic("vf: endpoint keeps reading an exhausted transport (spin)")
		}
		return 0, nil, net.ErrClosed
	}
	d := f.dgrams[0]
	foreign := f.from[0]
	f.dgrams, f.from = f.dgrams[1:], f.from[1:]
	n := copy(p, d)
	if foreign {
		return n, vfDAddr("10.9.9.9:999"), nil
	}
	return n, vfDAddr("10.0.0.2:2"), nil
}
func (f *c09DFeed) WriteTo(p []byte, a net.Addr) (int, error) { f.wrote++; return len(p), nil }
func (f *c09DFeed) Close() error                              { f.dgrams = nil; return nil }
func (f *c09DFeed) LocalAddr() net.Addr                       { return vfDAddr("10.0.0.1:1") }
func (f *c09DFeed) SetDeadline(time.Time) error               { return nil }
func (f *c09DFeed) SetReadDeadline(time.Time) error           { return nil }
func (f *c09DFeed) SetWriteDeadline(time.Time) error          { return nil }

type c09DFeedCase struct {
	Client  bool     `json:"client"`
	Dgrams  [][]byte `json:"dgrams"`
	Foreign []bool   `json:"foreign"`
}

func c09RunDFeed(c c09DFeedCase) (sig, msg, depth string) {
	ccfg, scfg := vfBaseConfigs(ECC_SM4_GCM_SM3, false)
	f := &c09DFeed{}
	for i, d := range c.Dgrams {
		f.dgrams = append(f.dgrams, append([]byte(nil), d...))
		f.from = append(f.from, i < len(c.Foreign) && c.Foreign[i])
	}
	var cn *Conn
	if c.Client {
		cn = Client(f, vfDAddr("10.0.0.2:2"), ccfg)
	} else {
		cn = Server(f, vfDAddr("10.0.0.2:2"), scfg)
	}
	maxBufs, maxHand, maxDepth := 0, 0, 0
	pcs := make([]uintptr, 400)
	f.onRead = func() {
		if n := runtime.Callers(0, pcs); n > maxDepth {
			maxDepth = n
		}
		if n := len(cn.pendingFragments); n > maxBufs {
			maxBufs = n
		}
		if n := cn.handBuf.Len(); n > maxHand {
			maxHand = n
		}
	}
	var hsErr error
	var p string
	done := make(chan struct{})
	go func() {
		defer close(done)
		p = vfRecover(func() {
			hsErr = cn.Handshake()
			buf := make([]byte, 4096)
			for i := 0; i < 100000; i++ {
				if _, err := cn.Read(buf); err != nil {
					break
				}
			}
		})
	}()
	// the transport never blocks and the input is a handful of datagrams: a run takes milliseconds.
	// An endpoint that has not finished after 30 s is spinning or stuck on input it does not consume.
	select {
	case <-done:
	case <-time.After(30 * time.Second):
		return "spin-or-hang", "the endpoint neither finished nor failed within 30 s on a transport that never blocks: it loops without consuming input", ""
	}
	if p != "" {
		return "panic", p, ""
	}
	f.onRead()
	if maxDepth >= 400 {
		return "recursion", "call depth reached 400 frames while reading the transport: recursion that grows with the peer's input", ""
	}
	if maxBufs > c09MaxFragBufs {
		return "fragment-buffers", fmt.Sprintf("%d reassembly buffers pending (bound %d)", maxBufs, c09MaxFragBufs), ""
	}
	if maxHand > c09MaxHandBuf {
		return "handshake-buffer", fmt.Sprintf("handshake buffer reached %d bytes (bound %d)", maxHand, c09MaxHandBuf), ""
	}
	depth = "hs-failed"
	if hsErr == nil {
		depth = "hs-complete"
	}
	return "", "", depth
}

var (
	c09DOnce sync.Once
	c09DC2S  [][]byte
	c09DS2C  [][]byte
)

func c09DRecorded() (c2s, s2c [][]byte) {
	c09DOnce.Do(func() {
		ccfg, scfg := vfBaseConfigs(ECC_SM4_GCM_SM3, false)
		r := vfRunPair(ccfg, scfg, vfPairOpt{
			CliAct: func(c *Conn) error { return vfSendAll(c, []byte("hello from client")) },
			SrvAct: func(c *Conn) error { _, err := vfRecvN(c, 17); return err },
		})
		c09DC2S, c09DS2C = r.vfWire()
	})
	return c09DC2S, c09DS2C
}

func c09Rec(typ byte, epoch uint16, seq uint64, body []byte) []byte {
	h := []byte{typ, 1, 1, byte(epoch >> 8), byte(epoch), byte(seq >> 40), byte(seq >> 32), byte(seq >> 24), byte(seq >> 16), byte(seq >> 8), byte(seq), byte(len(body) >> 8), byte(len(body))}
	return append(h, body...)
}

func c09Frag(typ byte, total int, msgSeq uint16, off, ln int, data []byte) []byte {
	h := []byte{typ, byte(total >> 16), byte(total >> 8), byte(total), byte(msgSeq >> 8), byte(msgSeq), byte(off >> 16), byte(off >> 8), byte(off), byte(ln >> 16), byte(ln >> 8), byte(ln)}
	return append(h, data...)
}

func c09DFeedGen() *rapid.Generator[c09DFeedCase] {
	return rapid.Custom(func(t *rapid.T) c09DFeedCase {
		c := c09DFeedCase{Client: rapid.Bool().Draw(t, "client")}
		c2s, s2c := c09DRecorded()
		src := c2s
		if c.Client {
			src = s2c
		}
		mode := rapid.IntRange(0, 5).Draw(t, "mode")
		switch mode {
		case 0: // raw datagrams
			n := rapid.IntRange(1, 5).Draw(t, "n")
			for i := 0; i < n; i++ {
				c.Dgrams = append(c.Dgrams, rapid.SliceOfN(rapid.Byte(), 0, 120).Draw(t, "raw"))
			}
		case 1, 2: // fragment storms: hostile fragment headers in valid records
			n := rapid.IntRange(1, 400).Draw(t, "n")
			if mode == 2 {
				n = rapid.IntRange(1, 12).Draw(t, "nsmall")
			}
			seq := uint64(0)
			for i := 0; i < n; i++ {
				typ := rapid.SampledFrom([]byte{1, 1, 2, 11, 12, 16, 20, 3, 99}).Draw(t, "hstyp")
				total := rapid.OneOf(rapid.IntRange(0, 64), rapid.SampledFrom([]int{0, 1, 8, 64, 4096, 65535, 65536, 65537, 1<<24 - 1})).Draw(t, "total")
				ms := uint16(rapid.OneOf(rapid.Just(i), rapid.IntRange(0, 3), rapid.IntRange(0, 65535)).Draw(t, "ms"))
				off := rapid.OneOf(rapid.IntRange(0, 70), rapid.Just(total), rapid.SampledFrom([]int{0, 0, 0, 65535, 1<<24 - 1})).Draw(t, "off")
				ln := rapid.OneOf(rapid.IntRange(0, 3), rapid.IntRange(0, 40)).Draw(t, "ln")
				dl := ln
				if rapid.IntRange(0, 5).Draw(t, "lie") == 0 {
					dl = rapid.IntRange(0, 40).Draw(t, "dl")
				}
				d := c09Rec(22, 0, seq, c09Frag(typ, total, ms, off, ln, make([]byte, dl)))
				seq++
				c.Dgrams = append(c.Dgrams, d)
			}
		case 3: // foreign-address datagrams mixed with the recorded conversation
			for _, d := range src {
				k := rapid.OneOf(rapid.IntRange(0, 30), rapid.SampledFrom([]int{0, 1, 600})).Draw(t, "nforeign")
				for i := 0; i < k; i++ {
					c.Dgrams = append(c.Dgrams, []byte{22, 1, 1, 0, 0, 0, 0, 0, 0, 0, 9, 0, 0})
					c.Foreign = append(c.Foreign, true)
				}
				c.Dgrams = append(c.Dgrams, d)
				c.Foreign = append(c.Foreign, false)
			}
		default: // mutations of the recorded conversation
			for _, d := range src {
				d = append([]byte(nil), d...)
				if rapid.IntRange(0, 2).Draw(t, "mutate") == 0 && len(d) > 0 {
					pos := rapid.IntRange(0, len(d)-1).Draw(t, "pos")
					switch rapid.IntRange(0, 2).Draw(t, "mk") {
					case 0:
						d[pos] ^= byte(rapid.IntRange(1, 255).Draw(t, "mask"))
					case 1:
						d = d[:pos]
					case 2:
						d[pos] = byte(rapid.SampledFrom([]int{0, 1, 0x7f, 0x80, 0xff}).Draw(t, "val"))
					}
				}
				c.Dgrams = append(c.Dgrams, d)
				if rapid.IntRange(0, 4).Draw(t, "dup") == 0 {
					c.Dgrams = append(c.Dgrams, d)
				}
			}
		}
		return c
	})
}

// c09SeqStorm: n datagrams, each the first fragment (flen bytes) of a different message_seq of a
// message that announces total bytes and never completes.
func c09SeqStorm(client bool, n, total, flen int) c09DFeedCase {
	typ := byte(1)
	if client {
		typ = 2
	}
	c := c09DFeedCase{Client: client}
	for i := 0; i < n; i++ {
		hs := []byte{typ, byte(total >> 16), byte(total >> 8), byte(total), byte(i >> 8), byte(i), 0, 0, 0, byte(flen >> 16), byte(flen >> 8), byte(flen)}
		hs = append(hs, make([]byte, flen)...)
		d := []byte{22, 1, 1, 0, 0, 0, 0, 0, 0, byte(i >> 8), byte(i), byte(len(hs) >> 8), byte(len(hs))}
		c.Dgrams = append(c.Dgrams, append(d, hs...))
	}
	return c
}

// c09Greedy: one handshake header whose fragment_length (flen) disagrees with the announced message
// length (total) and with the bytes present, followed by n handshake records of 1000 filler bytes: the
// endpoint must refuse the header, not collect what follows into its handshake buffer.
func c09Greedy(client bool, total, off, flen, present, n int) c09DFeedCase {
	typ := byte(1)
	if client {
		typ = 2
	}
	c := c09DFeedCase{Client: client}
	c.Dgrams = append(c.Dgrams, c09Rec(22, 0, 0, c09Frag(typ, total, 0, off, flen, make([]byte, present))))
	for i := 1; i <= n; i++ {
		c.Dgrams = append(c.Dgrams, c09Rec(22, 0, uint64(i), make([]byte, 1000)))
	}
	return c
}

// c09StormCases: the enumerated storms (also run under C17: bounded pending fragment state).
func c09StormCases() []c09DFeedCase {
	var out []c09DFeedCase
	for _, client := range []bool{false, true} {
		for _, total := range []int{39, 1000} {
			for _, off := range []int{0, 5} {
				for _, flen := range []int{total + 5, 300000, 1<<24 - 1} {
					out = append(out, c09Greedy(client, total, off, flen, 20, 400))
				}
			}
		}
	}
	for _, client := range []bool{false, true} {
		for _, n := range []int{255, 256, 257, 400, 2000} {
			for _, flen := range []int{1, 100} {
				out = append(out, c09SeqStorm(client, n, 60000, flen))
			}
		}
	}
	return out
}

func TestVF_C17_PendingBound(t *testing.T) {
	rec := vfRec("C17", "C17d-pending-bound", "storms of 255..2000 datagrams, each the first fragment of a different message_seq of a never-completing 60000-byte message, and headers whose fragment_length exceeds the announced message length (by 5 bytes, 300000, 2^24-1; offset 0 and 5) followed by 400 records of filler, fed to a fresh client and server; oracle: at most 257 reassembly buffers pending, handshake buffer within a fixed bound, no panic, no spin; distinct = the case")
	for i, c := range c09StormCases() {
		if !vfMine(i) {
			continue
		}
		sig, msg, depth := c09RunDFeed(c)
		if sig != "" {
			rec.Violation(sig, map[string]interface{}{"client": c.Client, "datagrams": len(c.Dgrams)}, "%s", msg)
		}
		rec.EvalHash(true, vfHash(c.Client, len(c.Dgrams), len(c.Dgrams[0])), func() interface{} {
			return map[string]interface{}{"client": c.Client, "datagrams": len(c.Dgrams), "datagram_len": len(c.Dgrams[0])}
		}, depth)
	}
	rec.SetExhaustive(true, fmt.Sprintf("%d enumerated storms", len(c09StormCases())))
}

func TestVF_C09_Feed(t *testing.T) {
	rec := vfRec("C09", "C09-feed", "storms of one first fragment per message_seq (255..2000 datagrams); headers whose fragment_length exceeds the announced length followed by 400 records of filler; generated datagram lists (raw; storms of handshake fragments with hostile total/offset/length/message_seq fields incl. lying lengths; foreign-address datagrams interleaved with a recorded conversation; mutations and duplications of a recorded conversation) fed to a fresh client or server that runs Handshake and then Read to exhaustion; oracle: no panic, no reading of an exhausted transport more than 200 times, pending reassembly buffers <= 257, handshake buffer within a fixed bound; non-trivial = at least one datagram with a complete record header; distinct = hash of the input")
	for i, c := range c09StormCases() {
		if !vfMine(i) {
			continue
		}
		sig, msg, depth := c09RunDFeed(c)
		if sig != "" {
			rec.Violation(sig, map[string]interface{}{"storm": "one first fragment per message_seq", "client": c.Client, "datagrams": len(c.Dgrams)}, "%s", msg)
		}
		rec.EvalHash(true, vfHash("storm", c.Client, len(c.Dgrams), len(c.Dgrams[0])), func() interface{} {
			return map[string]interface{}{"storm": true, "client": c.Client, "datagrams": len(c.Dgrams)}
		}, depth, "seq-storm")
	}
	vfRapid(t, rec, "feed", vfN(3000, 150000), func(t *rapid.T) {
		c := c09DFeedGen().Draw(t, "case")
		sig, msg, depth := c09RunDFeed(c)
		if sig != "" {
			rec.Fail(t, sig, c, "%s", msg)
		}
		nt := false
		for _, d := range c.Dgrams {
			if len(d) >= 13 {
				nt = true
			}
		}
		rec.EvalHash(nt, vfHash(c.Client, c.Dgrams), func() interface{} {
			var first string
			if len(c.Dgrams) > 0 {
				d := c.Dgrams[0]
				if len(d) > 40 {
					d = d[:40]
				}
				first = fmt.Sprintf("%x", d)
			}
			return map[string]interface{}{"client": c.Client, "datagrams": len(c.Dgrams), "first": first}
		}, depth)
	})
}

func FuzzVF_C09_Server(f *testing.F) { c09DFuzz(f, false) }
func FuzzVF_C09_Client(f *testing.F) { c09DFuzz(f, true) }

// the fuzz input is a concatenation of datagrams, each prefixed by a 2-byte length
func c09DFuzz(f *testing.F, client bool) {
	c2s, s2c := c09DRecorded()
	src := c2s
	if client {
		src = s2c
	}
	var seed []byte
	for _, d := range src {
		seed = append(seed, byte(len(d)>>8), byte(len(d)))
		seed = append(seed, d...)
	}
	f.Add(seed)
	f.Add(append([]byte{0, 25}, c09Rec(22, 0, 0, c09Frag(1, 65536, 0, 0, 0, nil))...))
	f.Fuzz(func(t *testing.T, data []byte) {
		var c c09DFeedCase
		c.Client = client
		for len(data) >= 2 {
			n := int(data[0])<<8 | int(data[1])
			data = data[2:]
			if n > len(data) {
				n = len(data)
			}
			c.Dgrams = append(c.Dgrams, data[:n])
			data = data[n:]
		}
		if sig, msg, _ := c09RunDFeed(c); sig != "" {
			t.Fatalf("%s: %s", sig, msg)
		}
	})
}

func init() {
	vfRegisterReplay("C17e-stale-coverage", func(raw json.RawMessage) error {
		var c c17eCase
		if err := json.Unmarshal(raw, &c); err != nil {
			return err
		}
		if sig, msg := c17eRun(c); sig != "" {
			return fmt.Errorf("%s: %s", sig, msg)
		}
		return nil
	})
	vfRegisterReplay("C09-feed", func(raw json.RawMessage) error {
		var c c09DFeedCase
		if err := json.Unmarshal(raw, &c); err != nil {
			return err
		}
		if sig, msg, _ := c09RunDFeed(c); sig != "" {
			return fmt.Errorf("%s: %s", sig, msg)
		}
		return nil
	})
}


// ---------------------------------------------------------------------------- C17e: coverage left behind by another message

type c17eCase struct {
	AType  int  `json:"atype"`  // handshake type of the abandoned message (1 = ClientHello, 20 = Finished)
	ATotal int  `json:"atotal"` // its announced length relative to the ClientHello's: 0 same, +8, -8
	Front  bool `json:"front"`  // the abandoned fragment covers the first 4 bytes (otherwise the last 4 of the shorter message)
}

// c17eRun: a server receives one fragment of a message it will never get the rest of, then - under
// the same message_seq - fragments of a real ClientHello that cover everything except the range the
// abandoned fragment covered. The ClientHello has a hole: the server must not act on it.
func c17eRun(c c17eCase) (sig, msg string) {
	c2s, _ := c09DRecorded()
	if len(c2s) == 0 || len(c2s[0]) < 13+12+20 {
		return "harness", "no recorded ClientHello"
	}
	body := c2s[0][25:]
	L := len(body)
	at := L + c.ATotal
	lo, hi := L-4, L
	if c.ATotal < 0 {
		lo, hi = at-4, at
	}
	if c.Front {
		lo, hi = 0, 4
	}
	junk := []byte{0xde, 0xad, 0xbe, 0xef}
	var dg [][]byte
	dg = append(dg, c09Rec(22, 0, 0, c09Frag(byte(c.AType), at, 0, lo, hi-lo, junk)))
	// the ClientHello without [lo, hi)
	seq := uint64(1)
	if lo > 0 {
		mid := lo / 2
		dg = append(dg, c09Rec(22, 0, seq, c09Frag(1, L, 0, 0, mid, body[:mid])))
		seq++
		dg = append(dg, c09Rec(22, 0, seq, c09Frag(1, L, 0, mid, lo-mid, body[mid:lo])))
		seq++
	}
	if hi < L {
		dg = append(dg, c09Rec(22, 0, seq, c09Frag(1, L, 0, hi, L-hi, body[hi:])))
	}
	_, scfg := vfBaseConfigs(ECC_SM4_GCM_SM3, false)
	f := &c09DFeed{}
	for _, d := range dg {
		f.dgrams = append(f.dgrams, d)
		f.from = append(f.from, false)
	}
	cn := Server(f, vfDAddr("10.0.0.2:2"), scfg)
	var hsErr error
	done := make(chan string, 1)
	go func() { done <- vfRecover(func() { hsErr = cn.Handshake() }) }()
	select {
	case p := <-done:
		if p != "" {
			return "panic", p
		}
	case <-time.After(30 * time.Second):
		return "spin-or-hang", "the server did not return on an exhausted transport"
	}
	if f.wrote != 0 {
		return "acted-on-incomplete-message", fmt.Sprintf("a ClientHello of %d bytes arrived without bytes %d..%d (those offsets had only been covered by a fragment of another message - type %d, announced length %d - under the same message_seq); the server answered with %d datagrams (handshake result: %v)", L, lo, hi, c.AType, at, f.wrote, hsErr)
	}
	return "", ""
}

func TestVF_C17_StaleCoverage(t *testing.T) {
	rec := vfRec("C17", "C17e-stale-coverage", "a server receives one 4-byte fragment of a message that is then abandoned (another type, or another announced length, same message_seq) and afterwards fragments of a real ClientHello covering everything but the range that fragment had covered; oracle: the server sends nothing (it may not act on a message with a hole), no panic, no hang; distinct = the case")
	idx := 0
	for _, at := range []int{20, 1, 11} {
		for _, tot := range []int{0, 8, -8} {
			for _, front := range []bool{false, true} {
				if at == 1 && tot == 0 {
					continue // the same message: its fragment legitimately counts
				}
				idx++
				if !vfMine(idx) {
					continue
				}
				c := c17eCase{AType: at, ATotal: tot, Front: front}
				sig, msg := c17eRun(c)
				if sig != "" {
					rec.Violation(sig, c, "%s", msg)
				}
				rec.Eval(true, c, fmt.Sprintf("atype:%d", at))
			}
		}
	}
	rec.SetExhaustive(true, fmt.Sprintf("%d cases", idx))
}
