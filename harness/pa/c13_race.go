//go:build verif

package pa

// C13 (adapter part): first use of a ProtocolSwitchServerConn from several goroutines at once.
// The adapter detects the protocol on first Read/Write; concurrent first calls must not race
// (binary built with -race), must all end up on the same protected connection, and the data of
// concurrent writers must reach the client whole.

import (
	"bytes"
	"crypto/tls"
	"encoding/binary"
	"encoding/json"
	"fmt"
	"io"
	"net"
	"sync"
	"testing"
	"time"

	"gitee.com/Trisia/gotlcp/tlcp"
	"pgregory.net/rapid"
)

type c13paCase struct {
	TLS     bool    `json:"tls"`
	Writers [][]int `json:"writers"` // server-side writers: payload sizes
	Readers int     `json:"readers"` // server-side goroutines whose first call is Read (1 reads the client's data, the others Read with an empty buffer)
	DelayUs []int   `json:"delay_us"`
	Client  []int   `json:"client"` // what the client writes
}

func c13paFrame(id, seq, size int) []byte {
	b := make([]byte, 8+size)
	b[0] = 0xF5
	b[1] = byte(id)
	binary.BigEndian.PutUint16(b[2:], uint16(seq))
	binary.BigEndian.PutUint32(b[4:], uint32(size))
	for i := 0; i < size; i++ {
		b[8+i] = byte(id*31 + seq*7 + i*13 + i>>8)
	}
	return b
}

func c13paRun(c c13paCase) (sig, msg string) {
	c20Setup()
	sim := vfNewStream()
	sim.monitor = false
	sw := NewProtocolSwitchServerConn(c20Listener(2), sim.ends[1])
	var cli net.Conn
	if c.TLS {
		cli = tls.Client(sim.ends[0], c20TLSCli)
	} else {
		cli = tlcp.Client(sim.ends[0], c20TLCPCli)
	}
	var mu sync.Mutex
	fail := func(s, m string) {
		mu.Lock()
		if sig == "" {
			sig, msg = s, m
		}
		mu.Unlock()
	}
	var wantCli, wantSrv []byte // what the client / the server must receive (server: exact; client: frames of several writers)
	for s, n := range c.Client {
		wantSrv = append(wantSrv, c13paFrame(200, s, n)...)
	}
	total := 0
	for _, w := range c.Writers {
		for _, n := range w {
			total += 8 + n
		}
	}
	_ = wantCli
	var wg sync.WaitGroup
	start := make(chan struct{})
	di := 0
	delay := func() time.Duration {
		d := 0
		if di < len(c.DelayUs) {
			d = c.DelayUs[di]
		}
		di++
		return time.Duration(d) * time.Microsecond
	}
	goRun := func(d time.Duration, f func()) {
		wg.Add(1)
		go func() {
			defer wg.Done()
			<-start
			time.Sleep(d)
			if pm := vfRecover(f); pm != "" {
				fail("panic", pm)
			}
		}()
	}
	for wi, w := range c.Writers {
		wi, w := wi, w
		goRun(delay(), func() {
			for s, n := range w {
				f := c13paFrame(wi, s, n)
				if m, err := sw.Write(f); err != nil || m != len(f) {
					fail("write-error", fmt.Sprintf("server writer %d: Write = %d, %v", wi, m, err))
					return
				}
			}
		})
	}
	var gotSrv []byte
	for r := 0; r < c.Readers; r++ {
		r := r
		goRun(delay(), func() {
			if r > 0 {
				if _, err := sw.Read(nil); err != nil {
					fail("read-error", fmt.Sprintf("server Read(nil): %v", err))
				}
				return
			}
			buf := make([]byte, len(wantSrv))
			if _, err := io.ReadFull(sw, buf); err != nil {
				fail("read-error", fmt.Sprintf("server reader: %v", err))
			}
			gotSrv = buf
		})
	}
	var gotCli []byte
	goRun(0, func() {
		for s, n := range c.Client {
			if _, err := cli.Write(c13paFrame(200, s, n)); err != nil {
				fail("client-error", fmt.Sprintf("client Write: %v", err))
				return
			}
		}
	})
	goRun(0, func() {
		buf := make([]byte, total)
		if _, err := io.ReadFull(cli, buf); err != nil {
			fail("client-error", fmt.Sprintf("client read: %v", err))
		}
		gotCli = buf
	})
	close(start)
	done := make(chan struct{})
	go func() { wg.Wait(); close(done) }()
	select {
	case <-done:
	case <-time.After(60 * time.Second):
		sim.ends[0].Close()
		sim.ends[1].Close()
		return "deadlock", "the goroutines using the adapter connection did not finish within 60s"
	}
	sim.ends[0].Close()
	sim.ends[1].Close()
	if sig != "" {
		return
	}
	if c.Readers > 0 && !bytes.Equal(gotSrv, wantSrv) {
		return "stream-torn", "the server side did not read what the client wrote"
	}
	// the client's stream: whole frames, per-writer order
	next := map[int]int{}
	for off := 0; off < len(gotCli); {
		rest := gotCli[off:]
		if len(rest) < 8 || rest[0] != 0xF5 {
			return "stream-torn", fmt.Sprintf("client stream does not continue with a frame at offset %d", off)
		}
		id, seq, sz := int(rest[1]), int(binary.BigEndian.Uint16(rest[2:])), int(binary.BigEndian.Uint32(rest[4:]))
		if id >= len(c.Writers) || seq != next[id] || seq >= len(c.Writers[id]) || sz != c.Writers[id][seq] || len(rest) < 8+sz || !bytes.Equal(rest[:8+sz], c13paFrame(id, seq, sz)) {
			return "stream-torn", fmt.Sprintf("client stream: frame at offset %d (writer %d, message %d, %d bytes) is not what was written next", off, id, seq, sz)
		}
		next[id]++
		off += 8 + sz
	}
	want := "*tlcp.Conn"
	if c.TLS {
		want = "*tls.Conn"
	}
	if got := fmt.Sprintf("%T", sw.ProtectedConn()); got != want {
		return "wrong-protected-conn", fmt.Sprintf("protected connection is %s, want %s", got, want)
	}
	return "", ""
}

func TestVF_C13_Adapter(t *testing.T) {
	rec := vfRec("C13", "C13c-adapter-first-use", "first use of the protocol-switching server connection by 1..4 writers and 0..3 readers at once (generated start offsets), client speaking TLCP or TLS; built with -race; oracles: no call fails, both streams carry exactly the frames written (whole, per-writer order), all goroutines finish; non-trivial = at least two goroutines make their first call concurrently; distinct = the case")
	vfRapid(t, rec, "first-use", vfN(200, 6000), func(t *rapid.T) {
		c := c13paCase{TLS: rapid.Bool().Draw(t, "tls"), Readers: rapid.IntRange(0, 3).Draw(t, "readers")}
		nw := rapid.IntRange(1, 4).Draw(t, "writers")
		for i := 0; i < nw; i++ {
			c.Writers = append(c.Writers, rapid.SliceOfN(rapid.SampledFrom([]int{0, 1, 100, 3000, 16384, 20000}), 1, 4).Draw(t, "sizes"))
		}
		c.Client = rapid.SliceOfN(rapid.SampledFrom([]int{0, 10, 5000, 17000}), 1, 3).Draw(t, "client")
		c.DelayUs = rapid.SliceOfN(rapid.SampledFrom([]int{0, 0, 0, 50, 500, 3000}), nw+c.Readers, nw+c.Readers).Draw(t, "delays")
		sig, msg := c13paRun(c)
		if sig != "" {
			rec.Fail(t, sig, c, "%s", msg)
		}
		cl := "tlcp"
		if c.TLS {
			cl = "tls"
		}
		rec.Eval(nw+c.Readers > 1, c, cl)
	})
}

func init() {
	vfRegisterReplay("C13c-adapter-first-use", func(raw json.RawMessage) error {
		var c c13paCase
		if err := json.Unmarshal(raw, &c); err != nil {
			return err
		}
		for i := 0; i < 200; i++ {
			if sig, msg := c13paRun(c); sig != "" {
				return fmt.Errorf("%s: %s", sig, msg)
			}
		}
		return nil
	})
}
