//go:build verif

package tlcp

func vfHSHeader(typ uint8, bodyLen int, seq uint16) []byte {
	return []byte{typ, byte(bodyLen >> 16), byte(bodyLen >> 8), byte(bodyLen)}
}
func vfSetSeq(m handshakeMessage, seq uint16)        {}
func vfSeqOf(hm vfHSMsg) uint16                      { return 0 }
func c14SetCookie(x *clientHelloMsg, b []byte)       {}
func c14GetCookie(x *clientHelloMsg) []byte          { return nil }
func c14ExtraNew(kind string) handshakeMessage       { return nil }
func c14ExtraTo(m c14Msg) handshakeMessage           { return nil }
func c14ExtraFrom(lm handshakeMessage) c14Msg        { return c14Msg{} }

// c04SendEmpty: the stream stack has no empty application message.
func c04SendEmpty(c *Conn) error { return nil }
