//go:build verif

package vfpkg

//vf:pkgs tlcp dtlcp

// Coverage-guided fuzzing of the handshake codec (thorough tier): the fuzzer's bytes choose the
// message type and are its body; the oracle is the same as in the generated C14 checks
// (c14CheckBytes: total, strict against the independent decoder, re-encoding exact or a fixed point).

import "testing"

func FuzzVF_C14(f *testing.F) {
	kinds := c14KindsForStack()
	for ki, kind := range kinds {
		g := c14Gen(kind)
		for i := 0; i < 6; i++ {
			// a message type without fields has no generated example
			vfRecover(func() { f.Add(byte(ki), c14Encode(g.Example(i))) })
		}
		f.Add(byte(ki), []byte{})
		f.Add(byte(ki), []byte{0, 0, 0})
		f.Add(byte(ki), []byte{0xff, 0xff, 0xff, 0xff})
	}
	f.Fuzz(func(t *testing.T, k byte, body []byte) {
		if len(body) > 70000 {
			return
		}
		kind := kinds[int(k)%len(kinds)]
		if sig, msg, _ := c14CheckBytes(kind, body, 0); sig != "" {
			t.Fatalf("%s: %s", sig, msg)
		}
	})
}
