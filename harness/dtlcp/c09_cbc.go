//go:build verif

package dtlcp

// C09h: protected records whose plaintext structure only a key holder can choose (any peer that has
// completed the key exchange is one): CBC bodies that are nothing but padding, padding longer than
// the record, bodies shorter than a MAC, on an established connection with a CBC suite. Oracle (C09):
// the receiver neither panics nor hangs; it stays usable (the following genuine datagram is delivered).

import (
	"bytes"
	"encoding/json"
	"fmt"
	"testing"
	"time"
)

type c09CBCCase struct {
	Suite    uint16 `json:"suite"`
	Blocks   int    `json:"blocks"` // plaintext blocks of the hostile record
	Fill     int    `json:"fill"`   // every plaintext byte; -1: the value that makes the body exactly valid padding
	ReadFrom bool   `json:"readfrom"`
}

func c09CBCRun(c c09CBCCase) (sig, msg string) {
	ccfg, scfg := vfBaseConfigs(c.Suite, false)
	cc := vfNewCapCache(4)
	ccfg.SessionCache, scfg.SessionCache = cc, vfNewCapCache(4)
	var sim *vfDSim
	var got []byte
	var rerr error
	opt := vfPairOpt{Prepare: func(s *vfDSim, _, _ *Conn) { sim = s }}
	opt.CliAct = func(cn *Conn) error {
		keys, err := refKeysOfTapsD(sim, cc)
		if err != nil {
			return err
		}
		key, _, _ := keys.dir(true)
		fill := byte(c.Fill)
		if c.Fill < 0 {
			fill = byte(16*c.Blocks - 1)
		}
		body := refCBCRaw(key, bytes.Repeat([]byte{0x5a}, 16), bytes.Repeat([]byte{fill}, 16*c.Blocks))
		d := append([]byte{23, 1, 1, 0, 1, 0, 0, 0, 0, 0, 200, byte(len(body) >> 8), byte(len(body))}, body...)
		sim.inject(1, sim.ends[0].addr, d, 0)
		_, err = cn.WriteTo([]byte("genuine after the hostile record"), cn.RemoteAddr())
		return err
	}
	opt.SrvAct = func(cn *Conn) error {
		buf := make([]byte, 200)
		cn.SetReadDeadline(time.Now().Add(2 * time.Second))
		var n int
		if c.ReadFrom {
			n, _, rerr = cn.ReadFrom(buf)
		} else {
			n, rerr = cn.Read(buf)
		}
		got = buf[:n]
		return nil
	}
	r := vfRunPair(ccfg, scfg, opt)
	if r.CPanic != "" || r.SPanic != "" {
		return "panic", fmt.Sprintf("a CBC record of %d blocks filled with %#02x made the receiver panic: %s%s", c.Blocks, byte(c.Fill), r.CPanic, r.SPanic)
	}
	if r.CErr != nil || r.SErr != nil || r.CAct != nil {
		return "honest-failed", fmt.Sprintf("%v / %v / %v", r.CErr, r.SErr, r.CAct)
	}
	if r.Stalled {
		return "hang", "the receiver neither delivered nor failed"
	}
	if rerr != nil || string(got) != "genuine after the hostile record" {
		return "connection-damaged", fmt.Sprintf("after the hostile record the genuine datagram was not delivered: %q, %v", got, rerr)
	}
	return "", ""
}

func TestVF_C09_CBC(t *testing.T) {
	rec := vfRec("C09", "C09h-key-holder-cbc-records", "established connection with a CBC suite; the peer (a key holder) sends one record whose 1..6 plaintext blocks are all one byte value: the value that makes the whole body valid padding, values around it, 0, 0x0f, 0x10, 0xff; receiver reading with Read or ReadFrom; oracle: no panic, no hang, the genuine datagram sent next is delivered; distinct = the case")
	idx := 0
	for _, suite := range []uint16{ECC_SM4_CBC_SM3, ECDHE_SM4_CBC_SM3} {
		for blocks := 1; blocks <= 6; blocks++ {
			for _, fill := range []int{-1, 16*blocks - 2, 16 * blocks, 0, 0x0f, 0x10, 0x2f, 0xff} {
				for _, rf := range []bool{false, true} {
					idx++
					if !vfMine(idx) {
						continue
					}
					c := c09CBCCase{Suite: suite, Blocks: blocks, Fill: fill, ReadFrom: rf}
					sig, msg := c09CBCRun(c)
					if sig != "" {
						rec.Violation(sig, c, "%s", msg)
					}
					rec.Eval(true, c, fmt.Sprintf("blocks:%d", blocks))
				}
			}
		}
	}
	rec.SetExhaustive(true, fmt.Sprintf("%d cases", idx))
}

func init() {
	vfRegisterReplay("C09h-key-holder-cbc-records", func(raw json.RawMessage) error {
		var c c09CBCCase
		if err := json.Unmarshal(raw, &c); err != nil {
			return err
		}
		if sig, msg := c09CBCRun(c); sig != "" {
			return fmt.Errorf("%s: %s", sig, msg)
		}
		return nil
	})
}
