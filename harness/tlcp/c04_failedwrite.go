//go:build verif

package tlcp

// C04b (stream stack): "per-record nonces never repeat under one key", when a transport write fails
// in the middle of a record. The bytes of that record that reached the wire carry its explicit nonce;
// whatever the connection sends afterwards under the same key (the alert of Close or CloseWrite) must
// carry another one.

import (
	"bytes"
	"encoding/json"
	"fmt"
	"sync"
	"testing"

	"pgregory.net/rapid"
)

type c04FWCase struct {
	Suite  uint16 `json:"suite"`  // a GCM suite: the nonce is explicit on the wire
	Side   int    `json:"side"`   // 0: the client writes
	Before []int  `json:"before"` // writes that succeed first
	Size   int    `json:"size"`   // the write whose first transport write fails
	Accept int    `json:"accept"` // bytes of that transport write that reach the wire (>= 13: header and nonce)
	End    int    `json:"end"`    // 1 Close, 2 CloseWrite, 3 CloseWrite then Close
}

func c04FWRun(c c04FWCase) (sig, msg string) {
	ccfg, scfg := vfBaseConfigs(c.Suite, false)
	sim := vfNewStream()
	sim.monitor = false
	cli, srv := Client(sim.ends[0], ccfg), Server(sim.ends[1], scfg)
	var wg sync.WaitGroup
	var e1, e2 error
	wg.Add(2)
	go func() { defer wg.Done(); e1 = cli.Handshake() }()
	go func() { defer wg.Done(); e2 = srv.Handshake() }()
	wg.Wait()
	if e1 != nil || e2 != nil {
		return "honest-failed", fmt.Sprintf("%v / %v", e1, e2)
	}
	x := cli
	if c.Side == 1 {
		x = srv
	}
	end := sim.ends[c.Side]
	for i, n := range c.Before {
		if m, err := x.Write(c01Payload(n, byte(i))); err != nil || m != n {
			return "honest-failed", fmt.Sprintf("write %d: (%d, %v)", i, m, err)
		}
	}
	sim.mu.Lock()
	mark := len(end.wrote)
	end.partialAt, end.partialN = end.nWrites, c.Accept
	sim.mu.Unlock()
	n, err := x.Write(c01Payload(c.Size, 0x77))
	if err == nil {
		return "write-error-lost", fmt.Sprintf("the transport failed in the middle of a record, Write returned (%d, nil)", n)
	}
	if p := vfRecover(func() {
		switch c.End {
		case 1:
			x.Close()
		case 2:
			x.CloseWrite()
		default:
			x.CloseWrite()
			x.Close()
		}
	}); p != "" {
		return "panic", p
	}
	sim.mu.Lock()
	tap := append([]byte(nil), end.wrote...)
	sim.mu.Unlock()
	if len(tap) < mark+13 || len(tap)-mark < c.Accept {
		return "harness-error", fmt.Sprintf("tap has %d bytes after the mark, %d were accepted", len(tap)-mark, c.Accept)
	}
	type nn struct {
		what  string
		nonce []byte
	}
	var seen []nn
	for i, r := range vfFrameStream(tap[:mark]) {
		if r.Epoch >= 1 && len(r.Frag) >= 8 {
			seen = append(seen, nn{fmt.Sprintf("record %d (type %d)", i, r.Typ), r.Frag[:8]})
		}
	}
	partial := tap[mark : mark+c.Accept]
	plen := 5 + int(partial[3])<<8 + int(partial[4])
	if c.Accept >= plen {
		return "harness-error", "the failing write was accepted whole"
	}
	seen = append(seen, nn{fmt.Sprintf("the record whose transport write failed after %d of %d bytes", c.Accept, plen), partial[5:13]})
	for i, r := range vfFrameStream(tap[mark+c.Accept:]) {
		if len(r.Frag) >= 8 {
			seen = append(seen, nn{fmt.Sprintf("record %d sent after the failure (type %d)", i, r.Typ), r.Frag[:8]})
		}
	}
	for i := range seen {
		for j := i + 1; j < len(seen); j++ {
			if bytes.Equal(seen[i].nonce, seen[j].nonce) {
				return "nonce-repeated", fmt.Sprintf("%s and %s carry the same explicit nonce %x under one key", seen[i].what, seen[j].what, seen[i].nonce)
			}
		}
	}
	return "", ""
}

func TestVF_C04_FailedWrite(t *testing.T) {
	rec := vfRec("C04", "C04b-nonce-after-failed-write", "GCM suites x writing side x 0..4 successful writes x a write whose first transport write takes 13..all-but-one bytes of the record and fails x Close / CloseWrite / both afterwards; oracle: the explicit nonces of all protected records of the direction on the wire, the partly sent one included, are pairwise different; distinct = the case")
	vfRapid(t, rec, "cases", vfN(60, 1500), func(t *rapid.T) {
		var gcm []uint16
		for _, s := range vfSuites {
			if vfIsGCM(s) {
				gcm = append(gcm, s)
			}
		}
		c := c04FWCase{Suite: rapid.SampledFrom(gcm).Draw(t, "suite"), Side: rapid.IntRange(0, 1).Draw(t, "side"),
			Before: rapid.SliceOfN(rapid.IntRange(1, 3000), 0, 4).Draw(t, "before"), Size: rapid.IntRange(1, 5000).Draw(t, "size"),
			End: rapid.IntRange(1, 3).Draw(t, "end")}
		// the first record of the failing write carries at most min(Size, first chunk) bytes; 13 bytes always exist
		c.Accept = rapid.IntRange(13, 13+rapid.IntRange(0, 20).Draw(t, "more")).Draw(t, "accept")
		sig, msg := c04FWRun(c)
		if sig == "harness-error" {
			t.Skip(msg)
		}
		if sig != "" {
			rec.Fail(t, sig, c, "%s", msg)
		}
		rec.Eval(true, c, fmt.Sprintf("end:%d", c.End))
	})
}

func init() {
	vfRegisterReplay("C04b-nonce-after-failed-write", func(raw json.RawMessage) error {
		var c c04FWCase
		if err := json.Unmarshal(raw, &c); err != nil {
			return err
		}
		if sig, msg := c04FWRun(c); sig != "" && sig != "harness-error" {
			return fmt.Errorf("%s: %s", sig, msg)
		}
		return nil
	})
}
