//go:build verif

package tlcp

// C05: attacked record streams deliver only a correct prefix, then a permanent error.

import (
	"bytes"
	"encoding/json"
	"errors"
	"fmt"
	"io"
	"testing"

	"pgregory.net/rapid"
)

type c05Edit struct {
	Kind string `json:"k"` // none, flip, drop, dup, swap, trunc, inject, replay (record Rec replaced by the record Off positions earlier), longpad (CBC: record re-sealed with Body extra padding blocks, then flipped if Mask != 0)
	Rec  int    `json:"r"` // index of the application record (0-based)
	Off  int    `json:"o"` // flip: byte offset within the record (header included); trunc: bytes of the record that still arrive (0 = boundary)
	Mask byte   `json:"m"`
	Typ  byte   `json:"t"` // inject: content type of the injected record
	Body int    `json:"b"` // inject: 0 two-byte alert-like body, 1 one byte 0x01 (CCS-like), 2 empty, 3 32 garbage bytes
}

type c05Case struct {
	Suite  uint16  `json:"suite"`
	Dir    int     `json:"dir"` // 0: client -> server is attacked, 1: server -> client
	Writes []int   `json:"writes"`
	Edit   c05Edit `json:"edit"`
	RecvCW bool    `json:"recvcw"` // the receiver shuts its write side down (CloseWrite) before it reads
	// Many > 0: Writes is Many writes of 1..4 bytes (more records than a 16-bit counter holds)
	Many int `json:"many,omitempty"`
	// Fill > 0: every payload byte has this value (runs of equal bytes, e.g. blanks)
	Fill int `json:"fill,omitempty"`
}

func (c c05Case) expand() c05Case {
	if c.Many > 0 && len(c.Writes) == 0 {
		c.Writes = make([]int, c.Many)
		for i := range c.Writes {
			c.Writes[i] = 1 + i%4
		}
	}
	return c
}

func c05Payload(c c05Case, i, n int) []byte {
	if c.Fill > 0 {
		return bytes.Repeat([]byte{byte(c.Fill)}, n)
	}
	return c01Payload(n, byte(i+3))
}

type c05Out struct {
	got        []byte
	firstErr   error
	laterOK    bool // a later Read returned data or a nil error
	nRecords   int
	alerts     [][2]byte // alerts the receiver sent back (level, code), decrypted with the reference
	applied    bool
	recLens    []int
}

func c05Exec(c c05Case) (out c05Out, sig, msg string) {
	ccfg, scfg := vfBaseConfigs(c.Suite, false)
	cc := vfNewCapCache(4)
	ccfg.SessionCache, scfg.SessionCache = cc, vfNewCapCache(4)
	c = c.expand()
	var hist [][]byte
	var chunks [][]byte
	for i, n := range c.Writes {
		chunks = append(chunks, c05Payload(c, i, n))
	}
	var sim *vfStream
	appIdx := -1
	seenCCS := false
	var stash []byte
	ed := c.Edit
	edit := func(idx int, rec []byte) [][]byte {
		if rec[0] == 20 {
			seenCCS = true
			return [][]byte{rec}
		}
		if !seenCCS || rec[0] != 23 {
			return [][]byte{rec}
		}
		appIdx++
		out.recLens = append(out.recLens, len(rec))
		hist = append(hist, append([]byte(nil), rec...))
		e := sim.ends[c.Dir]
		if stash != nil && ed.Kind == "swap" && appIdx == ed.Rec+1 {
			s := stash
			stash = nil
			out.applied = true
			return [][]byte{rec, s}
		}
		if appIdx != ed.Rec {
			return [][]byte{rec}
		}
		switch ed.Kind {
		case "flip":
			if ed.Off < len(rec) {
				rec[ed.Off] ^= ed.Mask
				out.applied = true
			}
		case "drop":
			out.applied = true
			return nil
		case "replay":
			if ed.Off >= 1 && ed.Off <= appIdx {
				out.applied = true
				return [][]byte{append([]byte(nil), hist[appIdx-ed.Off]...)}
			}
		case "dup":
			out.applied = true
			return [][]byte{rec, append([]byte(nil), rec...)}
		case "swap":
			stash = rec
			return nil
		case "trunc":
			if ed.Off < len(rec) {
				e.cutAfter = len(e.sentOut) + ed.Off
				out.applied = true
			}
		case "reblock":
			// CBC: the record keeps its IV and Off ciphertext blocks - the first Off (Mask 0) or the first
			// one followed by the last Off-1 (Mask 1: inner blocks cut out) - with the length field adjusted
			body := rec[5:]
			if vfIsGCM(c.Suite) || len(body) < 16+16*(ed.Off+1) || ed.Off < 1 {
				return [][]byte{rec}
			}
			blocks := body[16:]
			var nb []byte
			if ed.Mask == 0 {
				nb = append(nb, blocks[:16*ed.Off]...)
			} else {
				nb = append(nb, blocks[:16]...)
				nb = append(nb, blocks[len(blocks)-16*(ed.Off-1):]...)
			}
			frag := append(append([]byte(nil), body[:16]...), nb...)
			out.applied = true
			return [][]byte{append([]byte{rec[0], rec[1], rec[2], byte(len(frag) >> 8), byte(len(frag))}, frag...)}
		case "longpad":
			keys, err := refKeysOfTaps(sim.ends[0].wrote, sim.ends[1].wrote, cc)
			if err != nil || keys.GCM {
				return [][]byte{rec}
			}
			key, iv, mac := keys.dir(c.Dir == 0)
			var pts [][]byte
			for _, ch := range chunks {
				if len(ch) > 0 {
					pts = append(pts, ch)
				}
			}
			explicit := rec[5 : 5+16]
			frag := refSealPad(false, key, iv, mac, refSeq64(uint64(appIdx+1)), 23, [2]byte{1, 1}, explicit, pts[appIdx], ed.Body)
			nr := append([]byte{23, 1, 1, byte(len(frag) >> 8), byte(len(frag))}, frag...)
			out.applied = true
			out.recLens[len(out.recLens)-1] = len(nr)
			if ed.Mask != 0 {
				if ed.Off < len(nr) {
					nr[ed.Off] ^= ed.Mask
				} else {
					out.applied = false
				}
			}
			return [][]byte{nr}
		case "inject":
			var body []byte
			switch ed.Body {
			case 0:
				body = []byte{2, 40}
			case 1:
				body = []byte{1}
			case 2:
				body = nil
			default:
				body = bytes.Repeat([]byte{0xA5}, 32)
			}
			inj := append([]byte{ed.Typ, 1, 1, byte(len(body) >> 8), byte(len(body))}, body...)
			out.applied = true
			return [][]byte{inj, rec}
		}
		return [][]byte{rec}
	}
	send := func(cn *Conn) error {
		for _, ch := range chunks {
			if err := vfSendAll(cn, ch); err != nil {
				return err
			}
		}
		// end of the sender's stream: the transport ends (no close-notify), so a receiver waiting
		// for bytes that the attacker removed does not wait forever
		sim.ends[c.Dir].cutNow()
		return nil
	}
	recv := func(cn *Conn) error {
		if c.RecvCW {
			if err := cn.CloseWrite(); err != nil {
				return err
			}
		}
		buf := make([]byte, 4096)
		for {
			n, err := cn.Read(buf)
			out.got = append(out.got, buf[:n]...)
			if err != nil {
				out.firstErr = err
				break
			}
			if n == 0 {
				out.firstErr = errors.New("harness: Read returned (0, nil)")
				return nil
			}
		}
		for i := 0; i < 3; i++ {
			n, err := cn.Read(buf)
			if n != 0 || err == nil {
				out.laterOK = true
			}
		}
		return nil
	}
	opt := vfPairOpt{Prepare: func(s *vfStream, _, _ *Conn) { sim = s }}
	opt.Edit[c.Dir] = edit
	if c.Dir == 0 {
		opt.CliAct, opt.SrvAct = send, recv
	} else {
		opt.CliAct, opt.SrvAct = recv, send
	}
	r := vfRunPair(ccfg, scfg, opt)
	if r.CPanic != "" || r.SPanic != "" {
		return out, "panic", r.CPanic + r.SPanic
	}
	if r.CErr != nil || r.SErr != nil {
		return out, "honest-failed", fmt.Sprintf("honest handshake failed: %v / %v", r.CErr, r.SErr)
	}
	out.nRecords = appIdx + 1
	// alerts sent back by the receiver
	keys, err := refKeysOfPair(r, cc)
	if err != nil {
		return out, "ref-parse", err.Error()
	}
	key, iv, mac := keys.dir(c.Dir == 1) // the receiver's own write key
	for _, rec := range vfRecordsOf(r, 1-c.Dir) {
		if rec.Epoch == 1 && rec.Typ == 21 {
			pt, err := refOpen(keys.GCM, key, iv, mac, vfSeqInput(rec), rec.Typ, rec.Ver, rec.Frag)
			if err != nil || len(pt) != 2 {
				return out, "alert-open", fmt.Sprintf("receiver's alert record does not open under the reference: %v", err)
			}
			out.alerts = append(out.alerts, [2]byte{pt[0], pt[1]})
		}
	}
	return out, "", ""
}

// c05Check runs the case and applies the oracle.
func c05Check(c c05Case) (sig, msg string, classes []string, applied bool) {
	c = c.expand()
	out, sig, msg := c05Exec(c)
	if sig != "" {
		return sig, msg, nil, false
	}
	nonEmpty := 0
	var plain [][]byte
	for i, n := range c.Writes {
		if n > 0 {
			nonEmpty++
			plain = append(plain, c05Payload(c, i, n))
		}
	}
	if out.nRecords != nonEmpty {
		return "harness-records", fmt.Sprintf("expected one record per write (%d) but saw %d", nonEmpty, out.nRecords), nil, false
	}
	ed := c.Edit
	prefixRecs := len(plain)
	eofOK := true
	wantUnexpectedEOF := false
	if out.applied {
		eofOK = false
		switch ed.Kind {
		case "longpad":
			if ed.Mask == 0 {
				eofOK = true // a legal record with long padding: everything is delivered
			} else {
				prefixRecs = ed.Rec
			}
		case "flip", "swap", "inject", "replay", "reblock":
			prefixRecs = ed.Rec
		case "drop":
			prefixRecs = ed.Rec
			if ed.Rec == len(plain)-1 {
				eofOK = true // dropping the last record is a truncation at a record boundary
			}
		case "dup":
			prefixRecs = ed.Rec + 1
		case "trunc":
			prefixRecs = ed.Rec
			if ed.Off == 0 {
				eofOK = true
			} else {
				wantUnexpectedEOF = true
			}
		}
	}
	var want []byte
	for _, p := range plain[:prefixRecs] {
		want = append(want, p...)
	}
	if !bytes.Equal(out.got, want) {
		return "prefix", fmt.Sprintf("receiver read %d bytes, the correct prefix (whole records before the damage) has %d bytes; edit %+v applied=%v", len(out.got), len(want), ed, out.applied), nil, out.applied
	}
	if out.firstErr == nil {
		return "no-error", "receiver never got an error", nil, out.applied
	}
	if out.laterOK {
		return "error-not-sticky", fmt.Sprintf("after the first error (%v) a later Read succeeded or returned data", out.firstErr), nil, out.applied
	}
	if out.firstErr == io.EOF && !eofOK {
		return "clean-eof-after-damage", fmt.Sprintf("edit %+v was answered with io.EOF (a clean end of stream)", ed), nil, out.applied
	}
	if wantUnexpectedEOF && !errors.Is(out.firstErr, io.ErrUnexpectedEOF) {
		return "trunc-inside-record", fmt.Sprintf("stream cut inside a record reported as %v, want io.ErrUnexpectedEOF", out.firstErr), nil, out.applied
	}
	cls := []string{"edit:" + ed.Kind}
	if out.applied && ed.Kind == "reblock" && !c.RecvCW {
		if len(out.alerts) != 1 || out.alerts[0][1] != 20 {
			return "cbc-alert", fmt.Sprintf("CBC record cut down to %d blocks (inner blocks removed: %v; payload bytes all %#02x) answered with alerts %v, want exactly bad_record_mac(20)", ed.Off, ed.Mask == 1, c.Fill, out.alerts), nil, out.applied
		}
	}
	if out.applied && (ed.Kind == "flip" || (ed.Kind == "longpad" && ed.Mask != 0)) && !c.RecvCW {
		field := "fragment"
		switch {
		case ed.Off == 0:
			field = "hdr-type"
		case ed.Off <= 2:
			field = "hdr-version"
		case ed.Off <= 4:
			field = "hdr-length"
		}
		cls = append(cls, "flip:"+field)
		for _, a := range out.alerts {
			cls = append(cls, fmt.Sprintf("alert:%s:%d", field, a[1]))
		}
		// same-alert clause: CBC suites answer every damage after the header with bad_record_mac (20)
		if !vfIsGCM(c.Suite) && ed.Off >= 5 {
			if len(out.alerts) != 1 || out.alerts[0][1] != 20 {
				return "cbc-alert", fmt.Sprintf("CBC ciphertext damage at offset %d mask %02x answered with alerts %v, want exactly bad_record_mac(20)", ed.Off, ed.Mask, out.alerts), nil, out.applied
			}
		}
	}
	return "", "", cls, out.applied
}

func c05Structural(nrec int) []c05Edit {
	var es []c05Edit
	es = append(es, c05Edit{Kind: "none"})
	for i := 0; i < nrec; i++ {
		es = append(es, c05Edit{Kind: "drop", Rec: i}, c05Edit{Kind: "dup", Rec: i}, c05Edit{Kind: "trunc", Rec: i, Off: 0})
		if i+1 < nrec {
			es = append(es, c05Edit{Kind: "swap", Rec: i})
		}
		for _, typ := range []byte{20, 21, 22, 23, 24, 0x80} {
			for body := 0; body <= 3; body++ {
				es = append(es, c05Edit{Kind: "inject", Rec: i, Typ: typ, Body: body})
			}
		}
	}
	return es
}

func TestVF_C05(t *testing.T) {
	rec := vfRec("C05", "C05-records", "one edit on the protected application records of one direction after an honest handshake: flip (every byte of every record x masks 01,80,FF), drop, duplicate, swap, replay of an earlier record in place of a later one (also after 250+ records at distances 1, 2, 254..257, and after 65540 records at distance 2^16), truncate at every boundary and inside records, CBC records cut down to 1..4 whole blocks (from the front, or with the inner blocks removed) over payloads that are runs of one byte value, inject plaintext/garbage records of 6 content types x 4 bodies; x cipher modes x directions x write profiles; oracle: delivered bytes = whole records before the damage, then a sticky error (io.EOF only for a cut at a record boundary, ErrUnexpectedEOF inside a record), alerts decoded with the reference must be bad_record_mac for every fragment damage; non-trivial = edit applied to a protected record; distinct = (suite, direction, profile, edit)")
	suites := []uint16{ECC_SM4_GCM_SM3, ECC_SM4_CBC_SM3}
	profiles := [][]int{{1, 40, 17, 300}}
	if vfThorough() {
		suites = vfSuites
		profiles = [][]int{{1, 40, 17, 300}, {16, 15, 0, 47, 1}, {900, 33}}
	}
	masks := []byte{0x01, 0x80, 0xFF}
	idx := 0
	run := func(c c05Case) {
		sig, msg, cls, applied := c05Check(c)
		if sig != "" {
			rec.Violation(sig+":"+c.Edit.Kind, c, "%s", msg)
			return
		}
		rec.Eval(applied && c.Edit.Kind != "none", c, cls...)
	}
	for _, suite := range suites {
		for dir := 0; dir < 2; dir++ {
			for _, prof := range profiles {
				base := c05Case{Suite: suite, Dir: dir, Writes: prof, Edit: c05Edit{Kind: "none"}}
				bo, sig, msg := c05Exec(base)
				if sig != "" {
					rec.Violation(sig, base, "%s", msg)
					continue
				}
				for _, e := range c05Structural(len(bo.recLens)) {
					idx++
					if vfMine(idx) {
						c := base
						c.Edit = e
						run(c)
						// the same edit against a receiver that has already shut down its write side
						c.RecvCW = true
						run(c)
					}
				}
				if !vfIsGCM(suite) {
					// CBC records with long (legal) padding, untouched and with every byte flipped
					for _, blocks := range []int{3, 14} {
						for ri := range bo.recLens {
							probe := base
							probe.Edit = c05Edit{Kind: "longpad", Rec: ri, Body: blocks}
							po, _, _ := c05Exec(probe)
							idx++
							if vfMine(idx) {
								run(probe)
							}
							if ri >= len(po.recLens) {
								continue
							}
							for off := 0; off < po.recLens[ri]; off++ {
								if !vfThorough() && (off+ri)%3 != 0 && off < po.recLens[ri]-70 {
									continue
								}
								for _, m := range masks {
									idx++
									if vfMine(idx) {
										c := base
										c.Edit = c05Edit{Kind: "longpad", Rec: ri, Body: blocks, Off: off, Mask: m}
										run(c)
									}
								}
							}
						}
					}
				}
				for ri, rl := range bo.recLens {
					for off := 0; off < rl; off++ {
						// quick tier: every header byte, every byte of short records, a stride on long ones
						if !vfThorough() && rl > 120 && off >= 5+40 && off < rl-40 && off%7 != 0 {
							continue
						}
						for _, m := range masks {
							idx++
							if vfMine(idx) {
								c := base
								c.Edit = c05Edit{Kind: "flip", Rec: ri, Off: off, Mask: m}
								run(c)
							}
						}
						if off > 0 && (vfThorough() || off < 30 || off > rl-30 || off%5 == 0) {
							idx++
							if vfMine(idx) {
								c := base
								c.Edit = c05Edit{Kind: "trunc", Rec: ri, Off: off}
								run(c)
							}
						}
					}
				}
			}
		}
	}
	// many records, then an old record replayed in place of a new one at distances around the
	// points where a byte of the sequence number carries
	long := make([]int, 300)
	for i := range long {
		long[i] = 1 + i%5
	}
	for _, suite := range suites {
		for dir := 0; dir < 2; dir++ {
			for _, at := range []int{290, 257} {
				for _, d := range []int{1, 2, 254, 255, 256, 257} {
					idx++
					if !vfMine(idx) || d > at {
						continue
					}
					run(c05Case{Suite: suite, Dir: dir, Writes: long, Edit: c05Edit{Kind: "replay", Rec: at, Off: d}})
				}
			}
			idx++
			if vfMine(idx) {
				run(c05Case{Suite: suite, Dir: dir, Writes: long, Edit: c05Edit{Kind: "swap", Rec: 255}})
			}
		}
	}
	// CBC records cut down to whole blocks, payloads that are runs of one byte value (so that the tail
	// of the forgery may decrypt to something that looks like padding)
	for _, suite := range []uint16{ECC_SM4_CBC_SM3, ECDHE_SM4_CBC_SM3} {
		for dir := 0; dir < 2; dir++ {
			for _, fill := range []int{0x20, 0x10, 0x2f, 0x0f, 0xff, 0} {
				for _, size := range []int{74, 200} {
					for k := 1; k <= 4; k++ {
						for _, mask := range []byte{0, 1} {
							idx++
							if !vfMine(idx) {
								continue
							}
							run(c05Case{Suite: suite, Dir: dir, Writes: []int{5, size, 7}, Fill: fill, Edit: c05Edit{Kind: "reblock", Rec: 1, Off: k, Mask: mask}})
						}
					}
				}
			}
		}
	}
	// more records than a 16-bit counter holds: a record replayed exactly 2^16 (and 2^16 +- 1) positions later
	for si, suite := range []uint16{ECC_SM4_GCM_SM3, ECC_SM4_CBC_SM3} {
		for dir := 0; dir < 2; dir++ {
			for _, d := range []int{65536, 65535, 65537} {
				idx++
				if !vfMine(idx) {
					continue
				}
				if !vfThorough() && (d != 65536 || (si+dir)%2 != 0) {
					continue
				}
				run(c05Case{Suite: suite, Dir: dir, Many: 65545, Edit: c05Edit{Kind: "replay", Rec: 65540, Off: d}})
			}
		}
	}
	rec.SetExhaustive(vfThorough(), fmt.Sprintf("%d enumerated edits over %d suites x 2 directions x %d write profiles (thorough: every byte x 3 masks and every truncation point; quick: strided on the long record)", idx, len(suites), len(profiles)))
	// random profiles and edits
	vfRapid(t, rec, "random", vfN(600, 20000), func(t *rapid.T) {
		c := c05Case{Suite: rapid.SampledFrom(vfSuites).Draw(t, "suite"), Dir: rapid.IntRange(0, 1).Draw(t, "dir"),
			Writes: rapid.SliceOfN(rapid.IntRange(1, 700), 1, 5).Draw(t, "writes"), RecvCW: rapid.IntRange(0, 3).Draw(t, "recvcw") == 0}
		if rapid.IntRange(0, 7).Draw(t, "many") == 0 {
			// many small records: the sequence number's low byte wraps
			c.Writes = make([]int, rapid.IntRange(200, 600).Draw(t, "nrec"))
			for i := range c.Writes {
				c.Writes[i] = 1 + i%3
			}
		}
		ri := rapid.IntRange(0, len(c.Writes)-1).Draw(t, "rec")
		kind := rapid.SampledFrom([]string{"flip", "flip", "flip", "drop", "dup", "swap", "trunc", "inject", "replay"}).Draw(t, "kind")
		c.Edit = c05Edit{Kind: kind, Rec: ri}
		switch kind {
		case "replay":
			if ri == 0 {
				c.Edit.Kind = "dup"
			} else {
				c.Edit.Off = rapid.OneOf(rapid.IntRange(1, ri), rapid.SampledFrom([]int{1, 255, 256, 510, 512})).Draw(t, "dist")
				if c.Edit.Off > ri {
					c.Edit.Off = ri
				}
			}
		case "flip":
			c.Edit.Off = rapid.IntRange(0, 5+16+c.Writes[ri]+48).Draw(t, "off")
			c.Edit.Mask = byte(rapid.IntRange(1, 255).Draw(t, "mask"))
		case "trunc":
			c.Edit.Off = rapid.IntRange(0, 5+8+c.Writes[ri]).Draw(t, "off")
		case "inject":
			c.Edit.Typ = byte(rapid.IntRange(0, 255).Draw(t, "typ"))
			c.Edit.Body = rapid.IntRange(0, 3).Draw(t, "body")
		case "swap":
			if ri == len(c.Writes)-1 {
				c.Edit.Kind = "dup"
			}
		}
		sig, msg, cls, applied := c05Check(c)
		if sig != "" {
			rec.Fail(t, sig+":"+c.Edit.Kind, c, "%s", msg)
		}
		rec.Eval(applied, c, cls...)
	})
}

func init() {
	vfRegisterReplay("C05-records", func(raw json.RawMessage) error {
		var c c05Case
		if err := json.Unmarshal(raw, &c); err != nil {
			return err
		}
		if sig, msg, _, _ := c05Check(c); sig != "" {
			return fmt.Errorf("%s: %s", sig, msg)
		}
		return nil
	})
}
