//go:build verif

package vfpkg

// Core of the verification harness: evidence recorder, rapid wrapper, sharding,
// known-findings lookup, replay registry. Compiled into each library package
// (tlcp, dtlcp, pa) through the go tool's -overlay; see /verif/DESIGN.md 2.1.

import (
	"sync/atomic"
	"strings"
	"encoding/json"
	"flag"
	"fmt"
	"hash/fnv"
	"os"
	"path/filepath"
	"runtime/debug"
	"sort"
	"strconv"
	"sync"
	"testing"

	"pgregory.net/rapid"
)

const vfPkg = "VFPKGNAME"

type vfViolation struct {
	Sig  string          `json:"sig"`
	Msg  string          `json:"msg"`
	Case json.RawMessage `json:"case"`
}

type vfRecord struct {
	mu            sync.Mutex
	Prop          string           `json:"prop"`
	Sub           string           `json:"sub"`
	Rule          string           `json:"rule"`
	Space         string           `json:"space"`
	Evaluations   int64            `json:"evaluations"`
	nontrivial    map[uint64]struct{}
	Nontrivial    []string         `json:"nontrivial"`
	Classes       map[string]int64 `json:"classes"`
	Samples       []interface{}    `json:"samples"`
	Violations    []vfViolation    `json:"violations"`
	ExcludedKnown map[string]int64 `json:"excluded_known"`
	Inconclusive  int64            `json:"inconclusive"`
	Exhaustive    *bool            `json:"exhaustive"`
	KnownStatus   map[string]bool  `json:"known_status"`
	Notes         []string         `json:"notes"`
	lastFail      *vfViolation
	sampleEvery   int64
}

var (
	vfMu      sync.Mutex
	vfRecords = map[string]*vfRecord{}
)

// vfRec returns the recorder of sub-check sub (e.g. "C11a/tlcp") of property prop.
func vfRec(prop, sub, rule string) *vfRecord {
	vfMu.Lock()
	defer vfMu.Unlock()
	key := sub + "/" + vfPkg
	if r, ok := vfRecords[key]; ok {
		return r
	}
	r := &vfRecord{Prop: prop, Sub: key, Rule: rule, nontrivial: map[uint64]struct{}{}, Classes: map[string]int64{},
		ExcludedKnown: map[string]int64{}, KnownStatus: map[string]bool{}, sampleEvery: 1}
	vfRecords[key] = r
	return r
}

func vfHash(parts ...interface{}) uint64 {
	h := fnv.New64a()
	for _, p := range parts {
		switch v := p.(type) {
		case []byte:
			h.Write(v)
		case string:
			h.Write([]byte(v))
		default:
			b, _ := json.Marshal(v)
			h.Write(b)
		}
		h.Write([]byte{0})
	}
	return h.Sum64()
}

// vfDistinctCap bounds the set of distinct non-trivial case hashes a worker keeps (and reports): beyond
// it the count in the evidence is a lower bound. Without it the longest campaigns ran out of memory
// while writing their report.
const vfDistinctCap = 400000

// Eval counts one executed case. nontrivial: the sub-check's stated predicate; c: the case
// (hashed for the distinct count and possibly kept as a sample); classes: labels to histogram.
func (r *vfRecord) Eval(nontrivial bool, c interface{}, classes ...string) {
	r.mu.Lock()
	defer r.mu.Unlock()
	r.Evaluations++
	if nontrivial && len(r.nontrivial) < vfDistinctCap {
		r.nontrivial[vfHash(c)] = struct{}{}
	}
	for _, cl := range classes {
		if cl != "" {
			r.Classes[cl]++
		}
	}
	// keep samples spread over the run: 1st, 2nd, 4th, 8th ... case, at most 8
	if nontrivial && r.Evaluations >= r.sampleEvery && len(r.Samples) < 8 {
		r.Samples = append(r.Samples, c)
		r.sampleEvery *= 4
	}
}

// EvalHash is Eval for callers that computed the distinct hash themselves (cheap hot loops).
func (r *vfRecord) EvalHash(nontrivial bool, h uint64, sample func() interface{}, classes ...string) {
	r.mu.Lock()
	defer r.mu.Unlock()
	r.Evaluations++
	if nontrivial && len(r.nontrivial) < vfDistinctCap {
		r.nontrivial[h] = struct{}{}
	}
	for _, cl := range classes {
		if cl != "" {
			r.Classes[cl]++
		}
	}
	if nontrivial && r.Evaluations >= r.sampleEvery && len(r.Samples) < 8 && sample != nil {
		r.Samples = append(r.Samples, sample())
		r.sampleEvery *= 4
	}
}

func (r *vfRecord) Class(cl string) {
	r.mu.Lock()
	r.Classes[cl]++
	r.mu.Unlock()
}

func (r *vfRecord) Excluded(finding string) {
	r.mu.Lock()
	r.ExcludedKnown[finding]++
	r.mu.Unlock()
}

func (r *vfRecord) Note(s string) {
	r.mu.Lock()
	if len(r.Notes) < 20 {
		r.Notes = append(r.Notes, s)
	}
	r.mu.Unlock()
}

func (r *vfRecord) SetExhaustive(b bool, space string) {
	r.mu.Lock()
	r.Exhaustive = &b
	r.Space = space
	r.mu.Unlock()
}

// Known records whether the pinned reproducer of a listed known finding still fails.
func (r *vfRecord) Known(id string, stillFails bool) {
	r.mu.Lock()
	r.KnownStatus[id] = stillFails
	r.mu.Unlock()
}

// Transient SM2 failures (DESIGN 6.3): untouched conversations between honest endpoints that fail inside
// an SM2 computation - signature verification of an honestly signed message, parsing of an honestly
// generated point, decryption of an honestly encrypted pre-master secret. Seen half a dozen times, only
// inside long campaigns on a heavily loaded machine, never from the saved case and never in 4 million
// handshakes of dedicated stress runs; they cannot be attributed to the code under test.
var vfTransientSeen int64

// vfTransient decides whether a failure that names an SM2 computation is raised. If the sub-check has a
// replayer, the case is run again three times: a failure that shows again is raised like any other; one
// that does not is counted (excluded class "transient-sm2-error") and not raised. Without a replayer up
// to two occurrences per process are counted and a third is raised.
func (r *vfRecord) vfTransient(msg string, c []byte) bool {
	if !strings.Contains(strings.ToLower(msg), "sm2") {
		return false
	}
	n := atomic.AddInt64(&vfTransientSeen, 1)
	if f := vfReplayers[r.Sub]; f != nil && n <= 50 {
		for i := 0; i < 3; i++ {
			if err := f(json.RawMessage(c)); err != nil {
				return false // it is reproducible from the case: a genuine violation
			}
		}
		fmt.Fprintf(os.Stderr, "NOTE transient SM2 failure #%d in this process (the same case passed 3 times afterwards): %.300s\n", n, msg)
		return true
	}
	fmt.Fprintf(os.Stderr, "NOTE transient SM2 failure #%d in this process: %.300s\n", n, msg)
	return n <= 2
}

// Violation records a violation (outside rapid: enumerations, pinned cases).
func (r *vfRecord) Violation(sig string, c interface{}, format string, a ...interface{}) {
	b, _ := json.Marshal(c)
	if r.vfTransient(fmt.Sprintf(format, a...), b) {
		r.Excluded("transient-sm2-error")
		return
	}
	r.mu.Lock()
	defer r.mu.Unlock()
	// one entry per signature is enough; keep the first (enumerations run small cases first)
	for _, v := range r.Violations {
		if v.Sig == sig {
			return
		}
	}
	r.Violations = append(r.Violations, vfViolation{Sig: sig, Msg: fmt.Sprintf(format, a...), Case: b})
}

// failT is the part of *rapid.T / *testing.T used to abort a case.
type failT interface {
	Fatalf(format string, args ...interface{})
	Helper()
}

// Fail is used inside rapid properties: remembers the failing case (the last one remembered is the
// shrunk one, because rapid re-runs the minimal case last) and aborts the case.
func (r *vfRecord) Fail(t failT, sig string, c interface{}, format string, a ...interface{}) {
	t.Helper()
	b, _ := json.Marshal(c)
	msg := fmt.Sprintf(format, a...)
	if r.vfTransient(msg, b) {
		r.Excluded("transient-sm2-error")
		return
	}
	r.mu.Lock()
	r.lastFail = &vfViolation{Sig: sig, Msg: msg, Case: b}
	r.mu.Unlock()
	t.Fatalf("VF violation %s: %s", sig, msg)
}

func (r *vfRecord) flushFail() {
	r.mu.Lock()
	defer r.mu.Unlock()
	if r.lastFail != nil {
		r.Violations = append(r.Violations, *r.lastFail)
		r.lastFail = nil
	}
}

// ---------------------------------------------------------------------------- environment

func vfEnvInt(name string, def int) int {
	if s := os.Getenv(name); s != "" {
		if v, err := strconv.Atoi(s); err == nil {
			return v
		}
	}
	return def
}

func vfThorough() bool { return os.Getenv("VERIF_TIER") == "thorough" }
func vfSeed() int      { return vfEnvInt("VERIF_SEED", 1) }
func vfShard() int     { return vfEnvInt("VERIF_SHARD", 0) }
func vfNShards() int {
	n := vfEnvInt("VERIF_NSHARDS", 1)
	if n < 1 {
		n = 1
	}
	return n
}

// vfN picks a per-process case count: total for the tier divided over the shards.
func vfN(quick, thorough int) int {
	n := quick
	if vfThorough() {
		n = thorough
	}
	if pct := vfEnvInt("VERIF_NSCALE", 100); pct != 100 {
		n = n * pct / 100
	}
	n = (n + vfNShards() - 1) / vfNShards()
	if n < 1 {
		n = 1
	}
	return n
}

// vfMine tells whether item i of an enumeration belongs to this shard.
func vfMine(i int) bool { return i%vfNShards() == vfShard() }

// vfRapid runs a rapid property n times with a seed derived from VERIF_SEED, the shard and the name.
// rapid's fail files are disabled; the shrunk failing case is captured through rec.Fail.
func vfRapid(t *testing.T, rec *vfRecord, name string, n int, prop func(*rapid.T)) {
	t.Helper()
	seed := vfHash("seed", vfSeed(), vfShard(), name, vfPkg) & 0x7fffffffffffffff
	if salt := os.Getenv("VERIF_SALT"); salt != "" {
		seed = vfHash("seed", vfSeed(), vfShard(), name, vfPkg, salt) & 0x7fffffffffffffff
	}
	if seed == 0 {
		seed = 1 // 0 means "random" to rapid
	}
	flag.Set("rapid.checks", strconv.Itoa(n))
	flag.Set("rapid.seed", strconv.FormatUint(seed, 10))
	flag.Set("rapid.nofailfile", "true")
	flag.Set("rapid.shrinktime", "20s")
	t.Run(name, func(t *testing.T) {
		defer rec.flushFail()
		rapid.Check(t, prop)
	})
}

// ---------------------------------------------------------------------------- known findings

type vfKnownEntry struct {
	ID        string `json:"id"`
	Property  string `json:"property"`
	Signature string `json:"signature"`
	What      string `json:"what"`
}

var (
	vfKnownOnce sync.Once
	vfKnownSet  = map[string]bool{}
)

// vfKnown tells whether finding id is listed as known (not fixed) in /verif/known_findings.json.
// Checks use it to exclude, by construction, the precondition class of a listed finding from the
// generated search (counted under excluded_known) so that the search continues behind it.
func vfKnown(id string) bool {
	vfKnownOnce.Do(func() {
		p := os.Getenv("VERIF_KNOWN")
		if p == "" {
			return
		}
		b, err := os.ReadFile(p)
		if err != nil {
			return
		}
		var f struct {
			Known []vfKnownEntry `json:"known"`
		}
		if json.Unmarshal(b, &f) == nil {
			for _, e := range f.Known {
				vfKnownSet[e.ID] = true
			}
		}
	})
	return vfKnownSet[id]
}

// ---------------------------------------------------------------------------- replay registry

var vfReplayers = map[string]func(json.RawMessage) error{}

// vfRegisterReplay registers the function that re-runs one saved case of sub-check sub.
func vfRegisterReplay(sub string, f func(json.RawMessage) error) { vfReplayers[sub+"/"+vfPkg] = f }

func TestVF_Replay(t *testing.T) {
	p := os.Getenv("VERIF_REPLAY")
	if p == "" {
		t.Skip("no VERIF_REPLAY")
	}
	b, err := os.ReadFile(p)
	if err != nil {
		t.Fatal(err)
	}
	var f struct {
		Sub  string          `json:"sub"`
		Case json.RawMessage `json:"case"`
	}
	if err := json.Unmarshal(b, &f); err != nil {
		t.Fatal(err)
	}
	rp, ok := vfReplayers[f.Sub]
	if !ok {
		t.Fatalf("no replayer registered for %s", f.Sub)
	}
	if err := rp(f.Case); err != nil {
		t.Fatalf("replayed case still violates: %v", err)
	}
}

// ---------------------------------------------------------------------------- report

func vfWriteReport() {
	dir := os.Getenv("VERIF_OUT")
	if dir == "" {
		return
	}
	vfMu.Lock()
	defer vfMu.Unlock()
	var recs []*vfRecord
	for _, r := range vfRecords {
		r.mu.Lock()
		r.Nontrivial = r.Nontrivial[:0]
		for h := range r.nontrivial {
			r.Nontrivial = append(r.Nontrivial, strconv.FormatUint(h, 36))
		}
		sort.Strings(r.Nontrivial)
		if r.lastFail != nil {
			r.Violations = append(r.Violations, *r.lastFail)
			r.lastFail = nil
		}
		r.mu.Unlock()
		recs = append(recs, r)
	}
	sort.Slice(recs, func(i, j int) bool { return recs[i].Sub < recs[j].Sub })
	out := map[string]interface{}{"pkg": vfPkg, "records": recs, "seed": vfSeed(), "shard": vfShard()}
	b, err := json.Marshal(out)
	if err != nil {
		fmt.Fprintln(os.Stderr, "vf: cannot marshal report:", err)
		return
	}
	tmp := filepath.Join(dir, fmt.Sprintf("report-%d.json.tmp", os.Getpid()))
	if err := os.WriteFile(tmp, b, 0o644); err == nil {
		os.Rename(tmp, filepath.Join(dir, fmt.Sprintf("report-%d.json", os.Getpid())))
	}
}

func TestMain(m *testing.M) {
	debug.SetGCPercent(200)
	code := m.Run()
	vfWriteReport()
	os.Exit(code)
}

// vfRecover runs f and converts a panic into an error string (with stack) so that an endpoint
// goroutine that panics is reported as a violation instead of killing the test process.
func vfRecover(f func()) (panicked string) {
	defer func() {
		if r := recover(); r != nil {
			panicked = fmt.Sprintf("%v\n%s", r, debug.Stack())
		}
	}()
	f()
	return ""
}
