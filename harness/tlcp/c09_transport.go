//go:build verif

package tlcp

// C09g: the transport fails under an endpoint's own write in the middle of an otherwise honest
// handshake (the peer is gone, the link is cut): the j-th transport write of one side takes k bytes
// and fails. Oracle (C09): that side's Handshake returns an error - it neither panics nor hangs nor
// reports success - and later calls fail too.

import (
	"encoding/json"
	"fmt"
	"sync"
	"testing"
	"time"
)

type c09TCase struct {
	Suite   uint16 `json:"suite"`
	Side    int    `json:"side"` // whose transport write fails
	J       int    `json:"j"`    // ordinal of the failing transport write
	K       int    `json:"k"`    // bytes it still takes
	Resumed bool   `json:"resumed"`
}

func c09TRun(c c09TCase) (sig, msg string, applied bool) {
	ccfg, scfg := vfBaseConfigs(c.Suite, false)
	ccfg.SessionCache, scfg.SessionCache = NewLRUSessionCache(4), NewLRUSessionCache(4)
	if c.Resumed {
		if r0 := vfRunPair(ccfg, scfg, vfPairOpt{}); r0.CErr != nil || r0.SErr != nil {
			return "honest-failed", fmt.Sprintf("%v / %v", r0.CErr, r0.SErr), false
		}
	}
	sim := vfNewStream()
	sim.monitor = false
	cli, srv := Client(sim.ends[0], ccfg), Server(sim.ends[1], scfg)
	sim.ends[c.Side].partialAt, sim.ends[c.Side].partialN = c.J, c.K
	var errs [2]error
	var panics [2]string
	var wg sync.WaitGroup
	for i, cn := range []*Conn{cli, srv} {
		i, cn := i, cn
		wg.Add(1)
		go func() {
			defer wg.Done()
			panics[i] = vfRecover(func() { errs[i] = cn.Handshake() })
			if errs[i] != nil || panics[i] != "" {
				sim.ends[i].Close() // a failed endpoint hangs up
			}
		}()
	}
	done := make(chan struct{})
	go func() { wg.Wait(); close(done) }()
	select {
	case <-done:
	case <-time.After(20 * time.Second):
		sim.ends[0].Close()
		sim.ends[1].Close()
		<-done
		return "hang", "a handshake whose transport write failed did not end within 20 s", true
	}
	sim.mu.Lock()
	applied = sim.ends[c.Side].nWrites > c.J
	sim.mu.Unlock()
	if panics[0] != "" || panics[1] != "" {
		return "panic", fmt.Sprintf("transport write %d of side %d failed after %d bytes: client %q server %q", c.J, c.Side, c.K, panics[0], panics[1]), applied
	}
	if !applied {
		return "", "", false
	}
	x := []*Conn{cli, srv}[c.Side]
	if errs[c.Side] == nil {
		return "write-error-lost", fmt.Sprintf("transport write %d of side %d failed after %d bytes, its Handshake returned nil", c.J, c.Side, c.K), true
	}
	if x.ConnectionState().HandshakeComplete {
		return "complete-flag", "HandshakeComplete after a failed handshake", true
	}
	if p := vfRecover(func() {
		if err := x.Handshake(); err == nil {
			sig, msg = "handshake-error-not-sticky", "a second Handshake call returned nil"
		}
	}); p != "" {
		return "panic", "second Handshake call: " + p, true
	}
	return sig, msg, true
}

func TestVF_C09_Transport(t *testing.T) {
	rec := vfRec("C09", "C09g-own-write-fails", "honest full and resumed handshakes in which the j-th transport write (j = 0..3) of the client or of the server takes 0, 7 or 100 bytes and fails; two suites; oracle: no panic, no hang, that side's Handshake returns an error and keeps returning one, HandshakeComplete stays false; non-trivial = the write was reached; distinct = the case")
	idx := 0
	for _, suite := range []uint16{ECC_SM4_GCM_SM3, ECDHE_SM4_CBC_SM3} {
		for _, resumed := range []bool{false, true} {
			for side := 0; side < 2; side++ {
				for j := 0; j < 4; j++ {
					for _, k := range []int{0, 7, 100} {
						idx++
						if !vfMine(idx) {
							continue
						}
						c := c09TCase{Suite: suite, Side: side, J: j, K: k, Resumed: resumed}
						sig, msg, applied := c09TRun(c)
						if sig != "" {
							rec.Violation(sig, c, "%s", msg)
						}
						rec.Eval(applied, c, fmt.Sprintf("side:%d", side))
					}
				}
			}
		}
	}
	rec.SetExhaustive(true, fmt.Sprintf("%d cases", idx))
}

func init() {
	vfRegisterReplay("C09g-own-write-fails", func(raw json.RawMessage) error {
		var c c09TCase
		if err := json.Unmarshal(raw, &c); err != nil {
			return err
		}
		if sig, msg, _ := c09TRun(c); sig != "" {
			return fmt.Errorf("%s: %s", sig, msg)
		}
		return nil
	})
}
