//go:build verif

package vfpkg

//vf:pkgs tlcp dtlcp

// C14: handshake message encoding and decoding are inverse, strict and total.
// An independent encoder and an independent strict decoder for all message bodies (written from
// the structure definitions of GB/T 38636-2020 6.4.5 / GM/T 0024 extensions, not from the library's
// code) give a differential oracle in both directions; field-wise round trips, mutations of valid
// encodings and arbitrary bytes complete the check.
//
// Precondition taken from the only caller (readHandshake): "framed" input = the type byte is the
// struct's own and the outer length equals the body length (DTLCP: offset 0, fragment length =
// length). Outside it only totality (no panic) is asserted.

import (
	"bytes"
	"encoding/json"
	"fmt"
	"reflect"
	"testing"

	"pgregory.net/rapid"
)

type c14TA struct {
	Type uint8  `json:"t"`
	ID   []byte `json:"id"`
}

// c14Msg is a stack-neutral description of a handshake message.
type c14Msg struct {
	Kind        string   `json:"kind"`
	Vers        uint16   `json:"vers,omitempty"`
	Random      []byte   `json:"random,omitempty"`
	SessionID   []byte   `json:"sid,omitempty"`
	Cookie      []byte   `json:"cookie,omitempty"`
	Suites      []uint16 `json:"suites,omitempty"`
	Compression []byte   `json:"comp,omitempty"`
	ServerName  string   `json:"sni,omitempty"`
	TA          []c14TA  `json:"ta,omitempty"`
	OCSP        bool     `json:"ocsp,omitempty"`
	Curves      []uint16 `json:"curves,omitempty"`
	SigAlgs     []uint16 `json:"sigalgs,omitempty"`
	ALPN        []string `json:"alpn,omitempty"`
	ClientID    []byte   `json:"clientid,omitempty"`
	Suite       uint16   `json:"suite,omitempty"`
	Comp        uint8    `json:"c,omitempty"`
	OCSPResp    []byte   `json:"ocspresp,omitempty"`
	SNIAck      bool     `json:"sniack,omitempty"`
	Certs       [][]byte `json:"certs,omitempty"`
	Opaque      []byte   `json:"opaque,omitempty"` // SKX key, CKE ciphertext, CV signature, Finished verify data
	CertTypes   []byte   `json:"certtypes,omitempty"`
	CAs         [][]byte `json:"cas,omitempty"`
}

var c14Kinds = []string{"CH", "SH", "Cert", "SKX", "CR", "SHD", "CKE", "CV", "Fin"}

func c14Type(kind string) uint8 {
	return map[string]uint8{"CH": 1, "SH": 2, "HVR": 3, "Cert": 11, "SKX": 12, "CR": 13, "SHD": 14, "CV": 15, "CKE": 16, "Fin": 20}[kind]
}

// ---------------------------------------------------------------------------- independent encoder

type c14W struct{ b []byte }

func (w *c14W) u8(v uint8)   { w.b = append(w.b, v) }
func (w *c14W) u16(v uint16) { w.b = append(w.b, byte(v>>8), byte(v)) }
func (w *c14W) raw(p []byte) { w.b = append(w.b, p...) }
// Structural malformation: the c14VecMutAt-th length-prefixed vector written during one c14Encode
// (pre-order) gets its content duplicated, emptied, extended by one byte or shortened by one byte;
// its own length prefix and all enclosing ones stay consistent, so the damage is to the structure
// inside (element counts, element boundaries), which is what a strict decoder has to notice.
var (
	c14VecCount int
	c14VecMutAt = -1
	c14VecMutOp string
)

func (w *c14W) vec(n int, f func(*c14W)) {
	var in c14W
	idx := c14VecCount
	c14VecCount++
	f(&in)
	if idx == c14VecMutAt {
		switch c14VecMutOp {
		case "dup":
			in.b = append(append([]byte(nil), in.b...), in.b...)
		case "empty":
			in.b = nil
		case "extra":
			in.b = append(append([]byte(nil), in.b...), 0)
		case "droplast":
			if len(in.b) > 0 {
				in.b = in.b[:len(in.b)-1]
			}
		}
		if l := len(in.b); n < 3 && l >= 1<<(8*uint(n)) {
			in.b = in.b[:1<<(8*uint(n))-1]
		}
	}
	l := len(in.b)
	for i := n - 1; i >= 0; i-- {
		w.b = append(w.b, byte(l>>(8*uint(i))))
	}
	w.b = append(w.b, in.b...)
}

// c14Encode is the independent encoder of a message body.
func c14Encode(m c14Msg) []byte {
	c14VecCount = 0
	var w c14W
	ext := func(id uint16, f func(*c14W)) func(*c14W) {
		return func(w *c14W) { w.u16(id); w.vec(2, f) }
	}
	switch m.Kind {
	case "CH":
		w.u16(m.Vers)
		w.raw(m.Random)
		w.vec(1, func(w *c14W) { w.raw(m.SessionID) })
		if vfStack == "dtlcp" {
			w.vec(1, func(w *c14W) { w.raw(m.Cookie) })
		}
		w.vec(2, func(w *c14W) {
			for _, s := range m.Suites {
				w.u16(s)
			}
		})
		w.vec(1, func(w *c14W) { w.raw(m.Compression) })
		var exts []func(*c14W)
		if m.ServerName != "" {
			exts = append(exts, ext(0, func(w *c14W) {
				w.vec(2, func(w *c14W) { w.u8(0); w.vec(2, func(w *c14W) { w.raw([]byte(m.ServerName)) }) })
			}))
		}
		if len(m.TA) > 0 {
			exts = append(exts, ext(3, func(w *c14W) {
				w.vec(2, func(w *c14W) {
					for _, ta := range m.TA {
						w.u8(ta.Type)
						switch ta.Type {
						case 2:
							w.vec(2, func(w *c14W) { w.raw(ta.ID) })
						case 4, 5:
							w.raw(ta.ID)
						}
					}
				})
			}))
		}
		if m.OCSP {
			exts = append(exts, ext(5, func(w *c14W) { w.u8(1); w.u16(0); w.u16(0) }))
		}
		if len(m.Curves) > 0 {
			exts = append(exts, ext(10, func(w *c14W) {
				w.vec(2, func(w *c14W) {
					for _, c := range m.Curves {
						w.u16(c)
					}
				})
			}))
		}
		if len(m.SigAlgs) > 0 {
			exts = append(exts, ext(13, func(w *c14W) {
				w.vec(2, func(w *c14W) {
					for _, c := range m.SigAlgs {
						w.u16(c)
					}
				})
			}))
		}
		if len(m.ALPN) > 0 {
			exts = append(exts, ext(16, func(w *c14W) {
				w.vec(2, func(w *c14W) {
					for _, p := range m.ALPN {
						w.vec(1, func(w *c14W) { w.raw([]byte(p)) })
					}
				})
			}))
		}
		if len(m.ClientID) > 0 {
			exts = append(exts, ext(66, func(w *c14W) { w.vec(2, func(w *c14W) { w.raw(m.ClientID) }) }))
		}
		if len(exts) > 0 {
			w.vec(2, func(w *c14W) {
				for _, e := range exts {
					e(w)
				}
			})
		}
	case "SH":
		w.u16(m.Vers)
		w.raw(m.Random)
		w.vec(1, func(w *c14W) { w.raw(m.SessionID) })
		w.u16(m.Suite)
		w.u8(m.Comp)
		var exts []func(*c14W)
		if m.OCSP && len(m.OCSPResp) > 0 {
			exts = append(exts, ext(5, func(w *c14W) { w.u8(1); w.vec(3, func(w *c14W) { w.raw(m.OCSPResp) }) }))
		}
		if len(m.ALPN) == 1 && m.ALPN[0] != "" {
			exts = append(exts, ext(16, func(w *c14W) { w.vec(2, func(w *c14W) { w.vec(1, func(w *c14W) { w.raw([]byte(m.ALPN[0])) }) }) }))
		}
		if m.SNIAck {
			exts = append(exts, ext(0, func(w *c14W) {}))
		}
		if len(exts) > 0 {
			w.vec(2, func(w *c14W) {
				for _, e := range exts {
					e(w)
				}
			})
		}
	case "HVR":
		w.u16(m.Vers)
		w.vec(1, func(w *c14W) { w.raw(m.Cookie) })
	case "Cert":
		w.vec(3, func(w *c14W) {
			for _, c := range m.Certs {
				w.vec(3, func(w *c14W) { w.raw(c) })
			}
		})
	case "SKX", "CKE":
		w.raw(m.Opaque)
	case "Fin":
		w.raw(m.Opaque)
	case "CV":
		w.vec(2, func(w *c14W) { w.raw(m.Opaque) })
	case "CR":
		w.vec(1, func(w *c14W) { w.raw(m.CertTypes) })
		w.vec(2, func(w *c14W) {
			for _, ca := range m.CAs {
				w.vec(2, func(w *c14W) { w.raw(ca) })
			}
		})
	case "SHD":
	}
	return w.b
}

// ---------------------------------------------------------------------------- independent strict decoder

type c14R struct {
	b  []byte
	ok bool
}

func (r *c14R) take(n int) []byte {
	if !r.ok || n < 0 || len(r.b) < n {
		r.ok = false
		return nil
	}
	x := r.b[:n]
	r.b = r.b[n:]
	return x
}
func (r *c14R) u8() uint8 {
	x := r.take(1)
	if x == nil {
		return 0
	}
	return x[0]
}
func (r *c14R) u16() uint16 {
	x := r.take(2)
	if x == nil {
		return 0
	}
	return uint16(x[0])<<8 | uint16(x[1])
}
func (r *c14R) vec(n int) *c14R {
	x := r.take(n)
	if x == nil {
		return &c14R{ok: false}
	}
	l := 0
	for _, b := range x {
		l = l<<8 | int(b)
	}
	return &c14R{b: r.take(l), ok: r.ok}
}
func (r *c14R) empty() bool { return len(r.b) == 0 }

// c14Decode: independent strict decoder. wellFormed = every inner length consistent with the outer
// one, nothing trailing. canonical = additionally nothing the library is documented to ignore
// (unknown extensions or identifier types, duplicates, reordering, ignored sub-elements, empty
// extension block), so that re-encoding must reproduce the bytes.
// c14LastDup: the last c14Decode saw an extension twice. Duplicate extensions are illegal and what a
// decoder does with the second copy is unspecified (first wins / last wins / merge), so the
// field-wise comparison is skipped for such inputs; structure and fixed point are still checked.
var c14LastDup bool

func c14Decode(kind string, body []byte) (m c14Msg, wellFormed, canonical bool) {
	m.Kind = kind
	c14LastDup = false
	r := &c14R{b: body, ok: true}
	canonical = true
	exts := func(known map[uint16]func(*c14R) bool, order []uint16) bool {
		if r.empty() {
			return true
		}
		block := r.vec(2)
		if !block.ok || !r.empty() {
			return false
		}
		if block.empty() {
			canonical = false
		}
		seen := map[uint16]bool{}
		last := -1
		for !block.empty() {
			id := block.u16()
			data := block.vec(2)
			if !block.ok || !data.ok {
				return false
			}
			f, isKnown := known[id]
			if !isKnown {
				canonical = false
				continue
			}
			if seen[id] {
				canonical = false
				c14LastDup = true
			}
			seen[id] = true
			pos := 0
			for i, o := range order {
				if o == id {
					pos = i
				}
			}
			if pos < last {
				canonical = false
			}
			last = pos
			if !f(data) || !data.ok || !data.empty() {
				return false
			}
		}
		return true
	}
	switch kind {
	case "CH":
		m.Vers = r.u16()
		m.Random = r.take(32)
		m.SessionID = r.vec(1).b
		if vfStack == "dtlcp" {
			m.Cookie = r.vec(1).b
		}
		sv := r.vec(2)
		if !r.ok || !sv.ok {
			return m, false, false
		}
		m.Suites = []uint16{}
		for !sv.empty() {
			m.Suites = append(m.Suites, sv.u16())
			if !sv.ok {
				return m, false, false
			}
		}
		m.Compression = r.vec(1).b
		if !r.ok {
			return m, false, false
		}
		ok := exts(map[uint16]func(*c14R) bool{
			0: func(d *c14R) bool {
				l := d.vec(2)
				if !l.ok || l.empty() {
					return false
				}
				n := 0
				for !l.empty() {
					t := l.u8()
					name := l.vec(2)
					if !l.ok || !name.ok || name.empty() {
						return false
					}
					// RFC 6066: every name type carries a 16-bit length and unknown types are skipped.
					// Further host_name entries after the first are ignored: the library does so
					// deliberately (comment in tlcp/handshake_messages.go: "ignore multiple SNI, only
					// the first is processed"), so they count as content the library ignores.
					if t != 0 {
						canonical = false
						continue
					}
					n++
					if n > 1 {
						canonical = false
						continue
					}
					m.ServerName = string(name.b)
				}
				return true
			},
			3: func(d *c14R) bool {
				l := d.vec(2)
				if !l.ok || l.empty() {
					return false
				}
				for !l.empty() {
					t := l.u8()
					if !l.ok {
						return false
					}
					switch t {
					case 0:
						m.TA = append(m.TA, c14TA{Type: t, ID: []byte{}})
					case 4, 5:
						id := l.take(32)
						if !l.ok {
							return false
						}
						m.TA = append(m.TA, c14TA{Type: t, ID: id})
					case 2:
						id := l.vec(2)
						if !id.ok {
							return false
						}
						m.TA = append(m.TA, c14TA{Type: t, ID: id.b})
					default:
						canonical = false // identifier type the library ignores (its length is unknown)
					}
				}
				return true
			},
			5: func(d *c14R) bool {
				t := d.u8()
				a, b := d.vec(2), d.vec(2)
				if !d.ok || !a.ok || !b.ok {
					return false
				}
				m.OCSP = t == 1
				if t != 1 || !a.empty() || !b.empty() {
					canonical = false
				}
				return true
			},
			10: func(d *c14R) bool {
				l := d.vec(2)
				if !l.ok || l.empty() {
					return false
				}
				for !l.empty() {
					m.Curves = append(m.Curves, l.u16())
					if !l.ok {
						return false
					}
				}
				return true
			},
			13: func(d *c14R) bool {
				l := d.vec(2)
				if !l.ok || l.empty() {
					return false
				}
				for !l.empty() {
					m.SigAlgs = append(m.SigAlgs, l.u16())
					if !l.ok {
						return false
					}
				}
				return true
			},
			16: func(d *c14R) bool {
				l := d.vec(2)
				if !l.ok || l.empty() {
					return false
				}
				for !l.empty() {
					p := l.vec(1)
					if !l.ok || !p.ok || p.empty() {
						return false
					}
					m.ALPN = append(m.ALPN, string(p.b))
				}
				return true
			},
			66: func(d *c14R) bool {
				id := d.vec(2)
				if !id.ok {
					return false
				}
				m.ClientID = id.b
				if id.empty() {
					canonical = false
				}
				return true
			},
		}, []uint16{0, 3, 5, 10, 13, 16, 66})
		return m, ok && r.ok, canonical
	case "SH":
		m.Vers = r.u16()
		m.Random = r.take(32)
		m.SessionID = r.vec(1).b
		m.Suite = r.u16()
		m.Comp = r.u8()
		if !r.ok {
			return m, false, false
		}
		ok := exts(map[uint16]func(*c14R) bool{
			5: func(d *c14R) bool {
				t := d.u8()
				resp := d.vec(3)
				if !d.ok || !resp.ok {
					return false
				}
				m.OCSP = true
				m.OCSPResp = resp.b
				if t != 1 || resp.empty() {
					canonical = false
				}
				return true
			},
			16: func(d *c14R) bool {
				l := d.vec(2)
				if !l.ok {
					return false
				}
				p := l.vec(1)
				if !l.ok || !p.ok || p.empty() || !l.empty() {
					return false
				}
				m.ALPN = []string{string(p.b)}
				return true
			},
			0: func(d *c14R) bool { m.SNIAck = true; return d.empty() },
		}, []uint16{5, 16, 0})
		return m, ok && r.ok, canonical
	case "HVR":
		m.Vers = r.u16()
		m.Cookie = r.vec(1).b
		return m, r.ok && r.empty(), canonical
	case "Cert":
		l := r.vec(3)
		if !r.ok || !l.ok || !r.empty() {
			return m, false, false
		}
		for !l.empty() {
			c := l.vec(3)
			if !l.ok || !c.ok {
				return m, false, false
			}
			m.Certs = append(m.Certs, c.b)
		}
		return m, true, true
	case "SKX", "CKE", "Fin":
		m.Opaque = body
		return m, true, true
	case "CV":
		s := r.vec(2)
		m.Opaque = s.b
		return m, r.ok && s.ok && r.empty(), true
	case "CR":
		t := r.vec(1)
		cas := r.vec(2)
		if !r.ok || !t.ok || !cas.ok || !r.empty() || t.empty() {
			return m, false, false
		}
		m.CertTypes = t.b
		for !cas.empty() {
			ca := cas.vec(2)
			if !cas.ok || !ca.ok {
				return m, false, false
			}
			m.CAs = append(m.CAs, ca.b)
		}
		return m, true, true
	case "SHD":
		return m, len(body) == 0, true
	}
	return m, false, false
}

// ---------------------------------------------------------------------------- normalisation / comparison

func c14Norm(m c14Msg) c14Msg {
	nb := func(b []byte) []byte {
		if len(b) == 0 {
			return nil
		}
		return append([]byte(nil), b...)
	}
	m.Random, m.SessionID, m.Cookie, m.Compression, m.ClientID = nb(m.Random), nb(m.SessionID), nb(m.Cookie), nb(m.Compression), nb(m.ClientID)
	m.OCSPResp, m.Opaque, m.CertTypes = nb(m.OCSPResp), nb(m.Opaque), nb(m.CertTypes)
	if len(m.Suites) == 0 {
		m.Suites = nil
	}
	if len(m.Curves) == 0 {
		m.Curves = nil
	}
	if len(m.SigAlgs) == 0 {
		m.SigAlgs = nil
	}
	if len(m.ALPN) == 0 {
		m.ALPN = nil
	}
	if len(m.TA) == 0 {
		m.TA = nil
	}
	for i := range m.TA {
		m.TA[i].ID = nb(m.TA[i].ID)
	}
	if len(m.Certs) == 0 {
		m.Certs = nil
	}
	for i := range m.Certs {
		m.Certs[i] = nb(m.Certs[i])
	}
	if len(m.CAs) == 0 {
		m.CAs = nil
	}
	for i := range m.CAs {
		m.CAs[i] = nb(m.CAs[i])
	}
	if !m.OCSP {
		m.OCSPResp = nil
	}
	return m
}

func c14Equal(a, b c14Msg) bool { return reflect.DeepEqual(c14Norm(a), c14Norm(b)) }

// ---------------------------------------------------------------------------- generators

func c14Bytes(t *rapid.T, label string, min, max int) []byte {
	n := rapid.OneOf(rapid.IntRange(min, max), rapid.SampledFrom([]int{min, max})).Draw(t, label+"-len")
	if n < min {
		n = min
	}
	if n > 70 && rapid.IntRange(0, 9).Draw(t, label+"-big") != 0 {
		n = min + n%60
	}
	b := make([]byte, n)
	seed := byte(rapid.IntRange(0, 255).Draw(t, label+"-seed"))
	for i := range b {
		b[i] = seed + byte(i*7)
	}
	return b
}

func c14U16s(t *rapid.T, label string, max int) []uint16 {
	return rapid.SliceOfN(rapid.Uint16(), 0, max).Draw(t, label)
}

func c14Gen(kind string) *rapid.Generator[c14Msg] {
	return rapid.Custom(func(t *rapid.T) c14Msg {
		m := c14Msg{Kind: kind}
		switch kind {
		case "CH":
			m.Vers = rapid.SampledFrom([]uint16{0x0101, 0x0101, 0x0303, 0, 0xffff}).Draw(t, "vers")
			m.Random = c14Bytes(t, "random", 32, 32)
			m.SessionID = c14Bytes(t, "sid", 0, 255)
			if vfStack == "dtlcp" {
				m.Cookie = c14Bytes(t, "cookie", 0, 255)
			}
			m.Suites = c14U16s(t, "suites", 40)
			m.Compression = c14Bytes(t, "comp", 0, 255)
			if rapid.Bool().Draw(t, "hasSNI") {
				m.ServerName = string(c14Bytes(t, "sni", 1, 300))
				if m.ServerName[len(m.ServerName)-1] == '.' {
					m.ServerName += "x"
				}
			}
			nta := rapid.IntRange(0, 4).Draw(t, "nta")
			for i := 0; i < nta; i++ {
				ta := c14TA{Type: rapid.SampledFrom([]uint8{0, 2, 4, 5}).Draw(t, "tatype")}
				switch ta.Type {
				case 2:
					ta.ID = c14Bytes(t, "dn", 0, 300)
				case 4, 5:
					ta.ID = c14Bytes(t, "hash", 32, 32)
				}
				m.TA = append(m.TA, ta)
			}
			m.OCSP = rapid.Bool().Draw(t, "ocsp")
			m.Curves = c14U16s(t, "curves", 8)
			m.SigAlgs = c14U16s(t, "sigalgs", 8)
			na := rapid.IntRange(0, 5).Draw(t, "nalpn")
			for i := 0; i < na; i++ {
				m.ALPN = append(m.ALPN, string(c14Bytes(t, "proto", 1, 255)))
			}
			if rapid.Bool().Draw(t, "hasID") {
				m.ClientID = c14Bytes(t, "clientid", 1, 2000)
			}
		case "SH":
			m.Vers = rapid.SampledFrom([]uint16{0x0101, 0x0101, 0x0303, 0}).Draw(t, "vers")
			m.Random = c14Bytes(t, "random", 32, 32)
			m.SessionID = c14Bytes(t, "sid", 0, 255)
			m.Suite = rapid.Uint16().Draw(t, "suite")
			m.Comp = rapid.Uint8().Draw(t, "comp")
			if rapid.Bool().Draw(t, "ocsp") {
				m.OCSP = true
				m.OCSPResp = c14Bytes(t, "ocspresp", 1, 3000)
			}
			if rapid.Bool().Draw(t, "alpn") {
				m.ALPN = []string{string(c14Bytes(t, "proto", 1, 255))}
			}
			m.SNIAck = rapid.Bool().Draw(t, "sniack")
		case "HVR":
			m.Vers = 0x0101
			m.Cookie = c14Bytes(t, "cookie", 0, 255)
		case "Cert":
			n := rapid.IntRange(0, 5).Draw(t, "ncerts")
			for i := 0; i < n; i++ {
				m.Certs = append(m.Certs, c14Bytes(t, "cert", 1, 4000)) // ASN.1Cert<1..2^24-1>
			}
		case "SKX", "CKE":
			m.Opaque = c14Bytes(t, "opaque", 0, 3000)
		case "Fin":
			m.Opaque = c14Bytes(t, "verify", 0, 64)
		case "CV":
			m.Opaque = c14Bytes(t, "sig", 0, 3000)
		case "CR":
			m.CertTypes = c14Bytes(t, "types", 1, 255)
			n := rapid.IntRange(0, 5).Draw(t, "ncas")
			for i := 0; i < n; i++ {
				m.CAs = append(m.CAs, c14Bytes(t, "ca", 0, 600))
			}
		default:
			// a message without fields (ServerHelloDone): rapid insists that a generator consumes something
			rapid.Bool().Draw(t, "nofields")
		}
		return m
	})
}

// ---------------------------------------------------------------------------- the checks

// c14Frame puts the stack's handshake header in front of a body.
func c14Frame(kind string, body []byte, seq uint16) []byte {
	return append(vfHSHeader(c14Type(kind), len(body), seq), body...)
}

// c14LibDecode decodes framed bytes with the library; panic-safe.
func c14LibDecode(kind string, framed []byte) (m c14Msg, ok bool, panicked string) {
	panicked = vfRecover(func() {
		lm := c14NewLib(kind)
		if lm == nil {
			return
		}
		if lm.unmarshal(append([]byte(nil), framed...)) {
			m, ok = c14FromLib(lm), true
		}
	})
	return
}

// c14LibEncode builds the library struct from the fields and marshals it; panic-safe.
func c14LibEncode(m c14Msg, seq uint16) (framed []byte, panicked string) {
	panicked = vfRecover(func() {
		lm := c14ToLib(m)
		vfSetSeq(lm, seq)
		b, err := lm.marshal()
		if err == nil {
			framed = b
		}
	})
	return
}

func c14CheckFields(m c14Msg, seq uint16) (sig, msg string) {
	framed, p := c14LibEncode(m, seq)
	if p != "" {
		return "marshal-panic", p
	}
	if framed == nil {
		return "", "" // the library refuses to encode (oversized): not a round-trip case
	}
	want := c14Frame(m.Kind, c14Encode(m), seq)
	if !bytes.Equal(framed, want) {
		n := 0
		for n < len(framed) && n < len(want) && framed[n] == want[n] {
			n++
		}
		return "encode-differs:" + m.Kind, fmt.Sprintf("%s: library encoding (%d bytes) differs from the independent encoding (%d bytes) at offset %d", m.Kind, len(framed), len(want), n)
	}
	got, ok, p := c14LibDecode(m.Kind, framed)
	if p != "" {
		return "unmarshal-panic", p
	}
	if !ok {
		return "roundtrip-rejected:" + m.Kind, fmt.Sprintf("%s: the library does not decode its own encoding (%d bytes)", m.Kind, len(framed))
	}
	if !c14Equal(got, m) {
		return "roundtrip-fields:" + m.Kind, fmt.Sprintf("%s: decode(encode(m)) != m: got %+v want %+v", m.Kind, c14Norm(got), c14Norm(m))
	}
	return "", ""
}

// c14CheckAlias: encodings that have been handed out, and inputs that have been decoded, are not
// rewritten by later operations on the message object (transcripts hold them). seq2 is a second
// message sequence number (datagram stack; on the stream stack setting it is a no-op).
func c14CheckAlias(m c14Msg, seq, seq2 uint16) (sig, msg string) {
	var s1, s2 string
	p := vfRecover(func() {
		// (a) an encoding returned earlier stays as it was
		lm := c14ToLib(m)
		vfSetSeq(lm, seq)
		out1, err := lm.marshal()
		if err != nil {
			return
		}
		keep := append([]byte(nil), out1...)
		vfSetSeq(lm, seq2)
		out2, err := lm.marshal()
		if err != nil {
			return
		}
		if !bytes.Equal(out1, keep) {
			s1 = fmt.Sprintf("%s: the encoding returned by marshal() was rewritten in place by a later setMessageSeq/marshal on the same message", m.Kind)
			return
		}
		if want := c14Frame(m.Kind, c14Encode(m), seq2); !bytes.Equal(out2, want) {
			s1 = fmt.Sprintf("%s: after the message sequence number was changed marshal() does not give the encoding of the current fields", m.Kind)
			return
		}
		// (b) a decoded input stays as it was
		in := c14Frame(m.Kind, c14Encode(m), seq)
		keepIn := append([]byte(nil), in...)
		lm2 := c14NewLib(m.Kind)
		if lm2 == nil || !lm2.unmarshal(in) {
			return
		}
		vfSetSeq(lm2, seq2)
		out3, err := lm2.marshal()
		if err != nil {
			return
		}
		if !bytes.Equal(in, keepIn) {
			s2 = fmt.Sprintf("%s: the byte slice handed to unmarshal() was modified by a later setMessageSeq/marshal on the decoded message", m.Kind)
			return
		}
		if want := c14Frame(m.Kind, c14Encode(m), seq2); !bytes.Equal(out3, want) {
			s2 = fmt.Sprintf("%s: a decoded message whose sequence number was changed does not re-encode to its fields", m.Kind)
		}
	})
	if p != "" {
		return "marshal-panic", p
	}
	if s1 != "" {
		return "encoding-rewritten:" + m.Kind, s1
	}
	if s2 != "" {
		return "input-rewritten:" + m.Kind, s2
	}
	return "", ""
}

// c14CheckBytes: body is an arbitrary candidate body for a message of this kind (framed by the harness).
func c14CheckBytes(kind string, body []byte, seq uint16) (sig, msg string, accepted bool) {
	framed := c14Frame(kind, body, seq)
	got, ok, p := c14LibDecode(kind, framed)
	if p != "" {
		return "unmarshal-panic:" + kind, p, false
	}
	ref, wf, canon := c14Decode(kind, body)
	if !ok {
		return "", "", false
	}
	if !wf {
		return "accepts-malformed:" + kind, fmt.Sprintf("%s: the library accepts a %d-byte body whose inner lengths are inconsistent or that has trailing bytes: %x", kind, len(body), c14Head(body)), true
	}
	if !c14LastDup && !c14Equal(got, ref) {
		return "decode-differs:" + kind, fmt.Sprintf("%s: library decoded %+v, independent decoder %+v", kind, c14Norm(got), c14Norm(ref)), true
	}
	re, p := c14LibEncode(got, seq)
	if p != "" {
		return "marshal-panic:" + kind, p, true
	}
	if re == nil {
		return "", "", true
	}
	if canon {
		if !bytes.Equal(re, framed) {
			return "reencode-differs:" + kind, fmt.Sprintf("%s: re-encoding a canonical input (%d bytes) gives different bytes (%d)", kind, len(framed), len(re)), true
		}
	} else {
		again, ok2, _ := c14LibDecode(kind, re)
		if !ok2 || !c14Equal(again, got) {
			return "reencode-not-fixed-point:" + kind, fmt.Sprintf("%s: re-encoding is not a fixed point", kind), true
		}
	}
	return "", "", true
}

func c14Head(b []byte) []byte {
	if len(b) > 48 {
		return b[:48]
	}
	return b
}

func c14KindsForStack() []string {
	if vfStack == "dtlcp" {
		return append(append([]string(nil), c14Kinds...), "HVR")
	}
	return c14Kinds
}

type c14Case struct {
	Kind string `json:"kind"`
	Msg  *c14Msg `json:"msg,omitempty"`
	Body []byte `json:"body,omitempty"`
	Seq  uint16 `json:"seq"`
}

func c14RunCase(c c14Case) (sig, msg string) {
	if c.Msg != nil {
		if sig, msg := c14CheckFields(*c.Msg, c.Seq); sig != "" {
			return sig, msg
		}
		return c14CheckAlias(*c.Msg, c.Seq, c.Seq^0x0101)
	}
	sig, msg, _ = c14CheckBytes(c.Kind, c.Body, c.Seq)
	return
}

func TestVF_C14(t *testing.T) {
	kinds := c14KindsForStack()
	recF := vfRec("C14", "C14-fields", "rapid generators for every field of every message type within the standard's ranges (empty and maximal vectors, every extension, both header forms): library encoding == independent encoding byte for byte, decode(encode(m)) == m field-wise, and neither an encoding handed out earlier nor a decoded input is rewritten when the message's sequence number is changed and it is encoded again; non-trivial = at least one non-empty variable-length vector or extension; distinct = hash of the fields")
	for _, kind := range kinds {
		kind := kind
		vfRapid(t, recF, "fields-"+kind, vfN(1500, 60000), func(t *rapid.T) {
			m := c14Gen(kind).Draw(t, "msg")
			seq := uint16(rapid.IntRange(0, 65535).Draw(t, "seq"))
			sig, msg := c14CheckFields(m, seq)
			if sig == "" {
				sig, msg = c14CheckAlias(m, seq, seq^0x0101)
			}
			if sig != "" {
				mm := m
				recF.Fail(t, sig, c14Case{Kind: kind, Msg: &mm, Seq: seq}, "%s", msg)
			}
			body := c14Encode(m)
			recF.EvalHash(len(body) > 40 || kind == "SHD", vfHash(kind, body), func() interface{} {
				return map[string]interface{}{"kind": kind, "body_len": len(body), "head": fmt.Sprintf("%x", c14Head(body))}
			}, "kind:"+kind)
		})
	}
	recM := vfRec("C14", "C14-mutations", "every truncation (re-framed), single-byte mutation (xor 01, xor 80, =00, =ff, +1), two-byte field set to ffff / fffe / fffd / 8000 at every position, and structural malformation (each length-prefixed vector duplicated / emptied / one byte longer / one byte shorter, with all length prefixes kept consistent) of valid encodings of every message type, and arbitrary byte strings as bodies: the library never panics; whatever it accepts is accepted with the same fields by the independent strict decoder (no inconsistent inner lengths, no trailing bytes); re-encoding reproduces canonical inputs and is a fixed point otherwise; distinct = hash(kind, body)")
	for _, kind := range kinds {
		kind := kind
		vfRapid(t, recM, "mut-"+kind, vfN(600, 20000), func(t *rapid.T) {
			m := c14Gen(kind).Draw(t, "msg")
			body := c14Encode(m)
			if len(body) > 1500 {
				return
			}
			seq := uint16(rapid.IntRange(0, 3).Draw(t, "seq"))
			step := 1
			if !vfThorough() && len(body) > 200 {
				step = len(body) / 100
			}
			try := func(b []byte, what string) {
				sig, msg, acc := c14CheckBytes(kind, b, seq)
				if sig != "" {
					recM.Fail(t, sig, c14Case{Kind: kind, Body: b, Seq: seq}, "%s (%s)", msg, what)
				}
				cl := "rejected"
				if acc {
					cl = "accepted"
				}
				recM.EvalHash(true, vfHash(kind, b), func() interface{} {
					return map[string]interface{}{"kind": kind, "mutation": what, "body_len": len(b), "head": fmt.Sprintf("%x", c14Head(b))}
				}, cl, "kind:"+kind)
			}
			for n := 0; n < len(body); n += step {
				try(body[:n], fmt.Sprintf("truncate to %d", n))
			}
			for pos := 0; pos < len(body); pos += step {
				for _, op := range []string{"xor01", "xor80", "zero", "ff", "inc"} {
					b := c09Mut{Op: op, Pos: pos}.apply(body)
					try(b, fmt.Sprintf("%s at %d", op, pos))
				}
				// two-byte fields set to their largest values (where 2+length wraps in 16-bit arithmetic)
				if pos+1 < len(body) {
					for _, v := range []uint16{0xffff, 0xfffe, 0xfffd, 0x8000} {
						b := append([]byte(nil), body...)
						b[pos], b[pos+1] = byte(v>>8), byte(v)
						try(b, fmt.Sprintf("u16=%04x at %d", v, pos))
					}
				}
			}
			// structural malformations of every length-prefixed vector
			nvec := c14VecCount
			if nvec > 40 {
				nvec = 40
			}
			for k := 0; k < nvec; k++ {
				for _, op := range []string{"dup", "empty", "extra", "droplast"} {
					c14VecMutAt, c14VecMutOp = k, op
					b := c14Encode(m)
					c14VecMutAt = -1
					if len(b) <= 70000 {
						try(b, fmt.Sprintf("vector %d: %s", k, op))
					}
				}
			}
			try(append(append([]byte(nil), body...), 0), "one trailing byte")
			try(append(append([]byte(nil), body...), 0, 0), "two trailing bytes")
		})
		vfRapid(t, recM, "bytes-"+kind, vfN(2000, 100000), func(t *rapid.T) {
			b := rapid.SliceOfN(rapid.Byte(), 0, 200).Draw(t, "body")
			sig, msg, acc := c14CheckBytes(kind, b, 0)
			if sig != "" {
				recM.Fail(t, sig, c14Case{Kind: kind, Body: b}, "%s", msg)
			}
			cl := "rejected"
			if acc {
				cl = "accepted"
			}
			recM.EvalHash(len(b) > 0, vfHash(kind, b), nil, cl, "bytes:"+kind)
			// unframed input (wrong outer length / type): totality only
			if p := vfRecover(func() {
				lm := c14NewLib(kind)
				lm.unmarshal(append([]byte(nil), b...))
			}); p != "" {
				recM.Fail(t, "unmarshal-panic:"+kind, c14Case{Kind: kind, Body: b}, "unframed input: %s", p)
			}
		})
	}
	// every message the library emits in real handshakes decodes with the library and with the
	// independent decoder, and re-encodes to the same bytes
	recE := vfRec("C14", "C14-emitted", "every plaintext handshake message emitted in honest handshakes (4 suites x client auth x full/resumed, from the tap) decodes with the library, decodes with the independent decoder to the same fields, and re-encodes byte for byte")
	idx := 0
	for _, suite := range vfSuites {
		for _, auth := range []bool{false, true} {
			idx++
			if !vfMine(idx) {
				continue
			}
			ccfg, scfg := vfBaseConfigs(suite, auth)
			ccfg.NextProtos, scfg.NextProtos = []string{"h2"}, []string{"h2"}
			ccfg.SessionCache, scfg.SessionCache = NewLRUSessionCache(4), NewLRUSessionCache(4)
			for conn := 0; conn < 2; conn++ {
				r := vfRunPair(ccfg, scfg, vfPairOpt{})
				if r.CErr != nil || r.SErr != nil {
					recE.Violation("honest-failed", suite, "%v / %v", r.CErr, r.SErr)
					continue
				}
				for dir := 0; dir < 2; dir++ {
					for _, hm := range vfPlainHandshake(vfRecordsOf(r, dir)) {
						kind := ""
						for _, k := range kinds {
							if c14Type(k) == hm.Typ {
								kind = k
							}
						}
						if kind == "" {
							recE.Violation("emitted-unknown-type", hm.Typ, "library emitted handshake type %d", hm.Typ)
							continue
						}
						seq := vfSeqOf(hm)
						sig, msg, acc := c14CheckBytes(kind, hm.Body, seq)
						if sig != "" {
							recE.Violation("emitted:"+sig, c14Case{Kind: kind, Body: hm.Body, Seq: seq}, "%s", msg)
						} else if !acc {
							recE.Violation("emitted-rejected:"+kind, c14Case{Kind: kind, Body: hm.Body, Seq: seq}, "the library does not decode a %s it emitted", kind)
						}
						recE.EvalHash(true, vfHash(kind, hm.Body), func() interface{} {
							return map[string]interface{}{"kind": kind, "body_len": len(hm.Body), "suite": suite}
						}, "kind:"+kind)
					}
				}
			}
		}
	}
}

func init() {
	for _, sub := range []string{"C14-fields", "C14-mutations", "C14-emitted"} {
		vfRegisterReplay(sub, func(raw json.RawMessage) error {
			var c c14Case
			if err := json.Unmarshal(raw, &c); err != nil {
				return err
			}
			if sig, msg := c14RunCase(c); sig != "" {
				return fmt.Errorf("%s: %s", sig, msg)
			}
			return nil
		})
	}
}
