//go:build verif

package vfpkg

//vf:pkgs tlcp dtlcp

// C09, generator G4: floods of correctly protected post-handshake records sent by a scripted peer.

import (
	"encoding/json"
	"fmt"
	"testing"

	"pgregory.net/rapid"
)

type c09FloodCase struct {
	Client bool   `json:"client"` // endpoint under test is the client
	Suite  uint16 `json:"suite"`
	Kind   string `json:"kind"` // hs-records, empty-app, warn-alerts, ccs
	N      int    `json:"n"`
	Size   int    `json:"size"`
	// kind "pattern": the records of Pattern ("app" = application data of Size bytes, "warn" = warning
	// alert, "hs" = handshake record of Size bytes, "empty" = empty application data, "ccs"), handed to
	// the transport in one piece per cycle, N cycles
	Pattern []string `json:"pattern,omitempty"`
}

// c09Trailing: (C08) one more handshake message behind the peer's Finished: N = message type,
// Size 1 = in the same record as Finished, 0 = in a record of its own.
func c09Trailing(c c09FloodCase, packed func(uint8, []byte) error, fin func() error, raw func(uint8, []byte) error) error {
	body := make([]byte, 40)
	if c.Size == 1 {
		return packed(uint8(c.N), body)
	}
	if err := fin(); err != nil {
		return err
	}
	return raw(uint8(c.N), body)
}

func c09RunFlood(c c09FloodCase) (sig, msg string) {
	p := vfGetPKI()
	ccfg := &Config{Time: vfTime, RootCAs: p.A.pool, ServerName: vfServerName, CipherSuites: []uint16{c.Suite}, Certificates: []Certificate{p.CliSig, p.CliEnc}}
	scfg := &Config{Time: vfTime, Certificates: []Certificate{p.SrvSig, p.SrvEnc}, CipherSuites: []uint16{c.Suite}, ClientCAs: p.A.pool}
	flood := func(pc *Conn) error {
		for i := 0; i < c.N; i++ {
			var err error
			switch c.Kind {
			case "hs-records":
				// a well-formed but never-ending handshake message: header announcing 60000 bytes, then filler
				body := make([]byte, c.Size)
				if i == 0 && len(body) >= 4 {
					body[0], body[1], body[2], body[3] = 0, 0, 0xea, 0x60
				}
				err = vfPeerRawRecord(pc, recordTypeHandshake, body)
			case "empty-app":
				err = vfPeerEmptyRecord(pc, recordTypeApplicationData)
			case "warn-alerts":
				err = vfPeerAlert(pc, 1, 90)
			case "ccs":
				err = vfPeerBareCCS(pc)
			case "pattern":
				// one cycle reaches the transport as one write / one datagram
				pc.out.Lock()
				pc.buffering = true
				pc.out.Unlock()
				rawRec := func(typ recordType, data []byte) error {
					pc.out.Lock()
					defer pc.out.Unlock()
					pc.buffering = true
					_, e := pc.writeRecordLocked(typ, data)
					return e
				}
				for _, el := range c.Pattern {
					switch el {
					case "app":
						err = rawRec(recordTypeApplicationData, make([]byte, c.Size))
					case "warn":
						err = rawRec(recordTypeAlert, []byte{1, 90})
					case "hs":
						err = rawRec(recordTypeHandshake, make([]byte, c.Size))
					case "empty":
						pc.out.Lock()
						pc.buffering = true
						pc.out.Unlock()
						err = vfPeerEmptyRecord(pc, recordTypeApplicationData)
					case "ccs":
						pc.out.Lock()
						pc.buffering = true
						pc.out.nextCipher, pc.out.nextMac = pc.out.cipher, pc.out.mac
						_, err = pc.writeRecordLocked(recordTypeChangeCipherSpec, []byte{1})
						pc.out.Unlock()
					}
				}
				pc.out.Lock()
				if _, ferr := pc.flush(); ferr != nil {
					err = ferr
				}
				pc.out.Unlock()
			}
			if err != nil {
				return nil // the endpoint under test has gone away
			}
		}
		vfPeerRawRecord(pc, recordTypeApplicationData, []byte("END"))
		return nil
	}
	var peer func(pc *Conn) error
	var ucfg, pcfg *Config
	if c.Client {
		ucfg, pcfg = ccfg, scfg
		peer = func(pc *Conn) error {
			sp := vfNewSrvPeer(pc)
			if err := sp.ReadClientHello(); err != nil {
				return err
			}
			sp.PickSuite(0)
			sp.SendServerHello(vfSHOpt{})
			sp.SendCertificate([][]byte{p.SrvSig.Certificate[0], p.SrvEnc.Certificate[0]})
			sp.SendSKX(vfSKXOpt{})
			if vfIsECDHE(c.Suite) {
				sp.SendCertReq(nil)
			}
			sp.SendHelloDone()
			if err := sp.ReadClientFlight(true); err != nil {
				return err
			}
			sp.EstablishKeys()
			if err := sp.ReadClientFinished(); err != nil {
				return err
			}
			sp.SendCCS()
			if c.Kind == "trailing" {
				if err := c09Trailing(c, func(t uint8, b []byte) error { return sp.SendFinishedPacked(t, b) }, func() error { return sp.SendFinished(false) }, func(t uint8, b []byte) error { return sp.SendRawHandshake(t, b) }); err != nil {
					return err
				}
				vfPeerRawRecord(pc, recordTypeApplicationData, []byte("END"))
				return nil
			}
			if err := sp.SendFinished(false); err != nil {
				return err
			}
			return flood(pc)
		}
	} else {
		ucfg, pcfg = scfg, ccfg
		pcfg.InsecureSkipVerify = true
		if vfIsECDHE(c.Suite) {
			ucfg.ClientAuth = RequireAndVerifyClientCert
		}
		peer = func(pc *Conn) error {
			cp := vfNewCliPeer(pc)
			if err := cp.SendClientHello(vfCHOpt{}); err != nil {
				return err
			}
			if err := cp.ReadServerFlight(); err != nil {
				return err
			}
			if cp.cr != nil {
				cp.SendCertificate([][]byte{p.CliSig.Certificate[0], p.CliEnc.Certificate[0]})
			}
			enc := p.CliEnc
			if err := cp.PrepareCKE(&enc); err != nil {
				return err
			}
			cp.SendCKE(nil)
			if cp.cr != nil {
				cp.SendCertVerify(p.CliSig.PrivateKey, nil, false)
			}
			cp.ComputeMaster()
			cp.EstablishKeys()
			cp.SendCCS()
			if c.Kind == "trailing" {
				if err := c09Trailing(c, func(t uint8, b []byte) error { return cp.SendFinishedPacked(t, b) }, func() error { return cp.SendFinished(false) }, func(t uint8, b []byte) error { return cp.SendRawHandshake(t, b) }); err != nil {
					return err
				}
				cp.ReadServerFinished()
				vfPeerRawRecord(pc, recordTypeApplicationData, []byte("END"))
				return nil
			}
			cp.SendFinished(false)
			if err := cp.ReadServerFinished(); err != nil {
				return err
			}
			return flood(pc)
		}
	}
	ucfg = ucfg.Clone()
	vfPeerTuneConfig(ucfg)
	maxBuf := 0
	var got []byte
	var readErr error
	r := vfRunVsPeer(c.Client, ucfg, pcfg, peer, func(cn *Conn, hsErr error) error {
		if hsErr != nil {
			return hsErr
		}
		buf := make([]byte, 64)
		for i := 0; i < 100000; i++ {
			n, err := cn.Read(buf)
			got = append(got, buf[:n]...)
			if b := vfConnBuffered(cn); b > maxBuf {
				maxBuf = b
			}
			if err != nil {
				readErr = err
				return nil
			}
			if string(got) == "END" || (c.Kind == "pattern" && len(got) >= 3 && string(got[len(got)-3:]) == "END") {
				return nil
			}
			if c.Kind == "pattern" && len(got) > 4096 {
				got = got[len(got)-16:]
			}
		}
		return nil
	})
	if r.UPanic != "" {
		return "panic", "endpoint under test panicked: " + r.UPanic
	}
	if r.PPanic != "" {
		return "harness-peer-panic", r.PPanic
	}
	if r.Watchdog {
		return "spin-or-hang", "run did not end within 30 s"
	}
	if r.UErr != nil && c.Kind == "trailing" {
		return "", "" // rejected already during the handshake
	}
	if r.UErr != nil {
		return "honest-failed", fmt.Sprintf("handshake with the honest peer script failed: %v (peer: %v)", r.UErr, r.PErr)
	}
	if b := vfConnBuffered(r.U); b > maxBuf {
		maxBuf = b
	}
	if maxBuf > vfConnBufBound {
		return "buffer-bound:" + c.Kind, fmt.Sprintf("after %d post-handshake %s records of %d bytes the connection buffers %d bytes (bound %d)", c.N, c.Kind, c.Size, maxBuf, vfConnBufBound)
	}
	switch c.Kind {
	case "trailing":
		if len(got) > 0 {
			return "message-after-finished-accepted", fmt.Sprintf("a handshake message (type %d, same record as Finished: %v) followed the peer's Finished; the endpoint nevertheless delivered the application data behind it (%q, read error %v)", c.N, c.Size == 1, got, readErr)
		}
		if readErr == nil {
			return "message-after-finished-accepted", fmt.Sprintf("a handshake message (type %d) followed the peer's Finished and no error was reported", c.N)
		}
		return "", ""
	case "warn-alerts", "empty-app":
		counted := c.Kind == "warn-alerts" || vfStack == "tlcp"
		if counted && c.N > 16 && readErr == nil {
			return "flood-tolerated:" + c.Kind, fmt.Sprintf("%d consecutive non-advancing records were ignored (documented tolerance 16); read %q", c.N, got)
		}
		if c.N <= 16 && string(got) != "END" {
			return "flood-rejected-early:" + c.Kind, fmt.Sprintf("%d non-advancing records (tolerance 16) but the data behind them was not delivered: %q, %v", c.N, got, readErr)
		}
	}
	return "", ""
}

func TestVF_C09_Flood(t *testing.T) {
	rec := vfRec("C09", "C09-floods", "after an honest handshake a scripted peer sends floods of correctly protected records: handshake records (N x size), empty application-data records, warning alerts, ChangeCipherSpec, and generated repeating patterns of up to four such records (application data, warning alert, handshake record, empty record, ChangeCipherSpec) that reach the transport coalesced, 1..400 cycles; both roles, suites GCM/CBC; oracle: no panic, buffers within the fixed bound, more than 16 consecutive non-advancing records answered with an error, up to 16 tolerated; non-trivial = N > 0; distinct = the case")
	idx := 0
	for _, client := range []bool{true, false} {
		for _, suite := range []uint16{ECC_SM4_GCM_SM3, ECC_SM4_CBC_SM3, ECDHE_SM4_GCM_SM3} {
			var cases []c09FloodCase
			for _, n := range []int{1, 20, 300} {
				cases = append(cases, c09FloodCase{Kind: "hs-records", N: n, Size: 16000}, c09FloodCase{Kind: "hs-records", N: n, Size: 5})
			}
			for _, n := range []int{0, 1, 15, 16, 17, 18, 200, 3000} {
				cases = append(cases, c09FloodCase{Kind: "empty-app", N: n}, c09FloodCase{Kind: "warn-alerts", N: n})
			}
			cases = append(cases, c09FloodCase{Kind: "ccs", N: 1}, c09FloodCase{Kind: "ccs", N: 30})
			for _, c := range cases {
				idx++
				if !vfMine(idx) {
					continue
				}
				c.Client, c.Suite = client, suite
				if c.Kind == "hs-records" && vfKnown("F8") {
					rec.Excluded("F8")
					continue
				}
				sig, msg := c09RunFlood(c)
				if sig != "" {
					rec.Violation(sig, c, "%s", msg)
				}
				rec.Eval(c.N > 0, c, "kind:"+c.Kind)
			}
		}
	}
	rec.SetExhaustive(true, fmt.Sprintf("%d flood cases enumerated", idx))
	vfRapid(t, rec, "patterns", vfN(150, 4000), func(t *rapid.T) {
		c := c09FloodCase{Client: rapid.Bool().Draw(t, "client"), Suite: rapid.SampledFrom([]uint16{ECC_SM4_GCM_SM3, ECC_SM4_CBC_SM3}).Draw(t, "suite"), Kind: "pattern",
			Pattern: rapid.SliceOfN(rapid.SampledFrom([]string{"app", "app", "warn", "hs", "empty", "ccs"}), 1, 4).Draw(t, "pattern"),
			N:       rapid.SampledFrom([]int{1, 3, 20, 100, 400}).Draw(t, "n"), Size: rapid.SampledFrom([]int{1, 5, 64, 900}).Draw(t, "size")}
		if vfStack == "tlcp" && rapid.Bool().Draw(t, "big") {
			c.Size = 16000
			if c.N > 100 {
				c.N = 100
			}
		}
		sig, msg := c09RunFlood(c)
		if sig != "" {
			rec.Fail(t, sig, c, "%s", msg)
		}
		rec.Eval(len(c.Pattern) > 1, c, "kind:pattern")
	})
	if vfKnown("F8") {
		sig, _ := c09RunFlood(c09FloodCase{Client: true, Suite: ECC_SM4_GCM_SM3, Kind: "hs-records", N: 300, Size: 16000})
		rec.Known("F8", sig != "")
	}
}

func init() {
	vfRegisterReplay("C09-floods", func(raw json.RawMessage) error {
		var c c09FloodCase
		if err := json.Unmarshal(raw, &c); err != nil {
			return err
		}
		if sig, msg := c09RunFlood(c); sig != "" {
			return fmt.Errorf("%s: %s", sig, msg)
		}
		return nil
	})
}
