//go:build verif

package pa

// C20: the protocol adapter routes by record version and loses no bytes.

import (
	"bytes"
	"crypto/ecdsa"
	"crypto/elliptic"
	"crypto/rand"
	"crypto/tls"
	stdx509 "crypto/x509"
	"crypto/x509/pkix"
	"encoding/json"
	"errors"
	"fmt"
	"io"
	"math/big"
	"net"
	"sync"
	"testing"
	"time"

	"gitee.com/Trisia/gotlcp/tlcp"
	"github.com/emmansun/gmsm/sm2"
	"github.com/emmansun/gmsm/smx509"
	"pgregory.net/rapid"
)

var (
	c20Once    sync.Once
	c20TLCPSrv *tlcp.Config
	c20TLCPCli *tlcp.Config
	c20TLSSrv  *tls.Config
	c20TLSCli  *tls.Config
)

func c20Setup() {
	c20Once.Do(func() {
		now := time.Now()
		// SM2 root + two server leaves
		rk, _ := sm2.GenerateKey(rand.Reader)
		rt := &smx509.Certificate{SerialNumber: big.NewInt(1), Subject: pkix.Name{CommonName: "vf-pa-root"}, NotBefore: now.Add(-time.Hour), NotAfter: now.AddDate(5, 0, 0),
			IsCA: true, BasicConstraintsValid: true, KeyUsage: smx509.KeyUsageCertSign}
		rder, err := smx509.CreateCertificate(rand.Reader, rt, rt, &rk.PublicKey, rk)
		if err != nil {
			panic(err)
		}
		root, _ := smx509.ParseCertificate(rder)
		pool := smx509.NewCertPool()
		pool.AddCert(root)
		leaf := func(cn string, ku smx509.KeyUsage, serial int64) tlcp.Certificate {
			k, _ := sm2.GenerateKey(rand.Reader)
			t := &smx509.Certificate{SerialNumber: big.NewInt(serial), Subject: pkix.Name{CommonName: cn}, NotBefore: now.Add(-time.Hour), NotAfter: now.AddDate(1, 0, 0),
				KeyUsage: ku, DNSNames: []string{"test.example"}}
			der, err := smx509.CreateCertificate(rand.Reader, t, root, &k.PublicKey, rk)
			if err != nil {
				panic(err)
			}
			return tlcp.Certificate{Certificate: [][]byte{der}, PrivateKey: k}
		}
		sig := leaf("sig", smx509.KeyUsageDigitalSignature, 2)
		enc := leaf("enc", smx509.KeyUsageKeyEncipherment|smx509.KeyUsageDataEncipherment|smx509.KeyUsageKeyAgreement, 3)
		c20TLCPSrv = &tlcp.Config{Certificates: []tlcp.Certificate{sig, enc}}
		c20TLCPCli = &tlcp.Config{RootCAs: pool, ServerName: "test.example"}
		// P-256 self-signed for crypto/tls
		ek, _ := ecdsa.GenerateKey(elliptic.P256(), rand.Reader)
		tt := &stdx509.Certificate{SerialNumber: big.NewInt(9), Subject: pkix.Name{CommonName: "vf-tls"}, NotBefore: now.Add(-time.Hour), NotAfter: now.AddDate(1, 0, 0),
			KeyUsage: stdx509.KeyUsageDigitalSignature, ExtKeyUsage: []stdx509.ExtKeyUsage{stdx509.ExtKeyUsageServerAuth}, DNSNames: []string{"test.example"}, IsCA: true, BasicConstraintsValid: true}
		tder, err := stdx509.CreateCertificate(rand.Reader, tt, tt, &ek.PublicKey, ek)
		if err != nil {
			panic(err)
		}
		tc, _ := stdx509.ParseCertificate(tder)
		tpool := stdx509.NewCertPool()
		tpool.AddCert(tc)
		c20TLSSrv = &tls.Config{Certificates: []tls.Certificate{{Certificate: [][]byte{tder}, PrivateKey: ek}}}
		c20TLSCli = &tls.Config{RootCAs: tpool, ServerName: "test.example"}
	})
}

func c20Listener(cfg int) *listener {
	c20Setup()
	l := &listener{}
	if cfg == 0 || cfg == 2 {
		l.tlcpCfg = c20TLCPSrv
	}
	if cfg == 1 || cfg == 2 {
		l.tlsCfg = c20TLSSrv
	}
	return l
}

// ---------------------------------------------------------------------------- (a) routing matrix

type c20RouteCase struct {
	Major, Minor byte
	Typ          byte
	Cfg          int  `json:"cfg"`   // 0 TLCP only, 1 TLS only, 2 both
	Write        bool `json:"write"` // first call is Write instead of Read
	Chunks       []int `json:"chunks"` // how the first bytes arrive
}

func c20RunRoute(c c20RouteCase) (sig, msg string) {
	sim := vfNewStream()
	sim.monitor = false
	sc := NewProtocolSwitchServerConn(c20Listener(c.Cfg), sim.ends[1])
	data := []byte{c.Typ, c.Major, c.Minor, 0, 4, 1, 0, 0, 0}
	k := 0
	sim.ends[1].seg = func(avail int) int {
		if k < len(c.Chunks) {
			k++
			return c.Chunks[k-1]
		}
		return avail
	}
	sim.ends[0].inject(data)
	sim.ends[0].cutNow()
	var err error
	p := vfRecover(func() {
		if c.Write {
			_, err = sc.Write([]byte("x"))
		} else {
			_, err = sc.Read(make([]byte, 16))
		}
	})
	if p != "" {
		return "panic", p
	}
	pc := sc.ProtectedConn()
	switch c.Major {
	case 1:
		if c.Cfg == 1 {
			if pc != nil || err == nil || err.Error() != "pa: tlcp config not set" {
				return "route-tlcp-noconfig", fmt.Sprintf("major 1 without a TLCP configuration: conn %T, err %v", pc, err)
			}
			return "", ""
		}
		if _, ok := pc.(*tlcp.Conn); !ok {
			return "route-tlcp", fmt.Sprintf("first record version %02x%02x must be served by the TLCP stack, got %T (err %v)", c.Major, c.Minor, pc, err)
		}
	case 3:
		if c.Cfg == 0 {
			if pc != nil || err == nil || err.Error() != "pa: tls config not set" {
				return "route-tls-noconfig", fmt.Sprintf("major 3 without a TLS configuration: conn %T, err %v", pc, err)
			}
			return "", ""
		}
		if _, ok := pc.(*tls.Conn); !ok {
			return "route-tls", fmt.Sprintf("first record version %02x%02x must be served by the TLS stack, got %T (err %v)", c.Major, c.Minor, pc, err)
		}
	default:
		var nse *ProtocolNotSupportError
		if pc != nil || !errors.As(err, &nse) {
			return "route-unsupported", fmt.Sprintf("major version byte %02x: conn %T, err %v; want the unsupported-protocol error", c.Major, pc, err)
		}
	}
	return "", ""
}

// ---------------------------------------------------------------------------- (b) replay of the peeked header

type c20ReplayCase struct {
	Stream []byte `json:"stream"`
	Chunks []int  `json:"chunks"` // transport segmentation
	Bufs   []int  `json:"bufs"`   // read buffer sizes, cycled
}

func c20RunReplay(c c20ReplayCase) (sig, msg string) {
	sim := vfNewStream()
	sim.monitor = false
	k := 0
	sim.ends[1].seg = func(avail int) int {
		if k < len(c.Chunks) {
			k++
			return c.Chunks[k-1]
		}
		return avail
	}
	sim.ends[0].inject(c.Stream)
	sim.ends[0].cutNow()
	d := &ProtocolDetectConn{Conn: sim.ends[1]}
	var got []byte
	var herr error
	p := vfRecover(func() {
		herr = d.ReadFirstHeader()
		if herr != nil {
			return
		}
		for i := 0; i < 10000; i++ {
			bs := 8
			if len(c.Bufs) > 0 {
				bs = c.Bufs[i%len(c.Bufs)]
			}
			buf := make([]byte, bs)
			n, err := d.Read(buf)
			got = append(got, buf[:n]...)
			if err != nil {
				return
			}
		}
	})
	if p != "" {
		return "panic", p
	}
	if len(c.Stream) < 5 {
		if herr == nil {
			return "short-header-accepted", fmt.Sprintf("only %d bytes before the disconnect but ReadFirstHeader returned nil", len(c.Stream))
		}
		return "", ""
	}
	if herr != nil {
		return "header-error", fmt.Sprintf("ReadFirstHeader failed on a %d-byte stream: %v", len(c.Stream), herr)
	}
	if d.major != c.Stream[1] || d.minor != c.Stream[2] {
		return "header-version", fmt.Sprintf("peeked version %02x%02x, stream has %02x%02x", d.major, d.minor, c.Stream[1], c.Stream[2])
	}
	if !bytes.Equal(got, c.Stream) {
		n := 0
		for n < len(got) && n < len(c.Stream) && got[n] == c.Stream[n] {
			n++
		}
		return "replay-differs", fmt.Sprintf("bytes read through the detecting connection (%d) differ from the stream (%d) at offset %d; chunks %v, buffers %v", len(got), len(c.Stream), n, c.Chunks, c.Bufs)
	}
	return "", ""
}

// ---------------------------------------------------------------------------- (c) end to end, adapter vs direct

type c20E2ECase struct {
	TLS     bool  `json:"tls"`
	Split   []int `json:"split"`   // segmentation of what the server side reads first
	Minor   int   `json:"minor"`   // -1: leave the first record alone; else rewrite its minor version byte
	Cfg     int   `json:"cfg"`
	Payload int   `json:"payload"`
	Direct  bool  `json:"-"`
	// Duplex: the server application is full duplex from the start: one goroutine reads the client's
	// payload while another sends a greeting, both making their first call before the client has spoken
	Duplex bool `json:"duplex,omitempty"`
}

type c20Out struct {
	cerr, serr error
	suite      uint16
	echo       []byte
	panicked   string
	protected  string
}

const c20Greeting = "greeting from the server, sent before it has read anything"

func c20RunE2EOnce(c c20E2ECase, direct bool) c20Out {
	c20Setup()
	var o c20Out
	var mu sync.Mutex
	sim := vfNewStream()
	k := 0
	sim.ends[1].seg = func(avail int) int {
		if k < len(c.Split) {
			k++
			return c.Split[k-1]
		}
		return avail
	}
	if c.Minor >= 0 {
		sim.ends[0].edit = func(idx int, rec []byte) [][]byte {
			if idx == 0 {
				rec[2] = byte(c.Minor)
			}
			return [][]byte{rec}
		}
	}
	payload := make([]byte, c.Payload)
	for i := range payload {
		payload[i] = byte(i * 3)
	}
	var srv net.Conn
	var sw *ProtocolSwitchServerConn
	if direct {
		if c.TLS {
			srv = tls.Server(sim.ends[1], c20TLSSrv)
		} else {
			srv = tlcp.Server(sim.ends[1], c20TLCPSrv)
		}
	} else {
		sw = NewProtocolSwitchServerConn(c20Listener(c.Cfg), sim.ends[1])
		srv = sw
	}
	var cli net.Conn
	if c.TLS {
		cli = tls.Client(sim.ends[0], c20TLSCli)
	} else {
		cli = tlcp.Client(sim.ends[0], c20TLCPCli)
	}
	var wg sync.WaitGroup
	sim.drive(0, &wg, func() {
		o.panicked += vfRecover(func() {
			if _, err := cli.Write(payload); err != nil {
				o.cerr = err
				sim.ends[0].Close()
				return
			}
			buf := make([]byte, len(payload))
			if c.Duplex {
				buf = make([]byte, len(payload)+len(c20Greeting))
			}
			if _, err := io.ReadFull(cli, buf); err != nil {
				o.cerr = err
				sim.ends[0].Close()
				return
			}
			if c.Duplex {
				// greeting and echo come from two goroutines: either order, each whole
				switch {
				case bytes.HasPrefix(buf, []byte(c20Greeting)):
					buf = buf[len(c20Greeting):]
				case bytes.HasSuffix(buf, []byte(c20Greeting)):
					buf = buf[:len(buf)-len(c20Greeting)]
				default:
					o.cerr = fmt.Errorf("the greeting did not arrive whole")
					return
				}
			}
			o.echo = buf
			switch x := cli.(type) {
			case *tls.Conn:
				o.suite = x.ConnectionState().CipherSuite
			case *tlcp.Conn:
				o.suite = x.ConnectionState().CipherSuite
			}
		})
	})
	if c.Duplex {
		var gp string
		sim.drive(1, &wg, func() {
			gp = vfRecover(func() {
				if _, err := srv.Write([]byte(c20Greeting)); err != nil {
					mu.Lock()
					if o.serr == nil {
						o.serr = err
					}
					mu.Unlock()
					sim.ends[1].Close()
				}
			})
			mu.Lock()
			o.panicked += gp
			mu.Unlock()
		})
	}
	sim.drive(1, &wg, func() {
		o.panicked += vfRecover(func() {
			buf := make([]byte, len(payload))
			if _, err := io.ReadFull(srv, buf); err != nil {
				o.serr = err
				sim.ends[1].Close()
				return
			}
			if _, err := srv.Write(buf); err != nil {
				o.serr = err
				sim.ends[1].Close()
			}
		})
	})
	sim.watch()
	wg.Wait()
	if sw != nil {
		o.protected = fmt.Sprintf("%T", sw.ProtectedConn())
	}
	return o
}

func c20RunE2E(c c20E2ECase) (sig, msg string) {
	d := c20RunE2EOnce(c, true)
	a := c20RunE2EOnce(c, false)
	if d.panicked != "" || a.panicked != "" {
		return "panic", d.panicked + a.panicked
	}
	configured := (c.TLS && c.Cfg != 0) || (!c.TLS && c.Cfg != 1)
	if !configured {
		if a.serr == nil {
			return "unconfigured-stack-served", "the adapter served a protocol whose configuration is absent"
		}
		return "", ""
	}
	if (d.cerr == nil) != (a.cerr == nil) || (d.serr == nil) != (a.serr == nil) {
		return "adapter-differs-outcome", fmt.Sprintf("direct: client=%v server=%v; through the adapter: client=%v server=%v (split %v, minor %d)", d.cerr, d.serr, a.cerr, a.serr, c.Split, c.Minor)
	}
	if d.cerr == nil {
		if !bytes.Equal(d.echo, a.echo) || d.suite != a.suite {
			return "adapter-differs-data", fmt.Sprintf("echo/suite differ: direct %d bytes suite %x, adapter %d bytes suite %x", len(d.echo), d.suite, len(a.echo), a.suite)
		}
		want := "*tlcp.Conn"
		if c.TLS {
			want = "*tls.Conn"
		}
		if a.protected != want {
			return "adapter-wrong-stack", fmt.Sprintf("served by %s, want %s", a.protected, want)
		}
	}
	return "", ""
}

// ---------------------------------------------------------------------------- (d) early disconnect

func c20RunEarly(nbytes int, write bool, cfg int) (sig, msg string) {
	sim := vfNewStream()
	sim.monitor = false
	sc := NewProtocolSwitchServerConn(c20Listener(cfg), sim.ends[1])
	sim.ends[0].inject([]byte{22, 1, 1, 0, 9}[:nbytes])
	sim.ends[0].cutNow()
	var err error
	done := make(chan string, 1)
	go func() {
		done <- vfRecover(func() {
			if write {
				_, err = sc.Write([]byte("x"))
			} else {
				_, err = sc.Read(make([]byte, 8))
			}
		})
	}()
	select {
	case p := <-done:
		if p != "" {
			return "panic", p
		}
	case <-time.After(20 * time.Second):
		return "early-disconnect-hang", fmt.Sprintf("client disconnected after %d bytes and the first call never returned", nbytes)
	}
	if err == nil {
		return "early-disconnect-no-error", fmt.Sprintf("client disconnected after %d bytes and the first call returned nil", nbytes)
	}
	return "", ""
}

// ---------------------------------------------------------------------------- (e) deadlines

type c20DLCase struct {
	TLS   bool `json:"tls"`
	Bytes int  `json:"bytes"` // how much of its first flight the client sends before it goes quiet (-1: all of it)
	Write bool `json:"write"` // first call of the server application
}

// c20RunDeadlineOnce: the server application sets a read (and write) deadline that has already
// passed before its first call; the client sends part or all of its first flight and then stalls
// without closing. Returns how the first call ended: "timeout", "error:<text>", "ok" or "blocked".
func c20RunDeadlineOnce(c c20DLCase, direct bool) (string, string) {
	c20Setup()
	sim := vfNewStream()
	sim.monitor = false
	var srv net.Conn
	if direct {
		if c.TLS {
			srv = tls.Server(sim.ends[1], c20TLSSrv)
		} else {
			srv = tlcp.Server(sim.ends[1], c20TLCPSrv)
		}
	} else {
		srv = NewProtocolSwitchServerConn(c20Listener(2), sim.ends[1])
	}
	// the client's first flight, taken from a client that is then left alone
	var cli net.Conn
	if c.TLS {
		cli = tls.Client(sim.ends[0], c20TLSCli)
	} else {
		cli = tlcp.Client(sim.ends[0], c20TLCPCli)
	}
	if c.Bytes != 0 {
		go func() {
			switch x := cli.(type) {
			case *tls.Conn:
				x.Handshake()
			case *tlcp.Conn:
				x.Handshake()
			}
		}()
		// wait for the ClientHello to reach the server end's input
		for i := 0; i < 20000; i++ {
			sim.mu.Lock()
			n := len(sim.ends[1].in)
			sim.mu.Unlock()
			if n > 5 {
				break
			}
			time.Sleep(50 * time.Microsecond)
		}
		if c.Bytes > 0 {
			sim.mu.Lock()
			if len(sim.ends[1].in) > c.Bytes {
				sim.ends[1].in = sim.ends[1].in[:c.Bytes]
			}
			sim.mu.Unlock()
		}
	}
	srv.SetDeadline(time.Now().Add(-time.Second))
	type res struct {
		err error
		p   string
	}
	done := make(chan res, 1)
	go func() {
		var r res
		r.p = vfRecover(func() {
			if c.Write {
				_, r.err = srv.Write([]byte("hello"))
			} else {
				_, r.err = srv.Read(make([]byte, 16))
			}
		})
		done <- r
	}()
	defer func() {
		sim.ends[0].Close()
		sim.ends[1].Close()
	}()
	select {
	case r := <-done:
		if r.p != "" {
			return "panic", r.p
		}
		if r.err == nil {
			return "ok", ""
		}
		if ne, ok := r.err.(net.Error); ok && ne.Timeout() {
			return "timeout", r.err.Error()
		}
		var ne net.Error
		if errors.As(r.err, &ne) && ne.Timeout() {
			return "timeout", r.err.Error()
		}
		return "error", r.err.Error()
	case <-time.After(5 * time.Second):
		return "blocked", "the first call had not returned after 5 s although its deadline had passed before it was made"
	}
}

func c20RunDeadline(c c20DLCase) (sig, msg string) {
	d, dm := c20RunDeadlineOnce(c, true)
	a, am := c20RunDeadlineOnce(c, false)
	if d == "panic" || a == "panic" {
		return "panic", dm + am
	}
	if d != a {
		return "adapter-differs-deadline", fmt.Sprintf("deadline already passed before the first call: against the stack directly the call ends with %s (%s), through the adapter with %s (%s)", d, dm, a, am)
	}
	return "", ""
}


// ---------------------------------------------------------------------------- (f) a timed-out first call, then a retry

type c20RetryCase struct {
	TLS   bool `json:"tls"`
	Bytes int  `json:"bytes"` // bytes of the client's first flight that have arrived when the first call is made
	// Mid: the deadline passes while the first call is waiting for more bytes (after it has taken what
	// had arrived); otherwise it has passed before the call is made
	Mid bool `json:"mid"`
}

// c20RunRetryOnce: the server's first Read ends with a timeout; the application lifts the deadline
// and reads again; meanwhile the rest of the client's first flight arrives. Returns how the first call
// ended and whether handshake and ping/pong then succeeded.
func c20RunRetryOnce(c c20RetryCase, direct bool) (first, retry, detail string) {
	c20Setup()
	sim := vfNewStream()
	sim.monitor = false
	var srv net.Conn
	if direct {
		if c.TLS {
			srv = tls.Server(sim.ends[1], c20TLSSrv)
		} else {
			srv = tlcp.Server(sim.ends[1], c20TLCPSrv)
		}
	} else {
		srv = NewProtocolSwitchServerConn(c20Listener(2), sim.ends[1])
	}
	var cli net.Conn
	if c.TLS {
		cli = tls.Client(sim.ends[0], c20TLSCli)
	} else {
		cli = tlcp.Client(sim.ends[0], c20TLCPCli)
	}
	defer func() {
		sim.ends[0].Close()
		sim.ends[1].Close()
	}()
	cliDone := make(chan error, 1)
	go func() {
		var err error
		if p := vfRecover(func() {
			if _, err = cli.Write([]byte("ping")); err != nil {
				return
			}
			b := make([]byte, 4)
			if _, err = io.ReadFull(cli, b); err == nil && string(b) != "pong" {
				err = fmt.Errorf("client read %q", b)
			}
		}); p != "" {
			err = errors.New("client panic: " + p)
		}
		cliDone <- err
	}()
	// the client has written its first flight and waits for the server
	ok := false
	for i := 0; i < 100000; i++ {
		sim.mu.Lock()
		ok = sim.ends[0].blocked > 0 && len(sim.ends[1].in) > 5
		sim.mu.Unlock()
		if ok {
			break
		}
		time.Sleep(50 * time.Microsecond)
	}
	if !ok {
		return "harness", "", "the client never sent its first flight"
	}
	sim.mu.Lock()
	all := sim.ends[1].in
	nb := c.Bytes
	if nb > len(all) {
		nb = len(all)
	}
	hold := append([]byte(nil), all[nb:]...)
	sim.ends[1].in = append([]byte(nil), all[:nb]...)
	sim.mu.Unlock()
	type res struct {
		n   int
		err error
		p   string
	}
	buf := make([]byte, 16)
	call := func() chan res {
		ch := make(chan res, 1)
		go func() {
			var r res
			r.p = vfRecover(func() { r.n, r.err = srv.Read(buf) })
			ch <- r
		}()
		return ch
	}
	var ch chan res
	if c.Mid {
		ch = call()
		// the call has taken what had arrived and waits for more
		for i := 0; i < 100000; i++ {
			sim.mu.Lock()
			w := sim.ends[1].blocked > 0 && len(sim.ends[1].in) == 0
			sim.mu.Unlock()
			if w {
				break
			}
			time.Sleep(50 * time.Microsecond)
		}
		srv.SetDeadline(time.Now().Add(-time.Second))
	} else {
		srv.SetDeadline(time.Now().Add(-time.Second))
		ch = call()
	}
	var r1 res
	select {
	case r1 = <-ch:
	case <-time.After(10 * time.Second):
		return "blocked", "", "the first call did not return although its deadline had passed"
	}
	if r1.p != "" {
		return "panic", "", r1.p
	}
	var ne net.Error
	switch {
	case r1.err == nil:
		first = "ok"
	case errors.As(r1.err, &ne) && ne.Timeout():
		first = "timeout"
	default:
		first = "error"
		detail = r1.err.Error()
	}
	if first != "timeout" {
		return first, "", detail
	}
	// the application lifts the deadline and tries again; the rest of the client's flight arrives
	srv.SetDeadline(time.Time{})
	sim.mu.Lock()
	sim.ends[1].in = append(sim.ends[1].in, hold...)
	sim.cond.Broadcast()
	sim.mu.Unlock()
	srvDone := make(chan error, 1)
	go func() {
		var err error
		if p := vfRecover(func() {
			got := 0
			b := make([]byte, 4)
			for got < 4 && err == nil {
				var n int
				n, err = srv.Read(b[got:])
				got += n
			}
			if got == 4 {
				err = nil
				if string(b) != "ping" {
					err = fmt.Errorf("server read %q", b)
				} else {
					_, err = srv.Write([]byte("pong"))
				}
			}
		}); p != "" {
			err = errors.New("server panic: " + p)
		}
		srvDone <- err
	}()
	var serr, cerr error
	for i := 0; i < 2; i++ {
		select {
		case serr = <-srvDone:
			if serr != nil {
				sim.ends[1].Close()
				sim.ends[0].Close()
			}
		case cerr = <-cliDone:
		case <-time.After(15 * time.Second):
			return first, "blocked", "the retry did not finish within 15 s"
		}
	}
	if serr != nil || cerr != nil {
		return first, "fail", fmt.Sprintf("server: %v; client: %v", serr, cerr)
	}
	return first, "ok", ""
}

func c20RunRetry(c c20RetryCase) (sig, msg string) {
	d1, d2, dm := c20RunRetryOnce(c, true)
	a1, a2, am := c20RunRetryOnce(c, false)
	if d1 == "panic" || a1 == "panic" {
		return "panic", dm + am
	}
	if d1 == "harness" || a1 == "harness" {
		return "harness-error", dm + am
	}
	// A handshake that has failed, even with a timeout, is final for a stack, so the stack used directly
	// does not recover; the adapter's first call times out before any stack exists. Hence: where the
	// stack used directly recovers the adapter must too, and where nothing of the client's bytes had been
	// taken when the first call timed out, the retry sees the first record from its first byte and must
	// be routed by it and succeed.
	if d1 == "timeout" && d2 == "ok" && !(a1 == "timeout" && a2 == "ok") {
		return "adapter-differs-retry", fmt.Sprintf("first Read timed out with %d bytes of the client's first flight arrived (deadline passing during the call: %v), then the deadline was lifted and the application read again: against the stack directly the retry succeeds; through the adapter first call %s, retry %s (%s)", c.Bytes, c.Mid, a1, a2, am)
	}
	if c.Bytes == 0 && (a1 != "timeout" || a2 != "ok") {
		return "retry-after-timeout", fmt.Sprintf("the first Read timed out before the client had sent anything (deadline passing during the call: %v); the deadline was lifted, the client sent its first flight and the application read again: first call %s, retry %s (%s)", c.Mid, a1, a2, am)
	}
	return "", ""
}

func TestVF_C20(t *testing.T) {
	recA := vfRec("C20", "C20a-routing", "first record headers over all 256 major version bytes x minors {00,01,02,03,04,ff} x configurations {TLCP only, TLS only, both} x first call Read/Write x arrival chunkings; oracle: major 01 => *tlcp.Conn (or 'tlcp config not set'), 03 => *tls.Conn (or 'tls config not set'), anything else => unsupported-protocol error; non-trivial = major not in {1,3} or split header or absent configuration")
	idx := 0
	chunkings := [][]int{nil, {1, 4}, {2, 3}, {3, 2}, {4, 1}, {1, 1, 1, 1, 1}, {5}}
	for major := 0; major < 256; major++ {
		for _, minor := range []byte{0, 1, 2, 3, 4, 0xff} {
			for cfg := 0; cfg < 3; cfg++ {
				idx++
				if !vfMine(idx) {
					continue
				}
				c := c20RouteCase{Major: byte(major), Minor: minor, Typ: 22, Cfg: cfg, Write: (major+int(minor)+cfg)%2 == 1, Chunks: chunkings[(major+cfg)%len(chunkings)]}
				sig, msg := c20RunRoute(c)
				if sig != "" {
					recA.Violation(sig, c, "%s", msg)
				}
				recA.Eval((major != 1 && major != 3) || c.Chunks != nil || cfg != 2, c, fmt.Sprintf("cfg:%d", cfg))
			}
		}
	}
	recA.SetExhaustive(true, fmt.Sprintf("%d routing cases (all 256 major bytes)", idx))

	recB := vfRec("C20", "C20b-replay", "random byte streams (0..80 bytes) read through ProtocolDetectConn after the 5-byte peek, under generated transport segmentations and read-buffer sizes 1..12; oracle: concatenation of the reads = the stream, peeked version = bytes 1,2; streams shorter than 5 bytes => error; non-trivial = split header or a buffer smaller than 5 or a short stream")
	vfRapid(t, recB, "replay", vfN(3000, 60000), func(t *rapid.T) {
		c := c20ReplayCase{Stream: rapid.SliceOfN(rapid.Byte(), 0, 80).Draw(t, "stream"),
			Chunks: rapid.SliceOfN(rapid.IntRange(1, 9), 0, 8).Draw(t, "chunks"), Bufs: rapid.SliceOfN(rapid.IntRange(1, 12), 1, 4).Draw(t, "bufs")}
		sig, msg := c20RunReplay(c)
		if sig != "" {
			recB.Fail(t, sig, c, "%s", msg)
		}
		small := len(c.Stream) < 5
		for _, b := range c.Bufs {
			if b < 5 {
				small = true
			}
		}
		recB.Eval(small || len(c.Chunks) > 0, c)
	})

	recC := vfRec("C20", "C20c-end-to-end", "a TLCP client and a crypto/tls client perform handshake + echo through the adapter and directly against the stack, with the server's first reads segmented 1..7|rest and the first record's minor version byte rewritten, the server application reading first or full duplex from the start (a second goroutine sends a greeting before the client has spoken); oracle: same outcome, same suite, same echoed bytes, ProtectedConn of the right type; non-trivial = split or rewritten header")
	j := 0
	for _, isTLS := range []bool{false, true} {
		for split := 0; split <= 7; split++ {
			for _, minor := range []int{-1, 0, 1, 2, 3, 4, 0xff} {
				for cfg := 0; cfg < 3; cfg++ {
					if cfg != 2 && (split%3 != 0 || minor > 1) {
						continue
					}
					j++
					if !vfMine(j) {
						continue
					}
					c := c20E2ECase{TLS: isTLS, Minor: minor, Cfg: cfg, Payload: 50 + split}
					if split > 0 {
						c.Split = []int{split}
					}
					if split == 7 {
						c.Split = []int{1, 1, 1, 1, 1, 1, 1}
					}
					for _, duplex := range []bool{false, true} {
						c.Duplex = duplex
						sig, msg := c20RunE2E(c)
						if sig != "" {
							recC.Violation(sig, c, "%s", msg)
						}
						recC.Eval(split > 0 || minor >= 0, c, fmt.Sprintf("tls:%v", isTLS), fmt.Sprintf("duplex:%v", duplex))
					}
				}
			}
		}
	}
	recC.SetExhaustive(true, fmt.Sprintf("%d end-to-end cases", j))

	recD := vfRec("C20", "C20d-early-disconnect", "the client disconnects after 0..4 bytes; first call Read or Write; three configurations; oracle: an error, within the watchdog, no panic")
	for n := 0; n <= 4; n++ {
		for _, w := range []bool{false, true} {
			for cfg := 0; cfg < 3; cfg++ {
				c := map[string]interface{}{"bytes": n, "write": w, "cfg": cfg}
				sig, msg := c20RunEarly(n, w, cfg)
				if sig != "" {
					recD.Violation(sig, c, "%s", msg)
				}
				recD.Eval(true, c)
			}
		}
	}
	recD.SetExhaustive(true, "30 cases")

	recE := vfRec("C20", "C20e-deadline", "the server application sets a deadline that has already passed before its first call (Read or Write); the client sends 0, 3, 5, 40 bytes or all of its first flight and then stalls without closing; TLCP and TLS clients; oracle: the first call ends the same way (timeout / error / ok) through the adapter as against the stack directly and never blocks; distinct = the case")
	for _, isTLS := range []bool{false, true} {
		for _, nb := range []int{0, 3, 5, 40, -1} {
			for _, w := range []bool{false, true} {
				c := c20DLCase{TLS: isTLS, Bytes: nb, Write: w}
				sig, msg := c20RunDeadline(c)
				if sig != "" {
					recE.Violation(sig, c, "%s", msg)
				}
				recE.Eval(true, c)
			}
		}
	}
	recE.SetExhaustive(true, "20 cases")

	recF := vfRec("C20", "C20f-timeout-retry", "the server application's first Read ends with a timeout (deadline passed before the call, with the client still silent; or passing while the call waits, after 0..5 or 40 bytes of the client's first flight have arrived), then it lifts the deadline and reads again while the rest of the flight arrives; TLCP and TLS clients; oracle: where the stack used directly recovers the adapter does too, and when nothing had arrived at the timeout the retry is routed by the first record and handshake, ping and pong succeed; distinct = the case")
	nF := 0
	for _, isTLS := range []bool{false, true} {
		for _, mid := range []bool{false, true} {
			for _, nb := range []int{0, 1, 2, 3, 4, 5, 6, 40} {
				if !mid && nb != 0 {
					continue // an already expired deadline takes nothing: same as 0
				}
				c := c20RetryCase{TLS: isTLS, Bytes: nb, Mid: mid}
				nF++
				sig, msg := c20RunRetry(c)
				if sig != "" {
					recF.Violation(sig, c, "%s", msg)
				}
				recF.Eval(true, c, fmt.Sprintf("mid:%v", mid))
			}
		}
	}
	recF.SetExhaustive(true, fmt.Sprintf("%d cases", nF))
}

func init() {
	vfRegisterReplay("C20f-timeout-retry", func(raw json.RawMessage) error {
		var c c20RetryCase
		if err := json.Unmarshal(raw, &c); err != nil {
			return err
		}
		if sig, msg := c20RunRetry(c); sig != "" {
			return fmt.Errorf("%s: %s", sig, msg)
		}
		return nil
	})
	vfRegisterReplay("C20a-routing", func(raw json.RawMessage) error {
		var c c20RouteCase
		if err := json.Unmarshal(raw, &c); err != nil {
			return err
		}
		if sig, msg := c20RunRoute(c); sig != "" {
			return fmt.Errorf("%s: %s", sig, msg)
		}
		return nil
	})
	vfRegisterReplay("C20b-replay", func(raw json.RawMessage) error {
		var c c20ReplayCase
		if err := json.Unmarshal(raw, &c); err != nil {
			return err
		}
		if sig, msg := c20RunReplay(c); sig != "" {
			return fmt.Errorf("%s: %s", sig, msg)
		}
		return nil
	})
	vfRegisterReplay("C20e-deadline", func(raw json.RawMessage) error {
		var c c20DLCase
		if err := json.Unmarshal(raw, &c); err != nil {
			return err
		}
		if sig, msg := c20RunDeadline(c); sig != "" {
			return fmt.Errorf("%s: %s", sig, msg)
		}
		return nil
	})
	vfRegisterReplay("C20c-end-to-end", func(raw json.RawMessage) error {
		var c c20E2ECase
		if err := json.Unmarshal(raw, &c); err != nil {
			return err
		}
		if sig, msg := c20RunE2E(c); sig != "" {
			return fmt.Errorf("%s: %s", sig, msg)
		}
		return nil
	})
}
