//go:build verif

package vfpkg

//vf:pkgs tlcp dtlcp

// PKI factory (DESIGN.md 3.4): generated once per process with gmsm smx509.

import (
	"encoding/asn1"
	"crypto"
	"crypto/ecdsa"
	"crypto/ed25519"
	"crypto/elliptic"
	"crypto/rand"
	"crypto/rsa"
	"crypto/x509/pkix"
	"math/big"
	"sync"
	"time"

	"github.com/emmansun/gmsm/sm2"
	x509 "github.com/emmansun/gmsm/smx509"
)

// vfT0 is the fixed "current time" of every configuration (Config.Time).
var vfT0 = time.Date(2030, 1, 1, 0, 0, 0, 0, time.UTC)

func vfTime() time.Time { return vfT0 }

const vfServerName = "test.example"

type vfCA struct {
	cert *x509.Certificate
	key  *sm2.PrivateKey
	pool *x509.CertPool
}

type vfPKI struct {
	A, B *vfCA
	// server pairs
	SrvSig, SrvEnc             Certificate // good, issued by A, DNS test.example
	SrvSig2, SrvEnc2           Certificate // a second good server identity (other keys), issued by A
	SrvSigExpired, SrvEncExpired Certificate
	SrvSigNotYet, SrvEncNotYet Certificate
	SrvSigWrongName, SrvEncWrongName Certificate
	SrvSigB, SrvEncB           Certificate // issued by untrusted root B
	// client pairs
	CliSig, CliEnc               Certificate // good, issued by A, EKU clientAuth
	CliSigPrivEKU, CliEncPrivEKU Certificate // issued by A, in date; the extendedKeyUsage extension lists only a private OID
	CliSigB, CliEncB             Certificate // issued by B
	CliSigExpired, CliEncExpired Certificate
	CliSigCodeSign, CliEncCodeSign Certificate // EKU codeSigning only
	// foreign key types, issued by A
	RSALeaf, EdLeaf, P256Leaf Certificate
	// an intermediate CA issued by A and server pairs issued by it (the chain is sent along)
	I                                  *vfCA
	ChainSig, ChainEnc                 Certificate
	ChainSigExpired, ChainEncExpired   Certificate
	ChainEncNotYet                     Certificate
}

var (
	vfPKIOnce sync.Once
	vfPKIVal  *vfPKI
)

func vfNewCA(cn string) *vfCA {
	k, err := sm2.GenerateKey(rand.Reader)
	if err != nil {
		panic(err)
	}
	tpl := &x509.Certificate{SerialNumber: big.NewInt(1), Subject: pkix.Name{CommonName: cn},
		NotBefore: vfT0.AddDate(-5, 0, 0), NotAfter: vfT0.AddDate(5, 0, 0),
		IsCA: true, BasicConstraintsValid: true, KeyUsage: x509.KeyUsageCertSign | x509.KeyUsageDigitalSignature}
	der, err := x509.CreateCertificate(rand.Reader, tpl, tpl, &k.PublicKey, k)
	if err != nil {
		panic(err)
	}
	c, err := x509.ParseCertificate(der)
	if err != nil {
		panic(err)
	}
	p := x509.NewCertPool()
	p.AddCert(c)
	return &vfCA{c, k, p}
}

// sub creates an intermediate CA issued by ca.
func (ca *vfCA) sub(cn string) *vfCA {
	k, err := sm2.GenerateKey(rand.Reader)
	if err != nil {
		panic(err)
	}
	vfSerial++
	tpl := &x509.Certificate{SerialNumber: big.NewInt(vfSerial), Subject: pkix.Name{CommonName: cn},
		NotBefore: vfT0.AddDate(-4, 0, 0), NotAfter: vfT0.AddDate(4, 0, 0),
		IsCA: true, BasicConstraintsValid: true, KeyUsage: x509.KeyUsageCertSign | x509.KeyUsageDigitalSignature}
	der, err := x509.CreateCertificate(rand.Reader, tpl, ca.cert, &k.PublicKey, ca.key)
	if err != nil {
		panic(err)
	}
	c, err := x509.ParseCertificate(der)
	if err != nil {
		panic(err)
	}
	return &vfCA{c, k, nil}
}

var vfSerial int64 = 100

type vfLeafOpt struct {
	cn        string
	enc       bool
	from, to  time.Time
	dns       []string
	eku       []x509.ExtKeyUsage
	pub       crypto.PublicKey
	priv      crypto.PrivateKey
	unknownEKU []asn1.ObjectIdentifier // extended key usages outside the set the X.509 library knows
}

func (ca *vfCA) leaf(o vfLeafOpt) Certificate {
	if o.pub == nil {
		k, err := sm2.GenerateKey(rand.Reader)
		if err != nil {
			panic(err)
		}
		o.pub, o.priv = &k.PublicKey, k
	}
	if o.from.IsZero() {
		o.from, o.to = vfT0.AddDate(-1, 0, 0), vfT0.AddDate(1, 0, 0)
	}
	ku := x509.KeyUsageDigitalSignature
	if o.enc {
		ku = x509.KeyUsageKeyEncipherment | x509.KeyUsageDataEncipherment | x509.KeyUsageKeyAgreement
	}
	vfSerial++
	tpl := &x509.Certificate{SerialNumber: big.NewInt(vfSerial), Subject: pkix.Name{CommonName: o.cn},
		NotBefore: o.from, NotAfter: o.to, KeyUsage: ku, ExtKeyUsage: o.eku, UnknownExtKeyUsage: o.unknownEKU, DNSNames: o.dns}
	der, err := x509.CreateCertificate(rand.Reader, tpl, ca.cert, o.pub, ca.key)
	if err != nil {
		panic(err)
	}
	c, err := x509.ParseCertificate(der)
	if err != nil {
		panic(err)
	}
	return Certificate{Certificate: [][]byte{der}, PrivateKey: o.priv, Leaf: c}
}

func (ca *vfCA) pair(cn string, from, to time.Time, dns []string, eku []x509.ExtKeyUsage) (Certificate, Certificate) {
	return ca.leaf(vfLeafOpt{cn: cn + "-sig", from: from, to: to, dns: dns, eku: eku}),
		ca.leaf(vfLeafOpt{cn: cn + "-enc", enc: true, from: from, to: to, dns: dns, eku: eku})
}

func vfGetPKI() *vfPKI {
	vfPKIOnce.Do(func() {
		p := &vfPKI{A: vfNewCA("vf-root-A"), B: vfNewCA("vf-root-B")}
		srv := []x509.ExtKeyUsage{x509.ExtKeyUsageServerAuth}
		cli := []x509.ExtKeyUsage{x509.ExtKeyUsageClientAuth}
		dns := []string{vfServerName}
		var z time.Time
		p.SrvSig, p.SrvEnc = p.A.pair("srv", z, z, dns, srv)
		p.SrvSig2, p.SrvEnc2 = p.A.pair("srv2", z, z, dns, srv)
		p.SrvSigExpired, p.SrvEncExpired = p.A.pair("srv-exp", vfT0.AddDate(-3, 0, 0), vfT0.AddDate(-2, 0, 0), dns, srv)
		p.SrvSigNotYet, p.SrvEncNotYet = p.A.pair("srv-notyet", vfT0.AddDate(2, 0, 0), vfT0.AddDate(3, 0, 0), dns, srv)
		p.SrvSigWrongName, p.SrvEncWrongName = p.A.pair("srv-wrong", z, z, []string{"other.example"}, srv)
		p.SrvSigB, p.SrvEncB = p.B.pair("srv-b", z, z, dns, srv)
		p.CliSig, p.CliEnc = p.A.pair("cli", z, z, nil, cli)
		p.CliSigB, p.CliEncB = p.B.pair("cli-b", z, z, nil, cli)
		p.CliSigExpired, p.CliEncExpired = p.A.pair("cli-exp", vfT0.AddDate(-3, 0, 0), vfT0.AddDate(-2, 0, 0), nil, cli)
		priv := []asn1.ObjectIdentifier{{1, 3, 6, 1, 4, 1, 55555, 7, 1}}
		p.CliSigPrivEKU = p.A.leaf(vfLeafOpt{cn: "cli-priveku-sig", unknownEKU: priv})
		p.CliEncPrivEKU = p.A.leaf(vfLeafOpt{cn: "cli-priveku-enc", enc: true, unknownEKU: priv})
		p.CliSigCodeSign, p.CliEncCodeSign = p.A.pair("cli-cs", z, z, nil, []x509.ExtKeyUsage{x509.ExtKeyUsageCodeSigning})
		rk, err := rsa.GenerateKey(rand.Reader, 2048)
		if err != nil {
			panic(err)
		}
		p.RSALeaf = p.A.leaf(vfLeafOpt{cn: "rsa-leaf", dns: dns, eku: append(srv, cli...), pub: &rk.PublicKey, priv: rk})
		epub, epriv, _ := ed25519.GenerateKey(rand.Reader)
		p.EdLeaf = p.A.leaf(vfLeafOpt{cn: "ed-leaf", dns: dns, eku: append(srv, cli...), pub: epub, priv: epriv})
		ek, _ := ecdsa.GenerateKey(elliptic.P256(), rand.Reader)
		p.P256Leaf = p.A.leaf(vfLeafOpt{cn: "p256-leaf", dns: dns, eku: append(srv, cli...), pub: &ek.PublicKey, priv: ek})
		p.I = p.A.sub("vf-intermediate")
		p.ChainSig, p.ChainEnc = p.I.pair("srv-chain", z, z, dns, srv)
		p.ChainSigExpired, p.ChainEncExpired = p.I.pair("srv-chain-exp", vfT0.AddDate(-3, 0, 0), vfT0.AddDate(-2, 0, 0), dns, srv)
		_, p.ChainEncNotYet = p.I.pair("srv-chain-notyet", vfT0.AddDate(2, 0, 0), vfT0.AddDate(3, 0, 0), dns, srv)
		vfPKIVal = p
	})
	return vfPKIVal
}

// vfBaseConfigs returns an honest, compatible pair for one suite. clientAuth adds client
// certificates and RequireAndVerifyClientCert (always needed for ECDHE suites).
func vfBaseConfigs(suite uint16, clientAuth bool) (ccfg, scfg *Config) {
	p := vfGetPKI()
	scfg = &Config{Certificates: []Certificate{p.SrvSig, p.SrvEnc}, CipherSuites: []uint16{suite}, Time: vfTime}
	ccfg = &Config{RootCAs: p.A.pool, ServerName: vfServerName, CipherSuites: []uint16{suite}, Time: vfTime}
	if clientAuth || suite == ECDHE_SM4_GCM_SM3 || suite == ECDHE_SM4_CBC_SM3 {
		scfg.ClientAuth = RequireAndVerifyClientCert
		scfg.ClientCAs = p.A.pool
		ccfg.Certificates = []Certificate{p.CliSig, p.CliEnc}
	}
	return
}

var vfSuites = []uint16{ECC_SM4_GCM_SM3, ECC_SM4_CBC_SM3, ECDHE_SM4_GCM_SM3, ECDHE_SM4_CBC_SM3}

func vfIsECDHE(s uint16) bool { return s == ECDHE_SM4_GCM_SM3 || s == ECDHE_SM4_CBC_SM3 }
func vfIsGCM(s uint16) bool   { return s == ECC_SM4_GCM_SM3 || s == ECDHE_SM4_GCM_SM3 }
