//go:build verif

package tlcp

// C09 (stream stack, generator G1/G4): arbitrary bytes fed to a fresh endpoint that runs Handshake
// and then Read to exhaustion. Oracle: no panic, no spinning on an exhausted transport, connection
// buffers within a fixed bound.

import (
	"bytes"
	"encoding/json"
	"fmt"
	"io"
	"net"
	"runtime"
	"sync"
	"testing"
	"time"

	"pgregory.net/rapid"
)

// c09Bound: one maximum-size handshake message plus what the record reader may hold (it reads
// ahead by at most one transport read, which the feeder limits to 32 KiB).
const c09Bound = (65536 + 4) + 2*(16384+2048+5) + 32768 + 1024

type c09Feed struct {
	data      []byte
	chunk     int
	eofReads  int
	onRead    func()
	maxBuf    int
	wrote     int
}

func (f *c09Feed) Read(p []byte) (int, error) {
	if f.onRead != nil {
		f.onRead()
	}
	if len(f.data) == 0 {
		f.eofReads++
		if f.eofReads > 200 {
			panic("vf: endpoint keeps reading an exhausted transport (spin)")
		}
		return 0, io.EOF
	}
	n := len(f.data)
	if n > len(p) {
		n = len(p)
	}
	if f.chunk > 0 && n > f.chunk {
		n = f.chunk
	}
	if n > 32768 {
		n = 32768
	}
	copy(p, f.data[:n])
	f.data = f.data[n:]
	return n, nil
}
func (f *c09Feed) Write(p []byte) (int, error)      { f.wrote += len(p); return len(p), nil }
func (f *c09Feed) Close() error                     { return nil }
func (f *c09Feed) LocalAddr() net.Addr              { return vfAddr{"10.0.0.1:1"} }
func (f *c09Feed) RemoteAddr() net.Addr             { return vfAddr{"10.0.0.2:2"} }
func (f *c09Feed) SetDeadline(time.Time) error      { return nil }
func (f *c09Feed) SetReadDeadline(time.Time) error  { return nil }
func (f *c09Feed) SetWriteDeadline(time.Time) error { return nil }

type c09FeedCase struct {
	Client bool   `json:"client"`
	Chunk  int    `json:"chunk"`
	Data   []byte `json:"data"`
}

// c09RunFeed returns "" or a violation; depth = how far the endpoint got (for the class histogram).
func c09RunFeed(c c09FeedCase) (sig, msg, depth string) {
	ccfg, scfg := vfBaseConfigs(ECC_SM4_GCM_SM3, false)
	f := &c09Feed{data: append([]byte(nil), c.Data...), chunk: c.Chunk}
	var cn *Conn
	if c.Client {
		cn = Client(f, ccfg)
	} else {
		cn = Server(f, scfg)
	}
	maxDepth := 0
	pcs := make([]uintptr, 400)
	f.onRead = func() {
		if n := cn.hand.Len() + cn.rawInput.Len(); n > f.maxBuf {
			f.maxBuf = n
		}
		if n := runtime.Callers(0, pcs); n > maxDepth {
			maxDepth = n
		}
	}
	var hsErr error
	var p string
	done := make(chan struct{})
	go func() {
		defer close(done)
		p = vfRecover(func() {
			hsErr = cn.Handshake()
			buf := make([]byte, 4096)
			for i := 0; i < 100000; i++ {
				_, err := cn.Read(buf)
				if err != nil {
					break
				}
			}
		})
	}()
	// the transport never blocks: a run takes milliseconds. Not finished after 30 s = the endpoint
	// loops without consuming input.
	select {
	case <-done:
	case <-time.After(30 * time.Second):
		return "spin-or-hang", "the endpoint neither finished nor failed within 30 s on a transport that never blocks: it loops without consuming input", ""
	}
	if p != "" {
		return "panic", p, ""
	}
	f.onRead()
	if maxDepth >= 400 {
		return "recursion", "call depth reached 400 frames while reading the transport: recursion that grows with the peer's input", ""
	}
	if f.maxBuf > c09Bound {
		return "buffer-bound", fmt.Sprintf("connection buffers reached %d bytes (bound %d)", f.maxBuf, c09Bound), ""
	}
	depth = "hs-failed"
	if hsErr == nil {
		depth = "hs-complete"
	}
	return "", "", depth
}

var (
	c09ConvOnce sync.Once
	c09ConvC2S  []byte
	c09ConvS2C  []byte
)

// c09Recorded returns the two directions of one honest conversation (handshake + some data).
func c09Recorded() (c2s, s2c []byte) {
	c09ConvOnce.Do(func() {
		ccfg, scfg := vfBaseConfigs(ECC_SM4_GCM_SM3, false)
		r := vfRunPair(ccfg, scfg, vfPairOpt{
			CliAct: func(c *Conn) error { return vfSendAll(c, []byte("hello from client")) },
			SrvAct: func(c *Conn) error { _, err := vfRecvN(c, 17); return err },
		})
		c09ConvC2S, _ = r.Sim.snapshot(0)
		c09ConvS2C, _ = r.Sim.snapshot(1)
	})
	return c09ConvC2S, c09ConvS2C
}

var c09Hostile = []int{0, 1, 2, 3, 4, 5, 255, 256, 16384, 16385, 16384 + 2048, 16384 + 2049, 65535}

func c09FeedGen() *rapid.Generator[c09FeedCase] {
	return rapid.Custom(func(t *rapid.T) c09FeedCase {
		c := c09FeedCase{Client: rapid.Bool().Draw(t, "client"), Chunk: rapid.SampledFrom([]int{0, 0, 1, 5, 100}).Draw(t, "chunk")}
		c2s, s2c := c09Recorded()
		src := c2s
		if c.Client {
			src = s2c
		}
		switch rapid.IntRange(0, 4).Draw(t, "mode") {
		case 0: // raw bytes
			c.Data = rapid.SliceOfN(rapid.Byte(), 0, 300).Draw(t, "raw")
		case 1: // records with valid-looking headers and hostile lengths
			n := rapid.IntRange(1, 6).Draw(t, "nrec")
			for i := 0; i < n; i++ {
				typ := rapid.SampledFrom([]byte{20, 21, 22, 22, 22, 23, 24, 0x80}).Draw(t, "typ")
				ln := rapid.OneOf(rapid.SampledFrom(c09Hostile), rapid.IntRange(0, 80)).Draw(t, "len")
				bodyLen := ln
				if rapid.IntRange(0, 3).Draw(t, "short") == 0 {
					bodyLen = rapid.IntRange(0, 40).Draw(t, "blen")
				}
				if bodyLen > 70000 {
					bodyLen = 70000
				}
				body := make([]byte, bodyLen)
				if bodyLen > 0 && typ == 22 {
					// plausible handshake header
					body[0] = rapid.SampledFrom([]byte{1, 2, 11, 12, 13, 14, 15, 16, 20, 3, 99}).Draw(t, "hstyp")
					if bodyLen >= 4 {
						hl := rapid.OneOf(rapid.Just(bodyLen-4), rapid.SampledFrom([]int{0, 1, 65535, 65536, 65537, 1 << 20, 1<<24 - 1})).Draw(t, "hlen")
						body[1], body[2], body[3] = byte(hl>>16), byte(hl>>8), byte(hl)
					}
				}
				c.Data = append(c.Data, typ, 1, byte(rapid.SampledFrom([]int{1, 1, 1, 0, 3}).Draw(t, "minor")), byte(ln>>8), byte(ln))
				c.Data = append(c.Data, body...)
			}
		default: // mutation of the recorded conversation
			d := append([]byte(nil), src...)
			nm := rapid.IntRange(1, 4).Draw(t, "nmut")
			for i := 0; i < nm && len(d) > 0; i++ {
				pos := rapid.IntRange(0, len(d)-1).Draw(t, "pos")
				switch rapid.IntRange(0, 3).Draw(t, "mk") {
				case 0:
					d[pos] ^= byte(rapid.IntRange(1, 255).Draw(t, "mask"))
				case 1:
					d = d[:pos]
				case 2:
					d[pos] = byte(rapid.SampledFrom([]int{0, 1, 0x7f, 0x80, 0xff}).Draw(t, "val"))
				case 3:
					ins := rapid.SliceOfN(rapid.Byte(), 1, 8).Draw(t, "ins")
					d = append(d[:pos], append(ins, d[pos:]...)...)
				}
			}
			c.Data = d
		}
		return c
	})
}

// c09SplitHeaderFeed: a never-completing handshake message whose 4-byte header is split over the
// first records (k bytes, then the rest), announcing hlen bytes, followed by nrec full records of body.
func c09SplitHeaderFeed(client bool, k, hlen, nrec int) c09FeedCase {
	typ := byte(1)
	if client {
		typ = 2
	}
	hdr := []byte{typ, byte(hlen >> 16), byte(hlen >> 8), byte(hlen)}
	var d []byte
	recd := func(p []byte) {
		d = append(d, 22, 1, 1, byte(len(p)>>8), byte(len(p)))
		d = append(d, p...)
	}
	if k > 0 && k < 4 {
		recd(hdr[:k])
		recd(hdr[k:])
	} else {
		recd(hdr)
	}
	body := make([]byte, 16000)
	for i := 0; i < nrec; i++ {
		recd(body)
	}
	return c09FeedCase{Client: client, Data: d}
}

func TestVF_C09_Feed(t *testing.T) {
	rec := vfRec("C09", "C09-feed", "never-completing handshake messages whose 4-byte header is split over two records in every way and announces 65536 / 65537 / 2^24-1 bytes, followed by 60 full records; arbitrary byte strings (raw; records with valid-looking headers, hostile lengths and plausible handshake headers; mutations of a recorded honest conversation) fed in generated chunk sizes to a fresh client or server that runs Handshake and then Read to exhaustion; oracle: no panic, no reading of an exhausted transport more than 200 times, hand+rawInput within a fixed bound; non-trivial = at least one complete record header reached the parser; distinct = hash of the input")
	idx := 0
	for _, client := range []bool{false, true} {
		for k := 0; k <= 3; k++ {
			for _, hlen := range []int{65536, 65537, 1 << 20, 1<<24 - 1} {
				idx++
				if !vfMine(idx) {
					continue
				}
				c := c09SplitHeaderFeed(client, k, hlen, 60)
				sig, msg, depth := c09RunFeed(c)
				if sig != "" {
					rec.Violation(sig, c, "%s (header split after %d bytes, announced length %d)", msg, k, hlen)
				}
				rec.EvalHash(true, vfHash(client, k, hlen), func() interface{} {
					return map[string]interface{}{"client": client, "header_split": k, "announced": hlen, "records": 60}
				}, depth, "split-header")
			}
		}
	}
	vfRapid(t, rec, "feed", vfN(3000, 200000), func(t *rapid.T) {
		c := c09FeedGen().Draw(t, "case")
		sig, msg, depth := c09RunFeed(c)
		if sig != "" {
			rec.Fail(t, sig, c, "%s", msg)
		}
		rec.EvalHash(len(c.Data) >= 5, vfHash(c.Client, c.Data), func() interface{} {
			d := c.Data
			if len(d) > 48 {
				d = d[:48]
			}
			return map[string]interface{}{"client": c.Client, "chunk": c.Chunk, "len": len(c.Data), "head": fmt.Sprintf("%x", d)}
		}, depth)
	})
}

func FuzzVF_C09_Server(f *testing.F) { c09Fuzz(f, false) }
func FuzzVF_C09_Client(f *testing.F) { c09Fuzz(f, true) }

func c09Fuzz(f *testing.F, client bool) {
	c2s, s2c := c09Recorded()
	src := c2s
	if client {
		src = s2c
	}
	f.Add(src)
	f.Add(src[:len(src)/2])
	for _, n := range c09Hostile {
		f.Add([]byte{22, 1, 1, byte(n >> 8), byte(n), 1, 0, 0, 0})
	}
	f.Fuzz(func(t *testing.T, data []byte) {
		if sig, msg, _ := c09RunFeed(c09FeedCase{Client: client, Data: data}); sig != "" {
			t.Fatalf("%s: %s", sig, msg)
		}
	})
}

func init() {
	vfRegisterReplay("C09-feed", func(raw json.RawMessage) error {
		var c c09FeedCase
		if err := json.Unmarshal(raw, &c); err != nil {
			return err
		}
		if sig, msg, _ := c09RunFeed(c); sig != "" {
			return fmt.Errorf("%s: %s", sig, msg)
		}
		return nil
	})
}

var _ = bytes.Equal
