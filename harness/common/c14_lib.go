//go:build verif

package vfpkg

//vf:pkgs tlcp dtlcp

// Conversion between the stack-neutral c14Msg and the library's message structs.

func c14NewLib(kind string) handshakeMessage {
	switch kind {
	case "CH":
		return new(clientHelloMsg)
	case "SH":
		return new(serverHelloMsg)
	case "Cert":
		return new(certificateMsg)
	case "SKX":
		return new(serverKeyExchangeMsg)
	case "CR":
		return new(certificateRequestMsg)
	case "SHD":
		return new(serverHelloDoneMsg)
	case "CKE":
		return new(clientKeyExchangeMsg)
	case "CV":
		return new(certificateVerifyMsg)
	case "Fin":
		return new(finishedMsg)
	}
	return c14ExtraNew(kind)
}

func c14ToLib(m c14Msg) handshakeMessage {
	switch m.Kind {
	case "CH":
		x := &clientHelloMsg{vers: m.Vers, random: m.Random, sessionId: m.SessionID, cipherSuites: m.Suites, compressionMethods: m.Compression,
			serverName: m.ServerName, ocspStapling: m.OCSP, alpnProtocols: m.ALPN, ibsdhClientID: m.ClientID}
		for _, ta := range m.TA {
			x.trustedAuthorities = append(x.trustedAuthorities, TrustedAuthority{IdentifierType: ta.Type, Identifier: ta.ID})
		}
		for _, c := range m.Curves {
			x.supportedCurves = append(x.supportedCurves, CurveID(c))
		}
		for _, s := range m.SigAlgs {
			x.supportedSignatureAlgorithms = append(x.supportedSignatureAlgorithms, SignatureScheme(s))
		}
		c14SetCookie(x, m.Cookie)
		return x
	case "SH":
		x := &serverHelloMsg{vers: m.Vers, random: m.Random, sessionId: m.SessionID, cipherSuite: m.Suite, compressionMethod: m.Comp,
			ocspStapling: m.OCSP, ocspResponse: m.OCSPResp, serverNameAck: m.SNIAck}
		if len(m.ALPN) > 0 {
			x.alpnProtocol = m.ALPN[0]
		}
		return x
	case "Cert":
		return &certificateMsg{certificates: m.Certs}
	case "SKX":
		return &serverKeyExchangeMsg{key: m.Opaque}
	case "CR":
		return &certificateRequestMsg{certificateTypes: m.CertTypes, certificateAuthorities: m.CAs}
	case "SHD":
		return new(serverHelloDoneMsg)
	case "CKE":
		return &clientKeyExchangeMsg{ciphertext: m.Opaque}
	case "CV":
		return &certificateVerifyMsg{signature: m.Opaque}
	case "Fin":
		return &finishedMsg{verifyData: m.Opaque}
	}
	return c14ExtraTo(m)
}

func c14FromLib(lm handshakeMessage) c14Msg {
	switch x := lm.(type) {
	case *clientHelloMsg:
		m := c14Msg{Kind: "CH", Vers: x.vers, Random: x.random, SessionID: x.sessionId, Suites: x.cipherSuites, Compression: x.compressionMethods,
			ServerName: x.serverName, OCSP: x.ocspStapling, ALPN: x.alpnProtocols, ClientID: x.ibsdhClientID, Cookie: c14GetCookie(x)}
		for _, ta := range x.trustedAuthorities {
			m.TA = append(m.TA, c14TA{Type: ta.IdentifierType, ID: ta.Identifier})
		}
		for _, c := range x.supportedCurves {
			m.Curves = append(m.Curves, uint16(c))
		}
		for _, s := range x.supportedSignatureAlgorithms {
			m.SigAlgs = append(m.SigAlgs, uint16(s))
		}
		return m
	case *serverHelloMsg:
		m := c14Msg{Kind: "SH", Vers: x.vers, Random: x.random, SessionID: x.sessionId, Suite: x.cipherSuite, Comp: x.compressionMethod,
			OCSP: x.ocspStapling, OCSPResp: x.ocspResponse, SNIAck: x.serverNameAck}
		if x.alpnProtocol != "" {
			m.ALPN = []string{x.alpnProtocol}
		}
		return m
	case *certificateMsg:
		return c14Msg{Kind: "Cert", Certs: x.certificates}
	case *serverKeyExchangeMsg:
		return c14Msg{Kind: "SKX", Opaque: x.key}
	case *certificateRequestMsg:
		return c14Msg{Kind: "CR", CertTypes: x.certificateTypes, CAs: x.certificateAuthorities}
	case *serverHelloDoneMsg:
		return c14Msg{Kind: "SHD"}
	case *clientKeyExchangeMsg:
		return c14Msg{Kind: "CKE", Opaque: x.ciphertext}
	case *certificateVerifyMsg:
		return c14Msg{Kind: "CV", Opaque: x.signature}
	case *finishedMsg:
		return c14Msg{Kind: "Fin", Opaque: x.verifyData}
	}
	return c14ExtraFrom(lm)
}
