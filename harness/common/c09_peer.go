//go:build verif

package vfpkg

//vf:pkgs tlcp dtlcp

// C09, generators G2 (structured mutation of every handshake message of a valid flow, sent by a
// scripted peer with correct outer framing), G3 (certificates of foreign key types in every
// certificate slot) and G4 (floods). One oracle: the endpoint under test never panics, the run
// ends (error, completion, or waiting for input that never comes), buffers stay bounded.

import (
	"encoding/json"
	"fmt"
	"testing"

	"github.com/emmansun/gmsm/sm2"
	"pgregory.net/rapid"
)

type c09Mut struct {
	Op  string `json:"op"` // trunc, xor01, xor80, zero, ff, inc, dec, append
	Pos int    `json:"pos"`
}

func (m c09Mut) apply(b []byte) []byte {
	b = append([]byte(nil), b...)
	switch m.Op {
	case "trunc":
		if m.Pos < len(b) {
			return b[:m.Pos]
		}
		return b
	case "append":
		return append(b, make([]byte, 1+m.Pos%3)...)
	}
	if m.Pos >= len(b) {
		return b
	}
	switch m.Op {
	case "xor01":
		b[m.Pos] ^= 1
	case "xor80":
		b[m.Pos] ^= 0x80
	case "zero":
		b[m.Pos] = 0
	case "ff":
		b[m.Pos] = 0xff
	case "inc":
		b[m.Pos]++
	case "dec":
		b[m.Pos]--
	}
	return b
}

type c09PeerCase struct {
	Client bool   `json:"client"` // endpoint under test is the client
	Suite  uint16 `json:"suite"`
	Msg    string `json:"msg"` // which message of the flow is mutated
	Mut    c09Mut `json:"mut"`
	Sub    string `json:"sub,omitempty"` // substitute: body of another message kind
}

var c09ClientFlow = []string{"SH", "Cert", "SKX", "CR", "SHD", "Fin"}
var c09ServerFlow = []string{"CH", "Cert", "CKE", "CV", "Fin"}

// c09Body returns the marshalled body (without handshake header) of a message.
func c09Body(m handshakeMessage) []byte {
	d, err := m.marshal()
	if err != nil || len(d) < vfHSHdrLen {
		return nil
	}
	return d[vfHSHdrLen:]
}

// c09RunPeer runs the case; bodyLen reports the honest length of the targeted message.
func c09RunPeer(c c09PeerCase) (sig, msg string, bodyLen int) {
	p := vfGetPKI()
	ccfg := &Config{Time: vfTime, RootCAs: p.A.pool, ServerName: vfServerName, CipherSuites: []uint16{c.Suite}, Certificates: []Certificate{p.CliSig, p.CliEnc}}
	scfg := &Config{Time: vfTime, Certificates: []Certificate{p.SrvSig, p.SrvEnc}, CipherSuites: []uint16{c.Suite}, ClientCAs: p.A.pool, ClientAuth: RequireAndVerifyClientCert}
	mutate := func(kind string, body []byte) []byte {
		if kind != c.Msg {
			return body
		}
		bodyLen = len(body)
		if c.Sub != "" {
			return []byte(c.Sub)
		}
		return c.Mut.apply(body)
	}
	var peer func(pc *Conn) error
	var ucfg, pcfg *Config
	if c.Client {
		ucfg, pcfg = ccfg, scfg
		peer = func(pc *Conn) error {
			sp := vfNewSrvPeer(pc)
			if err := sp.ReadClientHello(); err != nil {
				return err
			}
			if err := sp.PickSuite(0); err != nil {
				return err
			}
			hs := sp.hs
			hs.hello.cipherSuite = hs.suite.id
			hs.hello.sessionId = make([]byte, 32)
			hs.finishedHash = newFinishedHash(pc.vers, hs.suite)
			transcriptMsg(hs.clientHello, &hs.finishedHash)
			sp.ka = hs.suite.ka(pc.vers)
			sendM := func(kind string, typ uint8, m handshakeMessage) error {
				return sp.SendRawHandshake(typ, mutate(kind, c09Body(m)))
			}
			if err := sendM("SH", typeServerHello, hs.hello); err != nil {
				return err
			}
			if err := sendM("Cert", typeCertificate, &certificateMsg{certificates: [][]byte{p.SrvSig.Certificate[0], p.SrvEnc.Certificate[0]}}); err != nil {
				return err
			}
			skx, err := sp.ka.generateServerKeyExchange(hs)
			if err != nil {
				return err
			}
			if err := sendM("SKX", typeServerKeyExchange, skx); err != nil {
				return err
			}
			if err := sendM("CR", typeCertificateRequest, &certificateRequestMsg{certificateTypes: []byte{certTypeRSASign, certTypeECDSASign}, certificateAuthorities: p.A.pool.Subjects()}); err != nil {
				return err
			}
			if err := sendM("SHD", typeServerHelloDone, new(serverHelloDoneMsg)); err != nil {
				return err
			}
			if !vfPeerPending(pc) {
				return nil
			}
			if err := sp.ReadClientFlight(true); err != nil {
				return err
			}
			sp.EstablishKeys()
			if err := sp.ReadClientFinished(); err != nil {
				return err
			}
			if err := sp.SendCCS(); err != nil {
				return err
			}
			fin := &finishedMsg{verifyData: hs.finishedHash.serverSum(hs.masterSecret)}
			return sendM("Fin", typeFinished, fin)
		}
	} else {
		ucfg, pcfg = scfg, ccfg
		pcfg.InsecureSkipVerify = true
		peer = func(pc *Conn) error {
			cp := vfNewCliPeer(pc)
			o := vfCHOpt{}
			if c.Msg == "CH" {
				o.MutateBody = func(b []byte) []byte { return mutate("CH", b) }
			}
			if err := cp.SendClientHello(o); err != nil {
				return err
			}
			if err := cp.ReadServerFlight(); err != nil {
				return err
			}
			sendM := func(kind string, typ uint8, m handshakeMessage) error {
				return cp.SendRawHandshake(typ, mutate(kind, c09Body(m)))
			}
			if err := sendM("Cert", typeCertificate, &certificateMsg{certificates: [][]byte{p.CliSig.Certificate[0], p.CliEnc.Certificate[0]}}); err != nil {
				return err
			}
			enc := p.CliEnc
			if err := cp.PrepareCKE(&enc); err != nil {
				return err
			}
			if err := sendM("CKE", typeClientKeyExchange, cp.ckx); err != nil {
				return err
			}
			sigType, newHash, _ := typeAndHashFrom(cp.hs.suite.id)
			sg, err := signHandshake(pc, sigType, p.CliSig.PrivateKey, newHash, cp.hs.finishedHash.Sum())
			if err != nil {
				return err
			}
			if err := sendM("CV", typeCertificateVerify, &certificateVerifyMsg{signature: sg}); err != nil {
				return err
			}
			cp.ComputeMaster()
			if err := cp.EstablishKeys(); err != nil {
				return err
			}
			if err := cp.SendCCS(); err != nil {
				return err
			}
			fin := &finishedMsg{verifyData: cp.hs.finishedHash.clientSum(cp.hs.masterSecret)}
			return sendM("Fin", typeFinished, fin)
		}
	}
	ucfg = ucfg.Clone()
	vfPeerTuneConfig(ucfg)
	r := vfRunVsPeer(c.Client, ucfg, pcfg, peer, nil)
	if r.UPanic != "" {
		return "panic", "endpoint under test panicked: " + r.UPanic, bodyLen
	}
	if r.PPanic != "" {
		return "harness-peer-panic", r.PPanic, bodyLen
	}
	if r.Watchdog {
		return "spin-or-hang", "run did not end within 30 s of wall-clock time", bodyLen
	}
	return "", "", bodyLen
}

// ---------------------------------------------------------------------------- G3: foreign key types

type c09ForeignCase struct {
	Client bool   `json:"client"`
	Suite  uint16 `json:"suite"`
	Key    string `json:"key"`  // rsa, ed25519, p256
	Slot   int    `json:"slot"` // 0: signing certificate, 1: encryption certificate
	Verify bool   `json:"verify"`
}

func c09RunForeign(c c09ForeignCase) (sig, msg string) {
	p := vfGetPKI()
	foreign := map[string]Certificate{"rsa": p.RSALeaf, "ed25519": p.EdLeaf, "p256": p.P256Leaf}[c.Key]
	if c.Client {
		// client under test, the peer presents a foreign certificate in one slot
		ucfg := &Config{Time: vfTime, RootCAs: p.A.pool, ServerName: vfServerName, CipherSuites: []uint16{c.Suite}, InsecureSkipVerify: !c.Verify, Certificates: []Certificate{p.CliSig, p.CliEnc}}
		pcfg := &Config{Time: vfTime, Certificates: []Certificate{p.SrvSig, p.SrvEnc}, CipherSuites: []uint16{c.Suite}}
		certs := [][]byte{p.SrvSig.Certificate[0], p.SrvEnc.Certificate[0]}
		certs[c.Slot] = foreign.Certificate[0]
		peer := func(pc *Conn) error {
			sp := vfNewSrvPeer(pc)
			if err := sp.ReadClientHello(); err != nil {
				return err
			}
			if err := sp.PickSuite(0); err != nil {
				return err
			}
			if err := sp.SendServerHello(vfSHOpt{}); err != nil {
				return err
			}
			if err := sp.SendCertificate(certs); err != nil {
				return err
			}
			if err := sp.SendSKX(vfSKXOpt{}); err != nil {
				return err
			}
			sp.SendCertReq(nil)
			sp.SendHelloDone()
			if vfPeerPending(pc) {
				sp.ReadClientFlight(true)
			}
			return nil
		}
		r := vfRunVsPeer(true, ucfg, pcfg, peer, nil)
		if r.UPanic != "" {
			return "panic", "client panicked on a " + c.Key + " certificate: " + r.UPanic
		}
		if r.PPanic != "" {
			return "harness-peer-panic", r.PPanic
		}
		if r.UErr == nil {
			return "foreign-key-accepted", "client completed with a " + c.Key + " certificate in slot " + fmt.Sprint(c.Slot)
		}
		return "", ""
	}
	// server under test, the peer presents a foreign client certificate
	pol := RequireAnyClientCert
	if c.Verify {
		pol = RequireAndVerifyClientCert
	}
	ucfg := &Config{Time: vfTime, Certificates: []Certificate{p.SrvSig, p.SrvEnc}, CipherSuites: []uint16{c.Suite}, ClientCAs: p.A.pool, ClientAuth: pol}
	pcfg := &Config{Time: vfTime, InsecureSkipVerify: true, CipherSuites: []uint16{c.Suite}, Certificates: []Certificate{p.CliSig, p.CliEnc}}
	certs := [][]byte{p.CliSig.Certificate[0], p.CliEnc.Certificate[0]}
	certs[c.Slot] = foreign.Certificate[0]
	peer := func(pc *Conn) error {
		cp := vfNewCliPeer(pc)
		if err := cp.SendClientHello(vfCHOpt{}); err != nil {
			return err
		}
		if err := cp.ReadServerFlight(); err != nil {
			return err
		}
		if err := cp.SendCertificate(certs); err != nil {
			return err
		}
		enc := p.CliEnc
		if err := cp.PrepareCKE(&enc); err != nil {
			return err
		}
		if err := cp.SendCKE(nil); err != nil {
			return err
		}
		// proof of possession with whatever key belongs to slot 0
		key := p.CliSig.PrivateKey
		if c.Slot == 0 {
			key = foreign.PrivateKey
		}
		sent := false
		if _, isSM2 := key.(*sm2.PrivateKey); isSM2 {
			sent = cp.SendCertVerify(key, nil, false) == nil
		}
		if !sent {
			// a key type the peer's signer cannot handle: send a syntactically valid dummy
			cp.SendRawHandshake(typeCertificateVerify, []byte{0, 4, 1, 2, 3, 4})
		}
		cp.ComputeMaster()
		cp.EstablishKeys()
		cp.SendCCS()
		cp.SendFinished(false)
		return nil
	}
	ucfg = ucfg.Clone()
	vfPeerTuneConfig(ucfg)
	r := vfRunVsPeer(false, ucfg, pcfg, peer, nil)
	if r.UPanic != "" {
		return "panic", "server panicked on a " + c.Key + " client certificate: " + r.UPanic
	}
	if r.PPanic != "" {
		return "harness-peer-panic", r.PPanic
	}
	return "", ""
}

func TestVF_C09_Peer(t *testing.T) {
	rec := vfRec("C09", "C09-peer-mutation", "for every handshake message of a valid flow, in both roles: every truncation length, every byte x {xor01, xor80, =0, =ff, +1, -1}, trailing bytes, and substitution by short bodies, sent by a scripted peer with correct outer framing (thorough: all positions; quick: strided), suites ECC-GCM and ECDHE-GCM; oracle: no panic, run ends; non-trivial = the mutated message reached the parser (always); distinct = (role, suite, message, mutation)")
	suites := []uint16{ECC_SM4_GCM_SM3, ECDHE_SM4_GCM_SM3}
	ops := []string{"xor01", "xor80", "zero", "ff", "inc", "dec"}
	idx := 0
	for _, client := range []bool{true, false} {
		flow := c09ServerFlow
		if client {
			flow = c09ClientFlow
		}
		for _, suite := range suites {
			for _, m := range flow {
				// learn the honest body length
				_, _, n := c09RunPeer(c09PeerCase{Client: client, Suite: suite, Msg: m, Mut: c09Mut{Op: "none"}})
				stride := 1
				if !vfThorough() && n > 120 {
					stride = n / 60
				}
				try := func(c c09PeerCase) {
					idx++
					if !vfMine(idx) {
						return
					}
					sig, msg, _ := c09RunPeer(c)
					if sig != "" {
						rec.Violation(sig+":"+m, c, "%s", msg)
					}
					rec.Eval(true, c, "msg:"+m, "op:"+c.Mut.Op)
				}
				for pos := 0; pos < n; pos++ {
					// the first bytes hold the length fields: always dense there
					if pos > 12 && pos%stride != 0 && pos < n-4 {
						continue
					}
					try(c09PeerCase{Client: client, Suite: suite, Msg: m, Mut: c09Mut{Op: "trunc", Pos: pos}})
					for _, op := range ops {
						try(c09PeerCase{Client: client, Suite: suite, Msg: m, Mut: c09Mut{Op: op, Pos: pos}})
					}
				}
				for k := 0; k < 3; k++ {
					try(c09PeerCase{Client: client, Suite: suite, Msg: m, Mut: c09Mut{Op: "append", Pos: k}})
				}
				for _, sub := range []string{"\x00", "\x00\x00", "\x00\x01\x30", "\x00\x02\x30\x00", "\xff\xff\xff", "\x00\x00\x00\x00\x00"} {
					try(c09PeerCase{Client: client, Suite: suite, Msg: m, Sub: sub, Mut: c09Mut{Op: "substitute"}})
				}
			}
		}
	}
	rec.SetExhaustive(vfThorough(), fmt.Sprintf("%d enumerated (role, suite, message, mutation) cases; thorough = every position", idx))
	recF := vfRec("C09", "C09-foreign-keys", "RSA-2048, Ed25519 and NIST P-256 certificates in each certificate slot of both directions, with and without verification, four suites; oracle: no panic, and a client never completes with a foreign server certificate")
	j := 0
	for _, client := range []bool{true, false} {
		for _, suite := range vfSuites {
			for _, key := range []string{"rsa", "ed25519", "p256"} {
				for slot := 0; slot < 2; slot++ {
					for _, verify := range []bool{true, false} {
						j++
						if !vfMine(j) {
							continue
						}
						c := c09ForeignCase{Client: client, Suite: suite, Key: key, Slot: slot, Verify: verify}
						sig, msg := c09RunForeign(c)
						if sig != "" {
							recF.Violation(sig, c, "%s", msg)
						}
						recF.Eval(true, c, "key:"+key)
					}
				}
			}
		}
	}
	recF.SetExhaustive(true, fmt.Sprintf("%d cases", j))
	// random multi-mutations
	vfRapid(t, rec, "random", vfN(600, 20000), func(t *rapid.T) {
		client := rapid.Bool().Draw(t, "client")
		flow := c09ServerFlow
		if client {
			flow = c09ClientFlow
		}
		c := c09PeerCase{Client: client, Suite: rapid.SampledFrom(vfSuites).Draw(t, "suite"), Msg: rapid.SampledFrom(flow).Draw(t, "msg"),
			Mut: c09Mut{Op: rapid.SampledFrom(append([]string{"trunc", "append"}, ops...)).Draw(t, "op"), Pos: rapid.IntRange(0, 1100).Draw(t, "pos")}}
		sig, msg, _ := c09RunPeer(c)
		if sig != "" {
			rec.Fail(t, sig+":"+c.Msg, c, "%s", msg)
		}
		rec.Eval(true, c, "msg:"+c.Msg, "op:"+c.Mut.Op)
	})
}

func init() {
	vfRegisterReplay("C09-peer-mutation", func(raw json.RawMessage) error {
		var c c09PeerCase
		if err := json.Unmarshal(raw, &c); err != nil {
			return err
		}
		if sig, msg, _ := c09RunPeer(c); sig != "" {
			return fmt.Errorf("%s: %s", sig, msg)
		}
		return nil
	})
	vfRegisterReplay("C09-foreign-keys", func(raw json.RawMessage) error {
		var c c09ForeignCase
		if err := json.Unmarshal(raw, &c); err != nil {
			return err
		}
		if sig, msg := c09RunForeign(c); sig != "" {
			return fmt.Errorf("%s: %s", sig, msg)
		}
		return nil
	})
}
