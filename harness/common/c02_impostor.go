//go:build verif

package vfpkg

//vf:pkgs tlcp dtlcp

// C02: a verifying client completes only with an authenticated server.
// The impostor catalogue is played by the scripted server-role peer; each (impostor, verification
// mode) is labelled must-fail or must-complete from the property text.

import (
	"bytes"
	"crypto"
	"crypto/rand"
	"encoding/json"
	"fmt"
	"testing"
	"time"

	"github.com/emmansun/gmsm/sm2"
	x509 "github.com/emmansun/gmsm/smx509"
	"pgregory.net/rapid"
)

type c02Case struct {
	Kind   string `json:"kind"`
	Suite  uint16 `json:"suite"`
	Verify bool   `json:"verify"`
	Param  int    `json:"param"` // which byte to corrupt etc.
}

var c02Kinds = []string{
	"honest",          // control: must complete
	"untrusted",       // certificates issued by an unknown root
	"expired",         //
	"notyet",          //
	"wrongname",       //
	"wrongname-ip4",   // the client is configured with an IP literal the certificates are not valid for
	"wrongname-ip6",   //
	"single",          // only one certificate presented
	"mixedca",         // signing certificate trusted, encryption certificate from an unknown root
	"sig-untrusted",   // the other way round
	"enc-expired",     // only the encryption certificate is out of date
	"enc-notyet",      //
	"sig-expired",     // only the signing certificate is out of date
	"sig-notyet",      //
	"enc-wrongname",   // only the encryption certificate is not valid for the configured name
	"sig-wrongname",   //
	"chain-honest",      // control: certificates issued by an intermediate CA whose certificate is sent along: must complete
	"chain-enc-expired", // the same with only the encryption certificate out of date
	"chain-enc-notyet",  //
	"chain-sig-expired", //
	"sig-otherkey",    // key-exchange signature made with a key that is not the signing certificate's
	"sig-otherrandoms", // signature over other randoms (replayed)
	"sig-otherparams", // signature over another certificate (ECC) / other ECDH parameters (ECDHE)
	"sig-corrupt",     // one byte of the signature flipped
	"sig-empty",       //
	"skx-omitted",     // the signed message is left out altogether
	"no-enc-key",      // genuine certificates and signing key, but not the encryption private key
	"bad-finished",    // everything genuine but a wrong Finished
}

// c02MustComplete: the table derived from the property statement.
func c02MustComplete(kind string, verify bool) bool {
	switch kind {
	case "honest", "chain-honest":
		return true
	case "chain-enc-expired", "chain-enc-notyet", "chain-sig-expired":
		return !verify
	case "untrusted", "expired", "notyet", "wrongname", "wrongname-ip4", "wrongname-ip6", "mixedca",
		"sig-untrusted", "enc-expired", "enc-notyet", "sig-expired", "sig-notyet", "enc-wrongname", "sig-wrongname":
		return !verify // verification off waives chain, dates and name ...
	}
	return false // ... but never the two proofs of possession, nor the two-certificate rule
}

const c02Data = "data-from-the-peer"

func c02OtherKey() *sm2.PrivateKey {
	k, err := sm2.GenerateKey(rand.Reader)
	if err != nil {
		panic(err)
	}
	return k
}

func c02Run(c c02Case) (sig, msg string) {
	p := vfGetPKI()
	ucfg := &Config{Time: vfTime, RootCAs: p.A.pool, ServerName: vfServerName, CipherSuites: []uint16{c.Suite}, InsecureSkipVerify: !c.Verify,
		Certificates: []Certificate{p.CliSig, p.CliEnc}}
	sigC, encC := p.SrvSig, p.SrvEnc
	switch c.Kind {
	case "untrusted":
		sigC, encC = p.SrvSigB, p.SrvEncB
	case "expired":
		sigC, encC = p.SrvSigExpired, p.SrvEncExpired
	case "notyet":
		sigC, encC = p.SrvSigNotYet, p.SrvEncNotYet
	case "wrongname":
		sigC, encC = p.SrvSigWrongName, p.SrvEncWrongName
	case "wrongname-ip4":
		ucfg.ServerName = "192.0.2.99"
	case "wrongname-ip6":
		ucfg.ServerName = "[2001:db8::1]"
	case "mixedca":
		encC = p.SrvEncB
	case "chain-honest":
		sigC, encC = p.ChainSig, p.ChainEnc
	case "chain-enc-expired":
		sigC, encC = p.ChainSig, p.ChainEncExpired
	case "chain-enc-notyet":
		sigC, encC = p.ChainSig, p.ChainEncNotYet
	case "chain-sig-expired":
		sigC, encC = p.ChainSigExpired, p.ChainEnc
	case "sig-untrusted":
		sigC = p.SrvSigB
	case "enc-expired":
		encC = p.SrvEncExpired
	case "enc-notyet":
		encC = p.SrvEncNotYet
	case "sig-expired":
		sigC = p.SrvSigExpired
	case "sig-notyet":
		sigC = p.SrvSigNotYet
	case "enc-wrongname":
		encC = p.SrvEncWrongName
	case "sig-wrongname":
		sigC = p.SrvSigWrongName
	case "sig-otherkey":
		sigC.PrivateKey = c02OtherKey()
	case "no-enc-key":
		encC.PrivateKey = c02OtherKey()
	case "skx-omitted":
		// the strongest form: the impostor holds only the encryption private key
		sigC.PrivateKey = c02OtherKey()
	}
	pcfg := &Config{Time: vfTime, Certificates: []Certificate{sigC, encC}, CipherSuites: []uint16{c.Suite}}
	present := [][]byte{sigC.Certificate[0], encC.Certificate[0]}
	if c.Kind == "single" {
		present = present[:1]
	}
	if len(c.Kind) > 6 && c.Kind[:6] == "chain-" {
		present = append(present, p.I.cert.Raw)
	}
	peer := func(pc *Conn) error {
		sp := vfNewSrvPeer(pc)
		if err := sp.ReadClientHello(); err != nil {
			return err
		}
		if err := sp.PickSuite(0); err != nil {
			return err
		}
		if err := sp.SendServerHello(vfSHOpt{}); err != nil {
			return err
		}
		if err := sp.SendCertificate(present); err != nil {
			return err
		}
		var o vfSKXOpt
		switch c.Kind {
		case "sig-otherrandoms":
			o.ClientRandom = bytes.Repeat([]byte{0x42}, 32)
		case "sig-otherparams":
			if vfIsECDHE(c.Suite) {
				o.SignOtherParams = true
			} else {
				o.EncCertDER = p.SrvEnc2.Certificate[0]
			}
		case "sig-corrupt":
			o.Corrupt = 1 + c.Param
		case "sig-empty":
			o.EmptySig = true
		}
		if c.Kind != "skx-omitted" {
			if err := sp.SendSKX(o); err != nil {
				return err
			}
		}
		if vfIsECDHE(c.Suite) {
			if err := sp.SendCertReq(nil); err != nil {
				return err
			}
		}
		if err := sp.SendHelloDone(); err != nil {
			return err
		}
		// from here on the impostor carries on whatever happens: it must not be able to make the
		// client complete or accept data
		ferr := sp.ReadClientFlight(vfIsECDHE(c.Suite))
		if ferr != nil {
			sp.SetMaster(bytes.Repeat([]byte{7}, 48))
		}
		sp.EstablishKeys()
		sp.ReadClientFinished()
		sp.SendCCS()
		sp.SendFinished(c.Kind == "bad-finished")
		sp.SendAppData([]byte(c02Data))
		return nil
	}
	var got []byte
	var readErr error
	r := vfRunVsPeer(true, ucfg, pcfg, peer, func(cn *Conn, hsErr error) error {
		buf := make([]byte, 100)
		n, err := cn.Read(buf)
		got, readErr = buf[:n], err
		return nil
	})
	if r.UPanic != "" {
		return "panic", "client panicked: " + r.UPanic
	}
	if r.PPanic != "" {
		return "harness-peer-panic", r.PPanic
	}
	if r.UHung {
		return "hang", "client neither completed nor failed"
	}
	want := c02MustComplete(c.Kind, c.Verify)
	if want {
		if r.UErr != nil {
			return "rejected-legitimate", fmt.Sprintf("client failed although the property allows this peer: %v", r.UErr)
		}
		if !r.UState.HandshakeComplete {
			return "not-complete", "Handshake returned nil but HandshakeComplete is false"
		}
		if string(got) != c02Data {
			return "data", fmt.Sprintf("client read %q (%v), want the peer's data", got, readErr)
		}
		return "", ""
	}
	if r.UErr == nil {
		return "accepted-impostor:" + c.Kind, fmt.Sprintf("client completed a handshake with impostor %q (verification %v, suite %x)", c.Kind, c.Verify, c.Suite)
	}
	if r.UState.HandshakeComplete {
		return "complete-flag", "HandshakeComplete reported after a failed handshake"
	}
	if len(got) != 0 || readErr == nil {
		return "delivered-data", fmt.Sprintf("client Read returned %q, %v after a failed handshake", got, readErr)
	}
	return "", ""
}

// c02History: a session created by a configuration under which the server's certificates were
// acceptable (or not examined) and then offered by a verifying configuration that shares the cache
// and under which they are not (F13). first: 0 verification disabled, 1 verifying but trusting the
// other root, 2 verifying at a time when the certificates were in date. certs: the impostor kind of
// the second configuration's point of view ("honest" is the control).
type c02Hist struct {
	Suite uint16 `json:"suite"`
	First int    `json:"first"`
	Certs string `json:"certs"`
	// CB: the verifying configuration also has callbacks that accept everything:
	// 1 VerifyConnection, 2 VerifyPeerCertificate, 3 both (they add checks, they never replace the built-in ones)
	CB int `json:"cb,omitempty"`
}

func c02HistoryRun(h c02Hist) (sig, msg string, resumed bool) {
	p := vfGetPKI()
	cache := NewLRUSessionCache(8)
	sigC, encC := p.SrvSig, p.SrvEnc
	name := vfServerName
	switch h.Certs {
	case "untrusted":
		sigC, encC = p.SrvSigB, p.SrvEncB
	case "expired":
		sigC, encC = p.SrvSigExpired, p.SrvEncExpired
	case "enc-expired":
		encC = p.SrvEncExpired
	case "sig-notyet":
		sigC = p.SrvSigNotYet
	case "wrongname":
		sigC, encC = p.SrvSigWrongName, p.SrvEncWrongName
	case "enc-wrongname":
		encC = p.SrvEncWrongName
	case "wrongname-ip4":
		name = "192.0.2.99"
	case "mixedca":
		encC = p.SrvEncB
	}
	scfg := &Config{Time: vfTime, Certificates: []Certificate{sigC, encC}, CipherSuites: []uint16{h.Suite}, SessionCache: NewLRUSessionCache(8)}
	c2 := &Config{Time: vfTime, RootCAs: p.A.pool, ServerName: name, CipherSuites: []uint16{h.Suite}, SessionCache: cache,
		Certificates: []Certificate{p.CliSig, p.CliEnc}}
	c1 := c2.Clone()
	if h.CB&1 != 0 {
		c2.VerifyConnection = func(ConnectionState) error { return nil }
	}
	if h.CB&2 != 0 {
		c2.VerifyPeerCertificate = func([][]byte, [][]*x509.Certificate) error { return nil }
	}
	c1.InsecureSkipVerify = true
	if h.First == 1 {
		// where possible the first configuration verifies too, in a setting in which the certificates pass
		both := x509.NewCertPool()
		both.AddCert(p.A.cert)
		both.AddCert(p.B.cert)
		switch h.Certs {
		case "untrusted", "mixedca":
			c1.RootCAs, c1.InsecureSkipVerify = both, false
		case "expired": // (with only one certificate out of date there is no time at which both pass)
			c1.Time, c1.InsecureSkipVerify = func() time.Time { return vfT0.AddDate(-2, -6, 0) }, false
		}
	}
	r1 := vfRunPair(c1, scfg, vfPairOpt{})
	if r1.CErr != nil || r1.SErr != nil {
		return "honest-failed", fmt.Sprintf("first connection (certificates acceptable or not examined) failed: %v / %v", r1.CErr, r1.SErr), false
	}
	var got []byte
	r2 := vfRunPair(c2, scfg, vfPairOpt{
		SrvAct: func(cn *Conn) error { return vfSendAll(cn, []byte(c02Data)) },
		CliAct: func(cn *Conn) error { b, err := vfRecvN(cn, len(c02Data)); got = b; return err },
	})
	if r2.CPanic != "" || r2.SPanic != "" {
		return "panic", r2.CPanic + r2.SPanic, false
	}
	if !c02MustComplete(h.Certs, true) {
		if r2.CErr == nil {
			return "accepted-impostor:resumed-unverified", fmt.Sprintf("verifying client completed (resumed=%v) with a server whose certificates (%s) do not pass its checks; they were recorded by a non-verifying configuration sharing the cache; read %q", r2.CS.DidResume, h.Certs, got), r2.CS.DidResume
		}
		return "", "", false
	}
	if r2.CErr != nil || r2.SErr != nil {
		return "rejected-legitimate", fmt.Sprintf("verifying client failed against the genuine server after a non-verifying first connection: %v / %v", r2.CErr, r2.SErr), false
	}
	return "", "", r2.CS.DidResume
}

var c02HistCerts = []string{"honest", "untrusted", "expired", "enc-expired", "sig-notyet", "wrongname", "enc-wrongname", "wrongname-ip4", "mixedca"}

func c02History(suite uint16, impostorCerts bool) (sig, msg string) {
	h := c02Hist{Suite: suite, Certs: "honest"}
	if impostorCerts {
		h.Certs = "untrusted"
	}
	sig, msg, _ = c02HistoryRun(h)
	return
}

// c02TimeHistory: connections of one verifying client configuration family (same root pool, same
// server name) to the same genuine server while the configured clock moves in and out of the
// certificates' validity period; earlier connections stay open. Each connection must succeed
// exactly when the certificates are valid at the time configured for it.
func c02TimeHistory(suite uint16, steps []int) (sig, msg string) {
	p := vfGetPKI()
	scfg := &Config{Time: vfTime, Certificates: []Certificate{p.SrvSig, p.SrvEnc}, CipherSuites: []uint16{suite}}
	var keep []*Conn
	for i, st := range steps {
		at := vfT0
		switch st {
		case 1:
			at = vfT0.AddDate(6, 0, 0)
		case 2:
			at = vfT0.AddDate(-6, 0, 0)
		}
		ccfg := &Config{Time: func() time.Time { return at }, RootCAs: p.A.pool, ServerName: vfServerName, CipherSuites: []uint16{suite},
			Certificates: []Certificate{p.CliSig, p.CliEnc}}
		r := vfRunPair(ccfg, scfg, vfPairOpt{KeepOpen: true})
		keep = append(keep, r.Cli, r.Srv)
		if r.CPanic != "" || r.SPanic != "" {
			return "panic", r.CPanic + r.SPanic
		}
		want := st == 0
		if (r.CErr == nil) != want {
			return "validity-at-configured-time", fmt.Sprintf("connection %d of history %v at clock offset kind %d: client completed=%v (%v), certificates valid at that time=%v", i, steps, st, r.CErr == nil, r.CErr, want)
		}
	}
	_ = keep
	return "", ""
}

func TestVF_C02(t *testing.T) {
	rec := vfRec("C02", "C02-impostor", "impostor catalogue (28 kinds incl. two honest controls; four of them with an intermediate CA certificate sent along) x 4 suites x verification on/off played by a scripted server-role peer, plus two-connection histories 'session recorded by a configuration that did not examine the certificates, offered by a verifying configuration sharing the cache' for 8 kinds of unacceptable certificates and the honest control; parametrised kinds also under rapid; oracle: must-fail / must-complete table from the property text; must-fail => Handshake error, HandshakeComplete false, Read returns no data although the impostor sends some; non-trivial = impostor other than the honest control; distinct = (kind, suite, mode, parameter)")
	idx := 0
	for _, kind := range c02Kinds {
		for _, suite := range vfSuites {
			for _, verify := range []bool{true, false} {
				idx++
				if !vfMine(idx) {
					continue
				}
				c := c02Case{Kind: kind, Suite: suite, Verify: verify}
				if kind == "skx-omitted" && vfKnown("F1") && !vfIsECDHE(suite) {
					rec.Excluded("F1")
					continue
				}
				sig, msg := c02Run(c)
				if sig != "" {
					rec.Violation(sig, c, "%s", msg)
				}
				rec.Eval(kind != "honest" && kind != "chain-honest", c, "kind:"+kind, fmt.Sprintf("verify:%v", verify))
			}
		}
	}
	for _, suite := range vfSuites {
		for _, certs := range c02HistCerts {
			for first := 0; first <= 1; first++ {
				idx++
				if !vfMine(idx) {
					continue
				}
				h := c02Hist{Suite: suite, First: first, Certs: certs, CB: idx % 4}
				if certs != "honest" && vfKnown("F13") {
					rec.Excluded("F13")
					continue
				}
				sig, msg, resumed := c02HistoryRun(h)
				if sig != "" {
					rec.Violation(sig, h, "%s", msg)
				}
				cl := "kind:history"
				if resumed {
					cl = "kind:history-resumed"
				}
				rec.Eval(certs != "honest", h, cl, "history-certs:"+certs)
			}
		}
	}
	// clock histories: all sequences of length <= 3 over {valid, expired, not yet valid}
	for _, suite := range []uint16{ECC_SM4_GCM_SM3, ECDHE_SM4_CBC_SM3} {
		for n := 1; n <= 3; n++ {
			tot := 1
			for i := 0; i < n; i++ {
				tot *= 3
			}
			for code := 0; code < tot; code++ {
				idx++
				if !vfMine(idx) {
					continue
				}
				steps := make([]int, n)
				x := code
				for i := range steps {
					steps[i] = x % 3
					x /= 3
				}
				c := map[string]interface{}{"history": "clock", "suite": suite, "steps": steps}
				sig, msg := c02TimeHistory(suite, steps)
				if sig != "" {
					rec.Violation(sig, c, "%s", msg)
				}
				rec.Eval(n > 1, c, "kind:clock-history")
			}
		}
	}
	rec.SetExhaustive(true, fmt.Sprintf("catalogue of %d (kind, suite, mode) cases and 72 session histories enumerated completely; parametrised kinds additionally sampled", len(c02Kinds)*8))
	vfRapid(t, rec, "param", vfN(300, 5000), func(t *rapid.T) {
		c := c02Case{Kind: rapid.SampledFrom([]string{"sig-corrupt", "sig-corrupt", "sig-otherrandoms", "sig-otherparams", "sig-otherkey", "no-enc-key", "honest"}).Draw(t, "kind"),
			Suite: rapid.SampledFrom(vfSuites).Draw(t, "suite"), Verify: rapid.Bool().Draw(t, "verify"), Param: rapid.IntRange(0, 39).Draw(t, "param")}
		sig, msg := c02Run(c)
		if sig != "" {
			rec.Fail(t, sig, c, "%s", msg)
		}
		rec.Eval(c.Kind != "honest", c, "kind:"+c.Kind)
	})
	if vfKnown("F1") {
		sig, _ := c02Run(c02Case{Kind: "skx-omitted", Suite: ECC_SM4_GCM_SM3, Verify: true})
		rec.Known("F1", sig != "")
	}
	if vfKnown("F13") {
		sig, _ := c02History(ECC_SM4_GCM_SM3, true)
		rec.Known("F13", sig != "")
	}
}

var _ crypto.Signer = (*sm2.PrivateKey)(nil)

func init() {
	vfRegisterReplay("C02-impostor", func(raw json.RawMessage) error {
		var c c02Case
		if err := json.Unmarshal(raw, &c); err != nil || c.Kind == "" {
			var h struct {
				Suite    uint16 `json:"suite"`
				Impostor bool   `json:"impostor"`
			}
			if err := json.Unmarshal(raw, &h); err != nil {
				return err
			}
			if sig, msg := c02History(h.Suite, h.Impostor); sig != "" {
				return fmt.Errorf("%s: %s", sig, msg)
			}
			return nil
		}
		if sig, msg := c02Run(c); sig != "" {
			return fmt.Errorf("%s: %s", sig, msg)
		}
		return nil
	})
}
