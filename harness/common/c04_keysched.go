//go:build verif

package vfpkg

//vf:pkgs tlcp dtlcp

// C04: key schedule and record protection match an independent derivation.
// Oracle: from the tapped wire bytes only (plus the server's encryption private key, or a
// recorded ECDHE pre-master secret), `ref` must reproduce the whole conversation.

import (
	"bytes"
	"crypto"
	"crypto/rand"
	"encoding/json"
	"fmt"
	"io"
	"testing"
	"testing/iotest"

	"github.com/emmansun/gmsm/ecdh"
	"github.com/emmansun/gmsm/sm2"
	"pgregory.net/rapid"
)

// vfCapCache is a harness-supplied SessionCache (public interface) that remembers what was stored.
type vfCapCache struct {
	inner  SessionCache
	stored []*SessionState
}

func vfNewCapCache(n int) *vfCapCache { return &vfCapCache{inner: NewLRUSessionCache(n)} }

// vfNewCapCachePtr: the same around an application-style cache that keeps the object it is given.
func vfNewCapCachePtr() *vfCapCache {
	return &vfCapCache{inner: &vfPtrCache{m: map[string]*SessionState{}}}
}
func (c *vfCapCache) Get(k string) (*SessionState, bool) { return c.inner.Get(k) }
func (c *vfCapCache) Put(k string, s *SessionState) {
	if s != nil {
		c.stored = append(c.stored, s)
	}
	c.inner.Put(k, s)
}
func (c *vfCapCache) masterFor(sessionID []byte) []byte {
	for i := len(c.stored) - 1; i >= 0; i-- {
		if bytes.Equal(c.stored[i].sessionId, sessionID) {
			return c.stored[i].masterSecret
		}
	}
	return nil
}

// vfRecKA wraps the server's encryption key: it satisfies crypto.Decrypter and SM2KeyAgreement
// (both public extension points) and records the ECDHE pre-master secret the server computed.
type vfRecKA struct {
	*sm2.PrivateKey
	ke  SM2KeyAgreement
	pre [][]byte
}

func vfNewRecKA(k *sm2.PrivateKey) *vfRecKA {
	ek, err := k.ECDH()
	if err != nil {
		panic(err)
	}
	return &vfRecKA{PrivateKey: k, ke: newSM2KeyKE(rand.Reader, ek)}
}
func (r *vfRecKA) Public() crypto.PublicKey { return r.PrivateKey.Public() }
func (r *vfRecKA) Decrypt(rd io.Reader, msg []byte, opts crypto.DecrypterOpts) ([]byte, error) {
	return r.PrivateKey.Decrypt(rd, msg, opts)
}
func (r *vfRecKA) GenerateAgreementData(id []byte, n int) (*ecdh.PublicKey, *ecdh.PublicKey, error) {
	return r.ke.GenerateAgreementData(id, n)
}
func (r *vfRecKA) GenerateKey(id []byte, a, b *ecdh.PublicKey) ([]byte, error) {
	k, err := r.ke.GenerateKey(id, a, b)
	if err == nil {
		r.pre = append(r.pre, append([]byte(nil), k...))
	}
	return k, err
}
func (r *vfRecKA) GenerateAgreementDataAndKey(a, b []byte, c, d *ecdh.PublicKey, n int) (*ecdh.PublicKey, []byte, error) {
	return r.ke.GenerateAgreementDataAndKey(a, b, c, d, n)
}

type c04Case struct {
	Suite      uint16 `json:"suite"`
	Resumed    bool   `json:"resumed"`
	ClientAuth bool   `json:"auth"`
	RecordKA   bool   `json:"recka"`
	Up         []int  `json:"up"`   // sizes of the client's writes
	Down       []int  `json:"down"` // sizes of the server's writes
	// ShortRand: both configurations draw their randomness from a reader that hands out one byte per
	// Read call (legal for an io.Reader)
	ShortRand bool `json:"shortrand,omitempty"`
	// EmptyMsg: (datagram stack) an empty datagram is sent in front of every application write
	EmptyMsg bool `json:"emptymsg,omitempty"`
	// PtrCache: both sides keep sessions in an application-supplied cache that stores the object it is handed
	PtrCache bool `json:"ptrcache,omitempty"`
	// Twice (with Resumed): the session is resumed a second time (three connections)
	Twice bool `json:"twice,omitempty"`
}

type c04Conv struct {
	master []byte // master secret established by this conversation (for a later resumption)
	sid    []byte
}

const (
	hsClientHello       = 1
	hsServerHello       = 2
	hsHelloVerify       = 3
	hsCertificate       = 11
	hsServerKeyExchange = 12
	hsCertRequest       = 13
	hsServerHelloDone   = 14
	hsCertVerify        = 15
	hsClientKeyExchange = 16
	hsFinished          = 20
)

// c04Hello extracts random and session id from a ClientHello / ServerHello body.
func c04Hello(body []byte) (random, sid []byte, rest []byte, ok bool) {
	if len(body) < 2+32+1 {
		return nil, nil, nil, false
	}
	random = body[2:34]
	n := int(body[34])
	if len(body) < 35+n {
		return nil, nil, nil, false
	}
	return random, body[35 : 35+n], body[35+n:], true
}

// c04Analyze checks one tapped conversation against the reference derivation.
// prevMaster: master secret of the original session when this conversation is a resumption.
type c04Opt struct {
	SkipApp bool // do not compare application bytes (tampered conversations)
	CHBack  int  // use the n-th ClientHello counted from the last one (0 = last)
}

func c04Analyze(r *vfPair, c c04Case, resumed bool, prev *c04Conv, ccache, scache *vfCapCache, encKey *sm2.PrivateKey, recka *vfRecKA, up, down []byte, opts ...c04Opt) (conv *c04Conv, sig, msg string) {
	var opt c04Opt
	if len(opts) > 0 {
		opt = opts[0]
	}
	crecs, srecs := vfRecordsOf(r, 0), vfRecordsOf(r, 1)
	cmsgs, smsgs := vfPlainHandshake(crecs), vfPlainHandshake(srecs)
	// --- hellos
	var ch, sh *vfHSMsg
	var chs []*vfHSMsg
	for i := range cmsgs {
		if cmsgs[i].Typ == hsClientHello {
			chs = append(chs, &cmsgs[i])
		}
	}
	if len(chs) > opt.CHBack {
		ch = chs[len(chs)-1-opt.CHBack] // by default the last ClientHello (DTLCP: the one carrying the cookie)
	}
	for i := range smsgs {
		if smsgs[i].Typ == hsServerHello && sh == nil {
			sh = &smsgs[i]
		}
	}
	if ch == nil || sh == nil {
		return nil, "ref-parse", "could not find ClientHello/ServerHello on the wire"
	}
	cr, _, _, ok1 := c04Hello(ch.Body)
	sr, sid, rest, ok2 := c04Hello(sh.Body)
	if !ok1 || !ok2 || len(rest) < 2 {
		return nil, "ref-parse", "hello too short"
	}
	suite := uint16(rest[0])<<8 | uint16(rest[1])
	if suite != c.Suite {
		return nil, "suite-wire", fmt.Sprintf("ServerHello carries suite %x, configured only %x", suite, c.Suite)
	}
	gcm := vfIsGCM(suite)
	// --- transcript in protocol order
	var transcript []byte
	transcript = append(transcript, ch.Raw...)
	transcript = append(transcript, sh.Raw...)
	var master []byte
	if !resumed {
		var cke *vfHSMsg
		for i := range smsgs {
			m := &smsgs[i]
			if m.Typ == hsServerHello || m.Typ == hsHelloVerify {
				continue
			}
			transcript = append(transcript, m.Raw...)
		}
		for i := range cmsgs {
			m := &cmsgs[i]
			if m.Typ == hsClientHello {
				continue
			}
			transcript = append(transcript, m.Raw...)
			if m.Typ == hsClientKeyExchange {
				cke = m
			}
		}
		if cke == nil {
			return nil, "ref-parse", "no ClientKeyExchange on the wire"
		}
		var pre []byte
		if !vfIsECDHE(suite) {
			if len(cke.Body) < 2 || int(cke.Body[0])<<8|int(cke.Body[1]) != len(cke.Body)-2 {
				return nil, "cke-format", fmt.Sprintf("ClientKeyExchange is not a 2-byte length followed by the ciphertext (%d bytes)", len(cke.Body))
			}
			var err error
			pre, err = encKey.Decrypt(nil, cke.Body[2:], sm2.ASN1DecrypterOpts)
			if err != nil {
				return nil, "cke-decrypt", "ClientKeyExchange does not decrypt under the server's encryption key: " + err.Error()
			}
			if len(pre) != 48 || pre[0] != 0x01 || pre[1] != 0x01 {
				return nil, "premaster-format", fmt.Sprintf("pre-master secret is %d bytes starting %x, want 48 bytes starting 0101", len(pre), pre[:2])
			}
		} else if recka != nil && len(recka.pre) > 0 {
			pre = recka.pre[len(recka.pre)-1]
			if len(pre) != 48 {
				return nil, "premaster-format", fmt.Sprintf("ECDHE pre-master secret is %d bytes, want 48", len(pre))
			}
		}
		cm, sm := ccache.masterFor(sid), scache.masterFor(sid)
		if cm == nil || sm == nil {
			return nil, "session-missing", "no session with the ServerHello's identifier was stored by client/server"
		}
		if !bytes.Equal(cm, sm) {
			return nil, "master-disagree", "client and server cached different master secrets"
		}
		if pre != nil {
			master = refMaster(pre, cr, sr)
			if !bytes.Equal(master, cm) {
				return nil, "master-derivation", "master secret in the caches is not PRF(pre_master, \"master secret\", client_random||server_random)"
			}
		} else {
			master = append([]byte(nil), cm...)
		}
		if len(sid) != 32 {
			return nil, "session-id-len", fmt.Sprintf("new session identifier has %d bytes", len(sid))
		}
	} else {
		if prev == nil {
			return nil, "ref-parse", "resumed conversation without an original"
		}
		master = prev.master
		if !bytes.Equal(sid, prev.sid) {
			return nil, "resume-sid", "resumed ServerHello does not echo the original session identifier"
		}
	}
	keys := refKeyBlock(master, cr, sr, gcm)
	// --- protected records
	type dirState struct {
		recs   []vfWRec
		client bool
		app    []byte
		hs     []byte
		fin    []byte
		n      int
	}
	dirs := []*dirState{{recs: crecs, client: true}, {recs: srecs, client: false}}
	for _, d := range dirs {
		key, iv, mac := keys.dir(d.client)
		okey, oiv, omac := keys.dir(!d.client)
		seenExplicit := map[string]bool{}
		seenSeq := map[string]bool{}
		var lastExplicit []byte
		seenRaw := map[string]bool{}
		who := "server"
		if d.client {
			who = "client"
		}
		for _, rec := range d.recs {
			if rec.Epoch == 0 {
				continue
			}
			if seenRaw[string(rec.Raw)] {
				continue // identical retransmission of a datagram (DTLCP)
			}
			seenRaw[string(rec.Raw)] = true
			if rec.Epoch != 1 {
				return nil, "epoch", fmt.Sprintf("%s record in epoch %d", who, rec.Epoch)
			}
			pt, err := refOpen(gcm, key, iv, mac, vfSeqInput(rec), rec.Typ, rec.Ver, rec.Frag)
			if err != nil {
				return nil, "record-open", fmt.Sprintf("%s record (type %d, seq %d, %d bytes) does not open under the %s write key with seq/type/version/length authenticated: %v", who, rec.Typ, rec.Seq, len(rec.Frag), who, err)
			}
			if _, err := refOpen(gcm, okey, oiv, omac, vfSeqInput(rec), rec.Typ, rec.Ver, rec.Frag); err == nil {
				return nil, "record-wrong-direction", fmt.Sprintf("%s record opens under the opposite direction's key", who)
			}
			if rec.Ver != [2]byte{1, 1} {
				return nil, "record-version", fmt.Sprintf("%s record version %x", who, rec.Ver)
			}
			if len(pt) > 16384 {
				return nil, "record-plaintext-size", fmt.Sprintf("%s record carries %d plaintext bytes", who, len(pt))
			}
			en := 16
			if gcm {
				en = 8
			}
			ex := string(rec.Frag[:en])
			if seenExplicit[ex] {
				return nil, "nonce-repeat", fmt.Sprintf("%s reused the explicit nonce/IV %x under one key", who, rec.Frag[:en])
			}
			seenExplicit[ex] = true
			if vfStack == "dtlcp" {
				sk := fmt.Sprintf("%d/%d", rec.Epoch, rec.Seq)
				if seenSeq[sk] {
					return nil, "sequence-number-repeat", fmt.Sprintf("%s sent two protected records with epoch %d sequence number %d", who, rec.Epoch, rec.Seq)
				}
				seenSeq[sk] = true
			}
			if gcm {
				if lastExplicit != nil && bytes.Compare(rec.Frag[:en], lastExplicit) <= 0 {
					return nil, "nonce-order", fmt.Sprintf("%s GCM explicit nonce not strictly increasing: %x after %x", who, rec.Frag[:en], lastExplicit)
				}
				lastExplicit = append([]byte(nil), rec.Frag[:en]...)
			}
			d.n++
			switch rec.Typ {
			case 22:
				// a protected handshake message may span several records (tiny path MTU): collect first
				d.hs = append(d.hs, pt...)
			case 23:
				d.app = append(d.app, pt...)
			case 21:
			default:
				return nil, "record-type", fmt.Sprintf("%s protected record of type %d", who, rec.Typ)
			}
		}
		for _, m := range vfHSMessages(d.hs) {
			if m.Typ == hsFinished {
				d.fin = m.Raw
			}
		}
		if d.fin == nil {
			return nil, "finished-missing", who + " Finished not found among its protected records"
		}
	}
	cfin, sfin := dirs[0].fin, dirs[1].fin
	var wantC, wantS []byte
	if !resumed {
		wantC = refFinished(master, true, transcript)
		wantS = refFinished(master, false, append(append([]byte(nil), transcript...), cfin...))
	} else {
		wantS = refFinished(master, false, transcript)
		wantC = refFinished(master, true, append(append([]byte(nil), transcript...), sfin...))
	}
	if !bytes.Equal(cfin[vfHSHdrLen:], wantC) {
		return nil, "finished-client", fmt.Sprintf("client Finished %x is not PRF(master, \"client finished\", SM3(transcript)) = %x", cfin[vfHSHdrLen:], wantC)
	}
	if !bytes.Equal(sfin[vfHSHdrLen:], wantS) {
		return nil, "finished-server", fmt.Sprintf("server Finished %x is not PRF(master, \"server finished\", SM3(transcript)) = %x", sfin[vfHSHdrLen:], wantS)
	}
	// the library's own record of the Finished values must agree with the wire
	if !resumed {
		if !bytes.Equal(r.CFin[0][:], wantC) || !bytes.Equal(r.SFin[0][:], wantC) {
			return nil, "finished-stored", "clientFinished stored by the endpoints differs from the wire"
		}
	}
	if opt.SkipApp {
		return &c04Conv{master: master, sid: append([]byte(nil), sid...)}, "", ""
	}
	if !bytes.Equal(dirs[0].app, up) {
		return nil, "app-up", fmt.Sprintf("decrypted client->server application bytes (%d) differ from what was written (%d)", len(dirs[0].app), len(up))
	}
	if !bytes.Equal(dirs[1].app, down) {
		return nil, "app-down", fmt.Sprintf("decrypted server->client application bytes (%d) differ from what was written (%d)", len(dirs[1].app), len(down))
	}
	return &c04Conv{master: master, sid: append([]byte(nil), sid...)}, "", ""
}

func c04Run(c c04Case) (sig, msg string, nontrivial bool) {
	p := vfGetPKI()
	ccfg, scfg := vfBaseConfigs(c.Suite, c.ClientAuth)
	cc, sc := vfNewCapCache(8), vfNewCapCache(8)
	if c.PtrCache {
		cc, sc = vfNewCapCachePtr(), vfNewCapCachePtr()
	}
	ccfg.SessionCache, scfg.SessionCache = cc, sc
	if c.ShortRand {
		ccfg.Rand, scfg.Rand = iotest.OneByteReader(rand.Reader), iotest.OneByteReader(rand.Reader)
	}
	encKey := p.SrvEnc.PrivateKey.(*sm2.PrivateKey)
	var recka *vfRecKA
	if c.RecordKA && vfIsECDHE(c.Suite) {
		recka = vfNewRecKA(encKey)
		enc := p.SrvEnc
		enc.PrivateKey = recka
		scfg.Certificates = []Certificate{p.SrvSig, enc}
	}
	nconn := 1
	if c.Resumed {
		nconn = 2
		if c.Twice {
			nconn = 3
		}
	}
	var prev *c04Conv
	for conn := 0; conn < nconn; conn++ {
		var up, down []byte
		for i, n := range c.Up {
			up = append(up, c01Payload(n, byte(i+conn))...)
		}
		for i, n := range c.Down {
			down = append(down, c01Payload(n, byte(i+50+conn))...)
		}
		r := vfRunPair(ccfg, scfg, vfPairOpt{
			CliAct: func(cn *Conn) error {
				off := 0
				for _, n := range c.Up {
					if c.EmptyMsg {
						if err := c04SendEmpty(cn); err != nil {
							return err
						}
					}
					if err := vfSendAll(cn, up[off:off+n]); err != nil {
						return err
					}
					off += n
				}
				_, err := vfRecvN(cn, len(down))
				return err
			},
			SrvAct: func(cn *Conn) error {
				if _, err := vfRecvN(cn, len(up)); err != nil {
					return err
				}
				off := 0
				for _, n := range c.Down {
					if c.EmptyMsg {
						if err := c04SendEmpty(cn); err != nil {
							return err
						}
					}
					if err := vfSendAll(cn, down[off:off+n]); err != nil {
						return err
					}
					off += n
				}
				return nil
			},
		})
		if r.CPanic != "" || r.SPanic != "" {
			return "panic", r.CPanic + r.SPanic, false
		}
		if r.CErr != nil || r.SErr != nil || r.CAct != nil || r.SAct != nil || r.Stalled {
			// the handshake flights as they were on the wire, so that a failure can be examined offline
			wire := ""
			if r.CErr != nil || r.SErr != nil {
				a, b := vfWireHex(r, 0), vfWireHex(r, 1)
				wire = fmt.Sprintf(" | client->server: %s | server->client: %s", a, b)
			}
			return "honest-failed", fmt.Sprintf("connection %d: honest conversation failed: %v %v %v %v stalled=%v%s", conn, r.CErr, r.SErr, r.CAct, r.SAct, r.Stalled, wire), false
		}
		resumed := conn >= 1
		if r.CS.DidResume != resumed {
			return "resume-flag", fmt.Sprintf("connection %d: DidResume=%v", conn, r.CS.DidResume), false
		}
		conv, sig, msg := c04Analyze(r, c, resumed, prev, cc, sc, encKey, recka, up, down)
		if sig != "" {
			return sig, fmt.Sprintf("connection %d: %s", conn, msg), false
		}
		prev = conv
	}
	return "", "", len(c.Up) > 0 && len(c.Down) > 0
}

func TestVF_C04(t *testing.T) {
	rec := vfRec("C04", "C04-keyschedule", "suite x full / resumed / resumed twice x built-in or application-supplied (object-keeping) session caches x client auth x (ECDHE: recorded pre-master or not) x per-direction lists of write sizes (0..40000 on the stream stack, 0..5000 on the datagram stack; sometimes 257..700 records in one direction) x randomness source that returns one byte per Read x (datagram stack) empty datagrams in front of the writes; oracle: independent PRF/key-block/record-protection derivation must reproduce the tapped conversation; non-trivial = completed with at least one protected application record in each direction; distinct = hash of the case")
	maxSz := 40000
	if vfStack == "dtlcp" {
		maxSz = 5000
	}
	sizeGen := rapid.OneOf(rapid.IntRange(1, 64), rapid.IntRange(1, maxSz), rapid.SampledFrom([]int{1, 15, 16, 17, 1000, maxSz}))
	vfRapid(t, rec, "conversations", vfN(240, 6000), func(t *rapid.T) {
		c := c04Case{Suite: rapid.SampledFrom(vfSuites).Draw(t, "suite"), Resumed: rapid.Bool().Draw(t, "resumed"),
			ClientAuth: rapid.Bool().Draw(t, "auth"), RecordKA: rapid.Bool().Draw(t, "recka"),
			PtrCache: rapid.IntRange(0, 3).Draw(t, "ptrcache") == 0, Twice: rapid.Bool().Draw(t, "twice"),
			ShortRand: rapid.IntRange(0, 4).Draw(t, "shortrand") == 0, EmptyMsg: vfStack == "dtlcp" && rapid.IntRange(0, 3).Draw(t, "emptymsg") == 0,
			Up: rapid.SliceOfN(sizeGen, 1, 4).Draw(t, "up"), Down: rapid.SliceOfN(sizeGen, 1, 4).Draw(t, "down")}
		// one case in eight sends more than 256 (and more than 65536/… is out of reach) records in one
		// direction, so that the sequence number's carry into the second byte is exercised
		if rapid.IntRange(0, 7).Draw(t, "many") == 0 {
			n := rapid.IntRange(257, 700).Draw(t, "nmany")
			many := make([]int, n)
			for i := range many {
				many[i] = 1 + i%3
			}
			if rapid.Bool().Draw(t, "manydir") {
				c.Up = append(c.Up, many...)
			} else {
				c.Down = append(c.Down, many...)
			}
		}
		sig, msg, nt := c04Run(c)
		if sig != "" {
			rec.Fail(t, sig, c, "%s", msg)
		}
		mode := "full"
		if c.Resumed {
			mode = "resumed"
		}
		if len(c.Up) > 256 || len(c.Down) > 256 {
			mode += "+more-than-256-records"
		}
		sample := c
		if len(sample.Up) > 8 {
			sample.Up = append(append([]int(nil), sample.Up[:8]...), -len(c.Up))
		}
		if len(sample.Down) > 8 {
			sample.Down = append(append([]int(nil), sample.Down[:8]...), -len(c.Down))
		}
		rec.EvalHash(nt, vfHash(c), func() interface{} { return sample }, fmt.Sprintf("suite:%04x", c.Suite), mode)
	})
}

func init() {
	vfRegisterReplay("C04-keyschedule", func(raw json.RawMessage) error {
		var c c04Case
		if err := json.Unmarshal(raw, &c); err != nil {
			return err
		}
		if sig, msg, _ := c04Run(c); sig != "" {
			return fmt.Errorf("%s: %s", sig, msg)
		}
		return nil
	})
}

// vfWireHex: the records one side wrote, in hex (at most 4000 bytes of them), for failure reports.
func vfWireHex(r *vfPair, dir int) string {
	var all []byte
	for _, rec := range vfRecordsOf(r, dir) {
		all = append(all, rec.Raw...)
		if len(all) > 4000 {
			break
		}
	}
	return fmt.Sprintf("%x", all)
}
