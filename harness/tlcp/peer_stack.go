//go:build verif

package tlcp

// Stream-stack hooks of the scripted peers and the runner "endpoint under test vs peer".

import (
	"context"
	"fmt"
	"sync"
	"time"
)

type vfRaw struct {
	typ  uint8
	body []byte
}

func (m *vfRaw) marshal() ([]byte, error) {
	x := []byte{m.typ, byte(len(m.body) >> 16), byte(len(m.body) >> 8), byte(len(m.body))}
	return append(x, m.body...), nil
}
func (m *vfRaw) unmarshal([]byte) bool { return false }
func (m *vfRaw) messageType() uint8    { return m.typ }
func (m *vfRaw) debug()                {}

func vfRawMsg(c *Conn, typ uint8, body []byte) handshakeMessage { return &vfRaw{typ, body} }
func vfPeerSeq(c *Conn, m handshakeMessage)                    {}

func vfPeerReadClientHello(c *Conn) (*clientHelloMsg, error) {
	return c.readClientHello(context.Background())
}

func vfPeerHelloExchange(c *Conn, hello *clientHelloMsg, mut func([]byte) []byte) (*serverHelloMsg, error) {
	var m handshakeMessage = hello
	if mut != nil {
		data, err := hello.marshal()
		if err != nil {
			return nil, err
		}
		raw := &vfRaw{typeClientHello, mut(append([]byte(nil), data[4:]...))}
		hello.raw, _ = raw.marshal() // the peer's transcript must contain what it actually sent
		m = raw
	}
	if _, err := c.writeHandshakeRecord(m, nil); err != nil {
		return nil, err
	}
	msg, err := c.readHandshake(nil)
	if err != nil {
		return nil, err
	}
	sh, ok := msg.(*serverHelloMsg)
	if !ok {
		return nil, fmt.Errorf("peer: expected ServerHello, got %T", msg)
	}
	return sh, nil
}

func vfPeerReadApp(c *Conn) ([]byte, error) {
	for c.input.Len() == 0 {
		// the peer's handshake-complete flag is not set; read records directly
		if err := vfPeerReadRecord(c); err != nil {
			return nil, err
		}
	}
	b := make([]byte, c.input.Len())
	c.input.Read(b)
	return b, nil
}

// vfPeerReadRecord reads one record on a peer connection that has finished its scripted handshake.
func vfPeerReadRecord(c *Conn) error {
	c.handshakeStatus = 1
	return c.readRecord()
}

type vfVsPeer struct {
	UErr           error  // Handshake result of the endpoint under test
	UAct           error  // result of the post-handshake action of the endpoint under test
	PErr           error  // result of the peer script
	UPanic, PPanic string
	Stalled        bool
	UHung          bool // the endpoint under test was still blocked when the simulation stalled
	Watchdog       bool // the run did not end within the (generous) wall-clock budget and was torn down
	U              *Conn
	UState         ConnectionState
	Sim            *vfStream
}

// vfRunVsPeer runs an unmodified endpoint (client if underTestIsClient) against a scripted peer.
// ucfg configures the endpoint under test, pcfg the library Conn the peer drives.
// uact runs on the endpoint under test whatever its Handshake returned.
func vfRunVsPeer(underTestIsClient bool, ucfg, pcfg *Config, peer func(pc *Conn) error, uact func(c *Conn, hsErr error) error) *vfVsPeer {
	sim := vfNewStream()
	var u, pc *Conn
	ui, pi := 0, 1
	if underTestIsClient {
		u, pc = Client(sim.ends[0], ucfg), Server(sim.ends[1], pcfg)
	} else {
		ui, pi = 1, 0
		u, pc = Server(sim.ends[1], ucfg), Client(sim.ends[0], pcfg)
	}
	r := &vfVsPeer{U: u, Sim: sim}
	var wg sync.WaitGroup
	sim.drive(ui, &wg, func() {
		r.UPanic = vfRecover(func() {
			r.UErr = u.Handshake()
			if uact != nil {
				r.UAct = uact(u, r.UErr)
			}
			if r.UErr != nil {
				sim.ends[ui].Close()
			}
		})
		if r.UPanic != "" {
			sim.ends[ui].Close()
		}
	})
	sim.drive(pi, &wg, func() {
		r.PPanic = vfRecover(func() {
			r.PErr = peer(pc)
			if r.PErr != nil {
				sim.ends[pi].Close()
			}
		})
		if r.PPanic != "" {
			sim.ends[pi].Close()
		}
	})
	wd := time.AfterFunc(30*time.Second, func() {
		r.Watchdog = true
		sim.ends[0].Close()
		sim.ends[1].Close()
	})
	sim.watch()
	wg.Wait()
	wd.Stop()
	r.Stalled = sim.stalled
	r.UHung = sim.stalled && sim.stallActive[ui]
	r.UState = u.ConnectionState()
	return r
}

// vfPeerPending waits until the endpoint under test has processed everything the peer sent and
// reports whether it has written something the peer has not read yet.
func vfPeerPending(pc *Conn) bool {
	if pc.rawInput.Len() > 0 || pc.hand.Len() > 0 {
		return true
	}
	e := pc.conn.(*vfStreamEnd)
	return e.s.settle(e.idx)
}

func vfPeerTuneConfig(cfg *Config) {}

// vfConnBuffered: bytes the connection currently buffers on behalf of the peer.
func vfConnBuffered(c *Conn) int { return c.hand.Len() + c.rawInput.Len() }

const vfConnBufBound = (65536 + 4) + 2*(16384+2048+5) + 65536

// vfPeerWriteOne writes exactly one record, also for an empty payload.
func vfPeerWriteOne(c *Conn, typ recordType, data []byte) error {
	c.out.Lock()
	defer c.out.Unlock()
	outBuf := make([]byte, recordHeaderLen, recordHeaderLen+len(data)+128)
	vers := c.vers
	if vers == 0 {
		vers = VersionTLCP
	}
	outBuf[0], outBuf[1], outBuf[2] = byte(typ), byte(vers>>8), byte(vers)
	outBuf[3], outBuf[4] = byte(len(data)>>8), byte(len(data))
	outBuf, err := c.out.encrypt(outBuf, data, c.config.rand())
	if err != nil {
		return err
	}
	if _, err := c.write(outBuf); err != nil {
		return err
	}
	_, err = c.flush()
	return err
}
