//go:build verif

package dtlcp

// C15b: "larger writes through Write are split and arrive complete and in order when nothing is lost",
// with a transport that refuses single datagrams (a write timeout: the datagram is not sent, the call
// says so). The sending application continues from the count each call reported and retries after a
// temporary error; what the receiver gets must be exactly the bytes the calls acknowledged, in order.

import (
	"bytes"
	"encoding/json"
	"fmt"
	"net"
	"testing"
	"time"

	"pgregory.net/rapid"
)

type c15RefCase struct {
	Suite  uint16    `json:"suite"`
	PMTU   int       `json:"pmtu"`
	Dir    int       `json:"dir"` // 0: client sends
	Sends  []c15Send `json:"sends"`
	Refuse []int     `json:"refuse"` // ordinals (0-based) of the sender's application datagrams the transport refuses
}

func c15RefRun(c c15RefCase) (sig, msg string) {
	ccfg, scfg := vfBaseConfigs(c.Suite, false)
	ccfg.PMTU, scfg.PMTU = c.PMTU, c.PMTU
	var acked, received []byte
	var calls []string
	refused := 0
	send := func(cn *Conn) error {
		e := cn.pconn.(*vfDEnd)
		e.s.mu.Lock()
		e.s.refuse[c.Dir] = map[int]bool{}
		for _, k := range c.Refuse {
			e.s.refuse[c.Dir][e.nsent+k] = true
		}
		e.s.mu.Unlock()
		for i, s := range c.Sends {
			p := c01Payload(s.Size, byte(i+1))
			off, tries := 0, 0
			for {
				var n int
				var err error
				if s.WriteTo {
					n, err = cn.WriteTo(p[off:], cn.RemoteAddr())
				} else {
					n, err = cn.Write(p[off:])
				}
				calls = append(calls, fmt.Sprintf("send %d off %d: (%d, %v)", i, off, n, err))
				if n < 0 || n > len(p)-off {
					sig, msg = "write-count", fmt.Sprintf("a write of %d bytes reported %d written", len(p)-off, n)
					return nil
				}
				if err == nil && n != len(p)-off {
					sig, msg = "write-count", fmt.Sprintf("a write of %d bytes reported %d written and no error", len(p)-off, n)
					return nil
				}
				acked = append(acked, p[off:off+n]...)
				off += n
				if err == nil {
					break
				}
				refused++
				ne, ok := err.(net.Error)
				if !ok || !ne.Timeout() || tries >= 3 {
					return nil // the connection is finished for writing
				}
				tries++
				if s.WriteTo && off > 0 {
					break // a datagram is not continued
				}
			}
		}
		return nil
	}
	rcv := func(cn *Conn) error {
		buf := make([]byte, 20000)
		for {
			cn.SetReadDeadline(time.Now().Add(3 * time.Second))
			n, err := cn.Read(buf)
			received = append(received, buf[:n]...)
			if err != nil {
				return nil
			}
		}
	}
	opt := vfPairOpt{}
	if c.Dir == 0 {
		opt.CliAct, opt.SrvAct = send, rcv
	} else {
		opt.CliAct, opt.SrvAct = rcv, send
	}
	r := vfRunPair(ccfg, scfg, opt)
	if r.CPanic != "" || r.SPanic != "" {
		return "panic", r.CPanic + r.SPanic
	}
	if r.CErr != nil || r.SErr != nil {
		return "honest-failed", fmt.Sprintf("handshake failed: %v / %v (%v)", r.CErr, r.SErr, r.RunErr)
	}
	if sig != "" {
		return sig, msg
	}
	if !bytes.Equal(acked, received) {
		i := 0
		for i < len(acked) && i < len(received) && acked[i] == received[i] {
			i++
		}
		return "acknowledged-differs-from-received", fmt.Sprintf("the write calls acknowledged %d bytes, the peer received %d (first difference at %d) although the network lost nothing (the transport refused %d datagrams and said so); calls: %v", len(acked), len(received), i, refused, calls)
	}
	return "", ""
}

func TestVF_C15_Refused(t *testing.T) {
	rec := vfRec("C15", "C15b-write-refused", "suite x path MTU x sends (Write up to 6000 bytes, WriteTo up to the maximum payload) x ordinals of application datagrams the transport refuses with a write timeout (not sent); the sender continues from each reported count and retries after a temporary error; oracle: the bytes the peer receives are exactly the bytes the calls acknowledged, in order, and no call reports more than it was given; non-trivial = a refused datagram inside a split Write; distinct = the case")
	vfRapid(t, rec, "random", vfN(40, 800), func(t *rapid.T) {
		suite := rapid.SampledFrom(vfSuites).Draw(t, "suite")
		min := c15Smallest(suite)
		c := c15RefCase{Suite: suite, Dir: rapid.IntRange(0, 1).Draw(t, "dir"),
			PMTU: rapid.OneOf(rapid.IntRange(min, 300), rapid.IntRange(min, 2000), rapid.Just(0)).Draw(t, "pmtu")}
		max := c15MaxPayload(suite, c.PMTU)
		n := rapid.IntRange(1, 4).Draw(t, "nsends")
		total := 0
		for i := 0; i < n; i++ {
			s := c15Send{WriteTo: rapid.IntRange(0, 3).Draw(t, "writeto") == 0}
			if s.WriteTo {
				s.Size = rapid.IntRange(0, max).Draw(t, "size")
				total++
			} else {
				s.Size = rapid.OneOf(rapid.IntRange(1, max), rapid.IntRange(max+1, 4*max+5), rapid.IntRange(1, 6000)).Draw(t, "size")
				total += (s.Size + max - 1) / max
			}
			c.Sends = append(c.Sends, s)
		}
		if total > 60 {
			t.Skip("too many datagrams")
		}
		nr := rapid.IntRange(1, 2).Draw(t, "nrefuse")
		for i := 0; i < nr; i++ {
			c.Refuse = append(c.Refuse, rapid.IntRange(0, total).Draw(t, "refuse"))
		}
		sig, msg := c15RefRun(c)
		if sig != "" {
			rec.Fail(t, sig, c, "%s", msg)
		}
		inside := false
		for _, s := range c.Sends {
			inside = inside || (!s.WriteTo && s.Size > max)
		}
		rec.Eval(inside, c, fmt.Sprintf("split:%v", inside))
	})
}

func init() {
	vfRegisterReplay("C15b-write-refused", func(raw json.RawMessage) error {
		var c c15RefCase
		if err := json.Unmarshal(raw, &c); err != nil {
			return err
		}
		if sig, msg := c15RefRun(c); sig != "" {
			return fmt.Errorf("%s: %s", sig, msg)
		}
		return nil
	})
}
