//go:build verif

package dtlcp

// C18: a DTLCP server commits and amplifies nothing before a valid cookie returns.
// A scripted client sends hellos of generated shape from chosen source addresses; the server's
// private keys are counting wrappers supplied through the public Config.

import (
	"testing/iotest"
	"github.com/emmansun/gmsm/sm3"
	"crypto/hmac"
	"time"
	"bytes"
	"crypto"
	"crypto/rand"
	"encoding/json"
	"fmt"
	"io"
	"sync/atomic"
	"testing"

	"github.com/emmansun/gmsm/ecdh"
	"github.com/emmansun/gmsm/sm2"
	"pgregory.net/rapid"
)

// vfCountKey wraps an SM2 private key and counts every private-key operation.
type vfCountKey struct {
	*sm2.PrivateKey
	ke    SM2KeyAgreement
	count *int64
}

func vfNewCountKey(k *sm2.PrivateKey, n *int64) *vfCountKey {
	ek, _ := k.ECDH()
	return &vfCountKey{PrivateKey: k, ke: newSM2KeyKE(rand.Reader, ek), count: n}
}
func (c *vfCountKey) Public() crypto.PublicKey { return c.PrivateKey.Public() }
func (c *vfCountKey) Sign(r io.Reader, d []byte, o crypto.SignerOpts) ([]byte, error) {
	atomic.AddInt64(c.count, 1)
	return c.PrivateKey.Sign(r, d, o)
}
func (c *vfCountKey) Decrypt(r io.Reader, m []byte, o crypto.DecrypterOpts) ([]byte, error) {
	atomic.AddInt64(c.count, 1)
	return c.PrivateKey.Decrypt(r, m, o)
}
func (c *vfCountKey) GenerateAgreementData(id []byte, n int) (*ecdh.PublicKey, *ecdh.PublicKey, error) {
	atomic.AddInt64(c.count, 1)
	return c.ke.GenerateAgreementData(id, n)
}
func (c *vfCountKey) GenerateKey(id []byte, a, b *ecdh.PublicKey) ([]byte, error) {
	atomic.AddInt64(c.count, 1)
	return c.ke.GenerateKey(id, a, b)
}
func (c *vfCountKey) GenerateAgreementDataAndKey(a, b []byte, x, y *ecdh.PublicKey, n int) (*ecdh.PublicKey, []byte, error) {
	atomic.AddInt64(c.count, 1)
	return c.ke.GenerateAgreementDataAndKey(a, b, x, y, n)
}

// vfPeerClientAddr overrides the client-side address of the next vfRunVsPeer simulation.
var vfPeerClientAddr string

type c18Hello struct {
	Vers    uint16   `json:"vers"`
	Random  []byte   `json:"random"`
	SID     []byte   `json:"sid"`
	Suites  []uint16 `json:"suites"`
	Comp    []byte   `json:"comp"`
	// how the cookie of this hello is produced
	Cookie  string `json:"cookie"` // "none", "echo" (the cookie just received), "flip" (echo with one byte changed), "prev" (a cookie received for an earlier hello / connection), "random", "trunc" (the first FlipPos%31+1 bytes of the cookie just received), "byte" (the one-byte cookie FlipPos), "extend" (the cookie just received plus one byte)
	// SIDEst: the hello carries the session identifier of a session this server has in its cache
	// (the case is primed with one completed handshake)
	SIDEst bool `json:"sid_est,omitempty"`
	// Silent: after this hello has been answered with a HelloVerifyRequest the client says nothing for
	// 64 s (four of the server's retransmission timeouts); nothing further may arrive (ends the connection)
	Silent bool `json:"silent,omitempty"`
	FlipPos int    `json:"flippos"`
	FlipMask byte  `json:"flipmask"`
}

type c18Conn struct {
	Addr   string     `json:"addr"`
	Secret int        `json:"secret"` // 0: none configured, 1: secret A, 2: secret B, 3: the rotating secret (one buffer whose content is overwritten in place), 4: an empty non-nil slice (= none configured)
	Rotate bool       `json:"rotate"` // before this connection the rotating secret's buffer is overwritten in place with new content
	// NilAddr: the server connection is created without a peer address and learns it from the first datagram
	NilAddr bool `json:"niladdr,omitempty"`
	// Tenant: the listener configuration carries no secret and a GetConfigForClient callback that returns
	// one Config object shared by all such connections of the case with the same Secret; that object
	// carries the secret (or none: every connection still draws its own)
	Tenant bool `json:"tenant,omitempty"`
	// ShortRand: the server's Config.Rand hands out one byte per Read
	ShortRand bool `json:"shortrand,omitempty"`
	Hellos []c18Hello `json:"hellos"`
}

type c18Case struct {
	Suite uint16    `json:"suite"`
	Prime bool      `json:"prime,omitempty"` // one honest handshake first; all connections share the server's session cache
	Conns []c18Conn `json:"conns"`
}

var c18Secrets = [][]byte{nil, bytes.Repeat([]byte{0xA1}, 32), bytes.Repeat([]byte{0xB2}, 32)}

func c18Params(h c18Hello) []byte {
	b := []byte{byte(h.Vers >> 8), byte(h.Vers)}
	b = append(b, h.Random...)
	b = append(b, byte(len(h.SID)))
	b = append(b, h.SID...)
	b = append(b, byte(len(h.Suites)>>7), byte(len(h.Suites)*2))
	for _, s := range h.Suites {
		b = append(b, byte(s>>8), byte(s))
	}
	b = append(b, byte(len(h.Comp)))
	b = append(b, h.Comp...)
	return b
}

// c18Run plays the connections in order. issued[(secret, addr||params)] remembers which cookies were
// issued for what, so that the oracle knows when a presented cookie is valid in the property's sense.
func c18Run(c c18Case) (sig, msg string, nontrivial bool) {
	p := vfGetPKI()
	type issuedKey struct {
		secret int
		addr   string
		params string
	}
	issued := map[issuedKey][]byte{}
	var prevCookies [][]byte
	// the rotating secret: one buffer, new content in place on every rotation; logically a new secret each time
	rotating := bytes.Repeat([]byte{0xC3}, 32)
	generation := 0
	var srvCache SessionCache
	var estSID []byte
	if c.Prime {
		srvCache = NewLRUSessionCache(8)
		cliCache := NewLRUSessionCache(8)
		ccfg, scfg := vfBaseConfigs(c.Suite, false)
		ccfg.SessionCache, scfg.SessionCache = cliCache, srvCache
		r0 := vfRunPair(ccfg, scfg, vfPairOpt{})
		if r0.CErr != nil || r0.SErr != nil {
			return "honest-failed", fmt.Sprintf("priming handshake: %v / %v", r0.CErr, r0.SErr), false
		}
		if ss, ok := cliCache.Get(""); ok && ss != nil {
			estSID = append([]byte(nil), ss.sessionId...)
		}
		if len(estSID) == 0 {
			return "honest-failed", "priming handshake left no session", false
		}
	}
	tenants := map[int]*Config{}
	var tOps int64
	for ci, cn := range c.Conns {
		secretID := cn.Secret % 5
		secretBytes := [][]byte{nil, c18Secrets[1], c18Secrets[2], rotating, {}}[secretID]
		if secretID == 4 {
			secretID = 0 // an empty, non-nil secret is "no secret configured": every connection draws its own
		}
		if cn.Rotate {
			generation++
			for i := range rotating {
				rotating[i] = byte(0xC3 + generation*17 + i)
			}
		}
		if secretID == 3 {
			secretID = 100 + generation
		}
		var keyOps int64
		sigC, encC := p.SrvSig, p.SrvEnc
		sigC.PrivateKey = vfNewCountKey(p.SrvSig.PrivateKey.(*sm2.PrivateKey), &keyOps)
		encC.PrivateKey = vfNewCountKey(p.SrvEnc.PrivateKey.(*sm2.PrivateKey), &keyOps)
		ucfg := &Config{Time: vfTime, Certificates: []Certificate{sigC, encC}, CipherSuites: []uint16{c.Suite}, CookieSecret: secretBytes,
			ClientAuth: RequireAndVerifyClientCert, ClientCAs: p.A.pool, InitialRetransmitTimeout: 16e9, MaxRetransmitTimeout: 64e9, SessionCache: srvCache}
		if !vfIsECDHE(c.Suite) {
			ucfg.ClientAuth = NoClientCert
		}
		if cn.ShortRand {
			ucfg.Rand = iotest.OneByteReader(rand.Reader)
		}
		tOpsBase := atomic.LoadInt64(&tOps)
		if cn.Tenant {
			tn := tenants[cn.Secret%5]
			if tn == nil {
				tn = ucfg.Clone()
				tn.CookieSecret = secretBytes // the application's buffer itself (rotated in place)
				tsig, tenc := p.SrvSig, p.SrvEnc
				tsig.PrivateKey = vfNewCountKey(p.SrvSig.PrivateKey.(*sm2.PrivateKey), &tOps)
				tenc.PrivateKey = vfNewCountKey(p.SrvEnc.PrivateKey.(*sm2.PrivateKey), &tOps)
				tn.Certificates = []Certificate{tsig, tenc}
				tenants[cn.Secret%5] = tn
			}
			ucfg.CookieSecret = nil
			ucfg.GetConfigForClient = func(*ClientHelloInfo) (*Config, error) { return tn, nil }
		}
		pcfg := &Config{Time: vfTime, InsecureSkipVerify: true, CipherSuites: []uint16{c.Suite}, Certificates: []Certificate{p.CliSig, p.CliEnc}}
		vfPeerClientAddr = cn.Addr
		vfPeerServerNilAddr = cn.NilAddr
		var verr string
		var vsig string
		fail := func(s, f string, a ...interface{}) {
			if vsig == "" {
				vsig, verr = s, fmt.Sprintf("connection %d (%s, secret %d): ", ci, cn.Addr, cn.Secret)+fmt.Sprintf(f, a...)
			}
		}
		var connCookies [][]byte
		r := vfRunVsPeer(false, ucfg, pcfg, func(pc *Conn) error {
			var last []byte
			for hi, h := range cn.Hellos {
				if h.SIDEst {
					h.SID = estSID
				}
				hello := &clientHelloMsg{vers: h.Vers, random: h.Random, sessionId: h.SID, cipherSuites: h.Suites, compressionMethods: h.Comp,
					supportedCurves: []CurveID{CurveSM2}, supportedSignatureAlgorithms: []SignatureScheme{SM2WithSM3}}
				switch h.Cookie {
				case "echo":
					hello.cookie = last
				case "flip":
					if len(last) > 0 {
						ck := append([]byte(nil), last...)
						ck[h.FlipPos%len(ck)] ^= h.FlipMask | 1
						hello.cookie = ck
					}
				case "prev":
					if len(prevCookies) > 0 {
						hello.cookie = prevCookies[h.FlipPos%len(prevCookies)]
					}
				case "random":
					hello.cookie = bytes.Repeat([]byte{byte(h.FlipPos)}, 32)
				case "trunc":
					if len(last) > 1 {
						hello.cookie = append([]byte(nil), last[:h.FlipPos%(len(last)-1)+1]...)
					}
				case "weak":
					// the cookie an attacker computes itself under a guessed weak secret: one byte FlipPos
					// followed by zeros (FlipMask even) or 32 times that byte (FlipMask odd)
					guess := make([]byte, 32)
					guess[0] = byte(h.FlipPos)
					if h.FlipMask%2 == 1 {
						guess = bytes.Repeat([]byte{byte(h.FlipPos)}, 32)
					}
					mac := hmac.New(sm3.New, guess)
					mac.Write([]byte{byte(len(cn.Addr) >> 8), byte(len(cn.Addr))})
					mac.Write([]byte(cn.Addr))
					mac.Write(hello.marshalForCookie())
					hello.cookie = mac.Sum(nil)
				case "byte":
					hello.cookie = []byte{byte(h.FlipPos)}
				case "extend":
					if len(last) > 0 {
						hello.cookie = append(append([]byte(nil), last...), h.FlipMask)
					}
				}
				if len(hello.cookie) > 0 {
					nontrivial = true
				}
				vfPeerSeq(pc, hello)
				sim := pc.pconn.(*vfDEnd).s
				sim.mu.Lock()
				before := len(sim.sent)
				sim.mu.Unlock()
				if _, err := pc.writeHandshakeRecord(hello, nil); err != nil {
					return err
				}
				pc.flush()
				opsBefore := atomic.LoadInt64(&keyOps) + atomic.LoadInt64(&tOps) - tOpsBase
				msgIn, err := pc.readHandshake(nil)
				if err != nil {
					return fmt.Errorf("hello %d: %w", hi, err)
				}
				// what did the server send in answer to this hello?
				sim.mu.Lock()
				var reqLen int
				var resp [][]byte
				for _, s := range sim.sent[before:] {
					if s.From == 0 {
						reqLen = len(s.Data)
					} else {
						resp = append(resp, s.Data)
					}
				}
				sim.mu.Unlock()
				key := issuedKey{secretID, cn.Addr, string(c18Params(h))}
				want, wasIssued := issued[key]
				valid := wasIssued && len(hello.cookie) > 0 && bytes.Equal(want, hello.cookie) && secretID != 0
				if secretID == 0 {
					// per-connection random secret: a cookie is valid only on the connection that issued it
					valid = false
					for _, ck := range connCookies {
						if len(hello.cookie) > 0 && bytes.Equal(ck, hello.cookie) && bytes.Equal(issued[issuedKey{-(ci + 1), cn.Addr, string(c18Params(h))}], ck) {
							valid = true
						}
					}
				}
				switch m := msgIn.(type) {
				case *helloVerifyRequestMsg:
					if valid {
						fail("valid-cookie-rejected", "hello %d carried the cookie issued for exactly this address, parameters and secret but was answered with HelloVerifyRequest", hi)
					}
					if len(resp) != 1 {
						fail("hvr-datagrams", "hello %d was answered with %d datagrams", hi, len(resp))
					} else {
						recs, _ := vfFrameDatagram(resp[0], 0)
						if len(recs) != 1 || recs[0].Typ != 22 {
							fail("hvr-extra-records", "the answer to hello %d carries %d records", hi, len(recs))
						}
						if len(resp[0]) > reqLen {
							fail("amplification", "the answer to hello %d has %d bytes, the request %d", hi, len(resp[0]), reqLen)
						}
					}
					if n := atomic.LoadInt64(&keyOps) + atomic.LoadInt64(&tOps) - tOpsBase; n != 0 {
						fail("key-operation-before-cookie", "%d private-key operations before a valid cookie was received", n)
					}
					if h.Silent {
						pc.pconn.SetReadDeadline(time.Now().Add(64 * time.Second))
						buf := make([]byte, 4096)
						if n, _, rerr := pc.pconn.ReadFrom(buf); rerr == nil {
							fail("unsolicited-datagram", "the client sent one cookieless hello and then nothing; besides the HelloVerifyRequest the server sent another datagram (%d bytes: %s)", n, vfSummarize(buf[:n]))
						}
						pc.pconn.SetReadDeadline(time.Time{})
						sim.mu.Lock()
						extra := 0
						for _, sd := range sim.sent[before:] {
							if sd.From != 0 {
								extra++
							}
						}
						sim.mu.Unlock()
						if extra != 1 {
							fail("unsolicited-datagram", "one cookieless hello drew %d datagrams from the server over 64 s of silence", extra)
						}
						return nil
					}
					last = append([]byte(nil), m.cookie...)
					connCookies = append(connCookies, last)
					prevCookies = append(prevCookies, last)
					if secretID != 0 {
						if old, ok := issued[key]; ok && !bytes.Equal(old, last) {
							fail("cookie-unstable", "two different cookies for the same address, parameters and configured secret")
						}
						issued[key] = last
					} else {
						k2 := issuedKey{-(ci + 1), cn.Addr, string(c18Params(h))}
						if old, ok := issued[k2]; ok && !bytes.Equal(old, last) {
							fail("cookie-unstable", "two different cookies for the same hello within one connection")
						}
						issued[k2] = last
					}
				case *serverHelloMsg:
					if !valid {
						fail("invalid-cookie-accepted:"+h.Cookie, "hello %d (cookie %q: %x) was answered with ServerHello although no cookie was issued for this address, these parameters and this secret (key operations before: %d)", hi, h.Cookie, hello.cookie, opsBefore)
					}
					return nil // the handshake proper starts: nothing more to check here
				default:
					fail("unexpected-answer", "hello %d answered with %T", hi, msgIn)
					return nil
				}
			}
			return nil
		}, nil)
		vfPeerClientAddr = ""
		vfPeerServerNilAddr = false
		if r.UPanic != "" {
			return "panic", r.UPanic, nontrivial
		}
		if r.PPanic != "" {
			return "harness-peer-panic", r.PPanic, nontrivial
		}
		if vsig != "" {
			return vsig, verr, nontrivial
		}
	}
	// without a configured secret, different connections must use different secrets:
	// the same (address, parameters) must get different cookies on different connections
	type ap struct{ addr, params string }
	seen := map[ap][]byte{}
	for k, v := range issued {
		if k.secret >= 0 {
			continue
		}
		a := ap{k.addr, k.params}
		if old, ok := seen[a]; ok && bytes.Equal(old, v) {
			return "default-secret-shared", "two connections without a configured secret issued the same cookie for the same hello", nontrivial
		}
		seen[a] = v
	}
	return "", "", nontrivial
}

func c18BaseHello() c18Hello {
	r := make([]byte, 32)
	for i := range r {
		r[i] = byte(i + 1)
	}
	return c18Hello{Vers: 0x0101, Random: r, Suites: []uint16{ECC_SM4_GCM_SM3, ECC_SM4_CBC_SM3, ECDHE_SM4_GCM_SM3, ECDHE_SM4_CBC_SM3}, Comp: []byte{0}, Cookie: "none"}
}

// c18Catalogue: the enumerated part.
func c18Catalogue(suite uint16) []c18Case {
	var out []c18Case
	b := c18BaseHello()
	echo := b
	echo.Cookie = "echo"
	add := func(conns ...c18Conn) { out = append(out, c18Case{Suite: suite, Conns: conns}) }
	// honest exchange, configured and unconfigured secret
	add(c18Conn{Addr: "10.0.0.1:1000", Secret: 1, Hellos: []c18Hello{b, echo}})
	add(c18Conn{Addr: "10.0.0.1:1000", Secret: 0, Hellos: []c18Hello{b, echo}})
	// repeated cookieless hellos
	add(c18Conn{Addr: "10.0.0.1:1000", Secret: 1, Hellos: []c18Hello{b, b, b, b, b, echo}})
	// every covered field changed after the cookie was issued
	mut := []func(*c18Hello){
		func(h *c18Hello) { h.Vers = 0x0100 },
		func(h *c18Hello) { h.Random = append([]byte(nil), h.Random...); h.Random[31] ^= 1 },
		func(h *c18Hello) { h.Random = append([]byte(nil), h.Random...); h.Random[0] ^= 0x80 },
		func(h *c18Hello) { h.SID = []byte{1, 2, 3} },
		func(h *c18Hello) { h.Suites = h.Suites[:3] },
		func(h *c18Hello) { h.Suites = append([]uint16{0xe0ff}, h.Suites...) },
		func(h *c18Hello) { h.Comp = []byte{0, 1} },
	}
	for _, f := range mut {
		h2 := echo
		f(&h2)
		add(c18Conn{Addr: "10.0.0.1:1000", Secret: 1, Hellos: []c18Hello{b, h2, echo}})
		add(c18Conn{Addr: "10.0.0.1:1000", Secret: 0, Hellos: []c18Hello{b, h2}})
	}
	// every byte of the cookie, three masks
	for pos := 0; pos < 32; pos++ {
		for _, m := range []byte{0x01, 0x80, 0xff} {
			f := echo
			f.Cookie, f.FlipPos, f.FlipMask = "flip", pos, m
			add(c18Conn{Addr: "10.0.0.1:1000", Secret: 1, Hellos: []c18Hello{b, f}})
		}
	}
	// cookie replayed from another address / under another secret / on another connection without a configured secret
	prev := echo
	prev.Cookie = "prev"
	add(c18Conn{Addr: "10.0.0.1:1000", Secret: 1, Hellos: []c18Hello{b}}, c18Conn{Addr: "10.0.0.9:1000", Secret: 1, Hellos: []c18Hello{prev}})
	add(c18Conn{Addr: "10.0.0.1:1000", Secret: 1, Hellos: []c18Hello{b}}, c18Conn{Addr: "10.0.0.1:1001", Secret: 1, Hellos: []c18Hello{prev}})
	add(c18Conn{Addr: "10.0.0.1:1000", Secret: 1, Hellos: []c18Hello{b}}, c18Conn{Addr: "10.0.0.1:1000", Secret: 2, Hellos: []c18Hello{prev}})
	add(c18Conn{Addr: "10.0.0.1:1000", Secret: 0, Hellos: []c18Hello{b}}, c18Conn{Addr: "10.0.0.1:1000", Secret: 0, Hellos: []c18Hello{prev}})
	add(c18Conn{Addr: "10.0.0.1:1000", Secret: 1, Hellos: []c18Hello{b}}, c18Conn{Addr: "10.0.0.1:1000", Secret: 1, Hellos: []c18Hello{prev}}) // same everything: valid
	// a server created without a peer address (learnt from the first datagram): the cookie is bound to the learnt address
	for _, sec := range []int{0, 1} {
		add(c18Conn{Addr: "10.0.0.1:1000", Secret: sec, NilAddr: true, Hellos: []c18Hello{b, echo}})
		add(c18Conn{Addr: "10.0.0.1:1000", Secret: sec, NilAddr: true, Hellos: []c18Hello{b}}, c18Conn{Addr: "10.0.0.9:1000", Secret: sec, NilAddr: true, Hellos: []c18Hello{prev}})
		add(c18Conn{Addr: "10.0.0.1:1000", Secret: sec, NilAddr: true, Hellos: []c18Hello{b}}, c18Conn{Addr: "10.0.0.9:1000", Secret: sec, Hellos: []c18Hello{prev}})
		add(c18Conn{Addr: "10.0.0.1:1000", Secret: sec, Hellos: []c18Hello{b}}, c18Conn{Addr: "10.0.0.1:1001", Secret: sec, NilAddr: true, Hellos: []c18Hello{prev}})
	}
	// a per-client configuration object shared by the connections (GetConfigForClient), with and without a secret
	for _, sec := range []int{0, 1, 4} {
		add(c18Conn{Addr: "10.0.0.1:1000", Secret: sec, Tenant: true, Hellos: []c18Hello{b, echo}}, c18Conn{Addr: "10.0.0.1:1000", Secret: sec, Tenant: true, Hellos: []c18Hello{prev, b, echo}},
			c18Conn{Addr: "10.0.0.1:1000", Secret: sec, Tenant: true, Hellos: []c18Hello{prev}})
		add(c18Conn{Addr: "10.0.0.1:1000", Secret: sec, Tenant: true, Hellos: []c18Hello{b}}, c18Conn{Addr: "10.0.0.1:1000", Secret: sec, Hellos: []c18Hello{prev}})
	}
	// no secret configured, randomness that comes one byte per Read: cookies computed by an attacker under
	// every secret "one byte, then zeros" and "32 times one byte" must all be refused
	for _, mask := range []byte{2, 1} {
		var hs []c18Hello
		for g := 0; g < 256; g++ {
			w := echo
			w.Cookie, w.FlipPos, w.FlipMask = "weak", g, mask
			hs = append(hs, w)
		}
		add(c18Conn{Addr: "10.0.0.1:1000", Secret: 0, ShortRand: true, Hellos: hs})
		add(c18Conn{Addr: "10.0.0.1:1000", Secret: 0, Hellos: hs[:64]})
	}
	// split-shift: two (address, parameters) pairs with the same concatenation
	h1 := c18BaseHello()
	h1.Vers = 0x3001
	h1.Random[0] = 0x01
	h1.SID = []byte{0}
	h2 := c18BaseHello()
	h2.Vers = 0x0101
	h2.Random = append(append([]byte(nil), h1.Random[1:]...), 0x01)
	h2.SID = nil
	h2.Cookie = "prev"
	add(c18Conn{Addr: "10.0.0.1:8", Secret: 1, Hellos: []c18Hello{h1}}, c18Conn{Addr: "10.0.0.1:80", Secret: 1, Hellos: []c18Hello{h2}})
	// the configured secret is overwritten in place (key rotation): old cookies die, new ones are issued under the new secret
	add(c18Conn{Addr: "10.0.0.1:1000", Secret: 3, Hellos: []c18Hello{b, echo}}, c18Conn{Addr: "10.0.0.1:1000", Secret: 3, Rotate: true, Hellos: []c18Hello{prev, b, echo}})
	add(c18Conn{Addr: "10.0.0.1:1000", Secret: 3, Hellos: []c18Hello{b}}, c18Conn{Addr: "10.0.0.1:1000", Secret: 3, Rotate: true, Hellos: []c18Hello{b}}, c18Conn{Addr: "10.0.0.1:1000", Secret: 3, Rotate: true, Hellos: []c18Hello{prev}})
	// a proper prefix of the right cookie, the right cookie plus one byte, every one-byte cookie
	for k := 1; k < 32; k++ {
		tr := echo
		tr.Cookie, tr.FlipPos = "trunc", k-1
		add(c18Conn{Addr: "10.0.0.1:1000", Secret: 1, Hellos: []c18Hello{b, tr}})
	}
	ex := echo
	ex.Cookie = "extend"
	add(c18Conn{Addr: "10.0.0.1:1000", Secret: 1, Hellos: []c18Hello{b, ex, echo}})
	var bytesHellos []c18Hello
	for v := 0; v < 256; v++ {
		ob := echo
		ob.Cookie, ob.FlipPos = "byte", v
		bytesHellos = append(bytesHellos, ob)
	}
	add(c18Conn{Addr: "10.0.0.7:7000", Secret: 1, Hellos: bytesHellos})
	add(c18Conn{Addr: "10.0.0.7:7000", Secret: 0, Hellos: bytesHellos})
	// a cookieless hello that names a session the server has cached (from the same and from another address)
	est := b
	est.SIDEst = true
	estEcho := est
	estEcho.Cookie = "echo"
	out = append(out, c18Case{Suite: suite, Prime: true, Conns: []c18Conn{{Addr: "10.0.0.1:1000", Secret: 1, Hellos: []c18Hello{est, est, estEcho}}}})
	out = append(out, c18Case{Suite: suite, Prime: true, Conns: []c18Conn{{Addr: "203.0.113.7:4444", Secret: 0, Hellos: []c18Hello{est, estEcho}}}})
	offerOther := est
	offerOther.Suites = []uint16{0xe0ff}
	out = append(out, c18Case{Suite: suite, Prime: true, Conns: []c18Conn{{Addr: "203.0.113.7:4444", Secret: 1, Hellos: []c18Hello{offerOther}}}})
	// an empty but non-nil secret is no secret: per-connection secrets, cookies do not carry over
	add(c18Conn{Addr: "10.0.0.1:1000", Secret: 4, Hellos: []c18Hello{b, echo}})
	add(c18Conn{Addr: "10.0.0.1:1000", Secret: 4, Hellos: []c18Hello{b}}, c18Conn{Addr: "10.0.0.1:1000", Secret: 4, Hellos: []c18Hello{prev}})
	add(c18Conn{Addr: "10.0.0.1:1000", Secret: 4, Hellos: []c18Hello{b}}, c18Conn{Addr: "10.0.0.1:1000", Secret: 0, Hellos: []c18Hello{b}})
	// long address strings (IPv6 with a zone) that differ only at the end
	longA, longB := "[fe80::1234:5678:9abc:def0%enp0s31f6.100]:40001", "[fe80::1234:5678:9abc:def0%enp0s31f6.100]:40002"
	add(c18Conn{Addr: longA, Secret: 1, Hellos: []c18Hello{b, echo}})
	add(c18Conn{Addr: longA, Secret: 1, Hellos: []c18Hello{b}}, c18Conn{Addr: longB, Secret: 1, Hellos: []c18Hello{prev}})
	longC, longD := "[2001:db8:1234:5678:9abc:def0:1234:5678%verylongzonename0]:5", "[2001:db8:1234:5678:9abc:def0:1234:5678%verylongzonename1]:5"
	add(c18Conn{Addr: longC, Secret: 2, Hellos: []c18Hello{b}}, c18Conn{Addr: longD, Secret: 2, Hellos: []c18Hello{prev}})
	// one cookieless (or wrongly cookied) hello, then silence
	sil := b
	sil.Silent = true
	add(c18Conn{Addr: "10.0.0.1:1000", Secret: 1, Hellos: []c18Hello{sil}})
	add(c18Conn{Addr: "10.0.0.1:1000", Secret: 0, Hellos: []c18Hello{b, sil}})
	silr := echo
	silr.Cookie, silr.Silent = "random", true
	add(c18Conn{Addr: "10.0.0.1:1000", Secret: 1, Hellos: []c18Hello{b, silr}})
	// random cookie
	rc := echo
	rc.Cookie = "random"
	add(c18Conn{Addr: "10.0.0.1:1000", Secret: 1, Hellos: []c18Hello{rc, b, rc}})
	return out
}

func TestVF_C18(t *testing.T) {
	rec := vfRec("C18", "C18-cookie", "a scripted client sends ClientHello sequences on one or several server connections (source address, configured secret A/B or none): cookieless hellos, a valid cookie followed by a change of each covered field, every cookie byte x 3 masks, every proper prefix of the cookie, the cookie plus one byte, all 256 one-byte cookies, cookies replayed across addresses, secrets and connections, cookieless hellos naming a session the server has cached, a hello followed by 64 s of silence (nothing but the one HelloVerifyRequest may arrive), the split-shift pair whose address||parameters concatenations coincide; rapid variants; the server's keys are counting wrappers; oracle: before a valid cookie exactly one HelloVerifyRequest datagram per hello, not larger than the request, zero private-key operations, no ServerHello; a cookie is valid only for exactly the address, parameters and secret it was issued for; without a configured secret every connection has its own; non-trivial = a hello carrying a cookie; distinct = the case")
	idx := 0
	for _, suite := range []uint16{ECC_SM4_GCM_SM3, ECDHE_SM4_GCM_SM3} {
		for _, c := range c18Catalogue(suite) {
			idx++
			if !vfMine(idx) {
				continue
			}
			sig, msg, nt := c18Run(c)
			if sig != "" {
				if sig == "invalid-cookie-accepted:prev" && vfKnown("F18") && len(c.Conns) == 2 && c.Conns[0].Addr == "10.0.0.1:8" {
					rec.Excluded("F18")
					continue
				}
				rec.Violation(sig, c, "%s", msg)
			}
			rec.Eval(nt, c)
		}
	}
	rec.SetExhaustive(true, fmt.Sprintf("catalogue of %d hello sequences; random sequences sampled", idx))
	vfRapid(t, rec, "random", vfN(500, 20000), func(t *rapid.T) {
		c := c18Case{Suite: rapid.SampledFrom([]uint16{ECC_SM4_GCM_SM3, ECDHE_SM4_CBC_SM3}).Draw(t, "suite"), Prime: rapid.IntRange(0, 3).Draw(t, "prime") == 0}
		nc := rapid.IntRange(1, 3).Draw(t, "nconns")
		for i := 0; i < nc; i++ {
			cn := c18Conn{Addr: rapid.SampledFrom([]string{"10.0.0.1:1000", "10.0.0.1:1001", "10.0.0.2:1000", "10.0.0.1:100", "10.0.0.1:10", "[fe80::1234:5678:9abc:def0%enp0s31f6.100]:40001", "[fe80::1234:5678:9abc:def0%enp0s31f6.100]:40002"}).Draw(t, "addr"), Secret: rapid.IntRange(0, 4).Draw(t, "secret"),
				Rotate: rapid.IntRange(0, 2).Draw(t, "rotate") == 0}
			nh := rapid.IntRange(1, 5).Draw(t, "nhellos")
			for j := 0; j < nh; j++ {
				h := c18BaseHello()
				h.Random[5] = byte(rapid.IntRange(0, 2).Draw(t, "rnd"))
				switch rapid.IntRange(0, 5).Draw(t, "sid") {
				case 0:
					h.SID = []byte{9, 9}
				case 1:
					h.SIDEst = c.Prime
				}
				if rapid.IntRange(0, 3).Draw(t, "suites") == 0 {
					h.Suites = h.Suites[:2]
				}
				h.Cookie = rapid.SampledFrom([]string{"none", "echo", "echo", "flip", "prev", "random", "trunc", "byte", "extend", "weak"}).Draw(t, "cookie")
				h.FlipPos = rapid.IntRange(0, 40).Draw(t, "pos")
				h.FlipMask = byte(rapid.IntRange(1, 255).Draw(t, "mask"))
				h.Silent = j == nh-1 && rapid.IntRange(0, 3).Draw(t, "silent") == 0
				cn.Hellos = append(cn.Hellos, h)
			}
			cn.NilAddr = rapid.IntRange(0, 4).Draw(t, "niladdr") == 0
			cn.ShortRand = rapid.IntRange(0, 4).Draw(t, "shortrand") == 0
			cn.Tenant = rapid.IntRange(0, 4).Draw(t, "tenant") == 0
			c.Conns = append(c.Conns, cn)
		}
		sig, msg, nt := c18Run(c)
		if sig != "" {
			rec.Fail(t, sig, c, "%s", msg)
		}
		rec.Eval(nt, c)
	})
	if vfKnown("F18") {
		cat := c18Catalogue(ECC_SM4_GCM_SM3)
		for _, c := range cat {
			if len(c.Conns) == 2 && c.Conns[0].Addr == "10.0.0.1:8" {
				sig, _, _ := c18Run(c)
				rec.Known("F18", sig != "")
			}
		}
	}
}

func init() {
	vfRegisterReplay("C18-cookie", func(raw json.RawMessage) error {
		var c c18Case
		if err := json.Unmarshal(raw, &c); err != nil {
			return err
		}
		if sig, msg, _ := c18Run(c); sig != "" {
			return fmt.Errorf("%s: %s", sig, msg)
		}
		return nil
	})
}
