//go:build verif

package vfpkg

//vf:pkgs tlcp dtlcp

// C10: session resumption is sound and falls back transparently.
// rapid state machine over a world of one client configuration family and three servers with their
// own addresses, caches and suite sets. What the caches hold is read (without touching recency)
// from the real caches - the cache itself is C11's subject - and the handshake's behaviour relative
// to that content is predicted by the model and compared after every step.

import (
	"sync"
	"bytes"
	"encoding/hex"
	"encoding/json"
	"fmt"
	"strings"
	"testing"

	"pgregory.net/rapid"
)

type c10Server struct {
	addr   string
	cache  SessionCache
	suites []uint16
}

type c10Origin struct {
	server   int
	srvCerts [][]byte
	cliCerts [][]byte // what the server reported as the client's certificates
	cr, sr   []byte
	fin      [2][12]byte
}

type c10World struct {
	ccache    SessionCache
	cliSuites []uint16
	polSet    int // which of the two sets of client-authentication policies the three servers use
	cliName   string // the client's ServerName: the certificates' name, or an IP literal they do not cover
	srv       [3]*c10Server
	seen      map[string]bool       // every session id a ServerHello has carried as a new session
	failed    map[string]bool       // session ids whose handshake ended in a fatal error at the client
	origin    map[string]*c10Origin // session id -> the connection that created it
	log       []string
}

// c10Peek reads a cache entry without changing its recency.
func c10Peek(cache SessionCache, key string) *SessionState {
	lc, ok := cache.(*lruSessionCache)
	if !ok {
		s, _ := cache.Get(key)
		return s
	}
	lc.Lock()
	defer lc.Unlock()
	if e, ok := lc.m[key]; ok {
		return e.Value.(*lruSessionCacheEntry).state
	}
	return nil
}

// vfPtrCache: an application-supplied SessionCache. SessionState has no exported fields, so such a
// cache can only keep the object it is handed.
type vfPtrCache struct {
	mu sync.Mutex
	m  map[string]*SessionState
}

func (c *vfPtrCache) Get(k string) (*SessionState, bool) {
	c.mu.Lock()
	defer c.mu.Unlock()
	s, ok := c.m[k]
	return s, ok
}

func (c *vfPtrCache) Put(k string, s *SessionState) {
	c.mu.Lock()
	defer c.mu.Unlock()
	if s == nil {
		delete(c.m, k)
		return
	}
	c.m[k] = s
}

var c10Names = []string{vfServerName, "10.9.9.9", "[::1]"}

var c10SuiteSets = [][]uint16{{ECC_SM4_GCM_SM3}, {ECC_SM4_CBC_SM3}, {ECC_SM4_GCM_SM3, ECC_SM4_CBC_SM3}, {ECDHE_SM4_GCM_SM3, ECC_SM4_CBC_SM3}, {ECDHE_SM4_GCM_SM3}, {ECDHE_SM4_CBC_SM3, ECDHE_SM4_GCM_SM3}}

func c10New() *c10World {
	w := &c10World{ccache: NewLRUSessionCache(6), cliSuites: c10SuiteSets[2], cliName: vfServerName, seen: map[string]bool{}, failed: map[string]bool{}, origin: map[string]*c10Origin{}}
	for i := range w.srv {
		w.srv[i] = &c10Server{addr: fmt.Sprintf("10.0.%d.2:2000", i+1), cache: NewLRUSessionCache(64), suites: c10SuiteSets[2]}
	}
	// the third server keeps its sessions in an application-supplied cache that stores what it is given
	w.srv[2].cache = &vfPtrCache{m: map[string]*SessionState{}}
	return w
}

func (w *c10World) configs(i int) (*Config, *Config) {
	p := vfGetPKI()
	ccfg := &Config{Time: vfTime, RootCAs: p.A.pool, ServerName: w.cliName, CipherSuites: w.cliSuites, SessionCache: w.ccache,
		Certificates: []Certificate{p.CliSig, p.CliEnc}}
	scfg := &Config{Time: vfTime, Certificates: []Certificate{p.SrvSig, p.SrvEnc}, CipherSuites: w.srv[i].suites, SessionCache: w.srv[i].cache, ClientCAs: p.A.pool}
	// the three servers ask for the client's certificate under different policies (the client always has one)
	scfg.ClientAuth = [][]ClientAuthType{{RequestClientCert, RequireAnyClientCert, RequireAndVerifyClientCert},
		{NoClientCert, VerifyClientCertIfGiven, RequireAndVerifyAnyKeyUsageClientCert}}[w.polSet%2][i%3]
	return ccfg, scfg
}

// c10Negotiate: the suite a full handshake would pick, or 0.
func c10Negotiate(cli, srv []uint16) uint16 {
	for _, id := range c01Priority {
		if c01Has(cli, id) && c01Has(srv, id) {
			return id
		}
	}
	return 0
}

// c10Hellos extracts the session ids and randoms from the wire.
func c10Hellos(r *vfPair) (chSid, shSid, cr, sr []byte, ok bool) {
	cm, sm := vfPlainHandshake(vfRecordsOf(r, 0)), vfPlainHandshake(vfRecordsOf(r, 1))
	var ch, sh *vfHSMsg
	for i := range cm {
		if cm[i].Typ == hsClientHello {
			ch = &cm[i]
		}
	}
	for i := range sm {
		if sm[i].Typ == hsServerHello && sh == nil {
			sh = &sm[i]
		}
	}
	if ch == nil {
		return nil, nil, nil, nil, false
	}
	cr, chSid, _, ok1 := c04Hello(ch.Body)
	if !ok1 {
		return nil, nil, nil, nil, false
	}
	if sh != nil {
		sr, shSid, _, _ = c04Hello(sh.Body)
	}
	return chSid, shSid, cr, sr, true
}

// connect performs one connection to server i, optionally through a corrupting MITM, and checks it.
func (w *c10World) connect(i int, fault *c03Edit) (sig, msg string) {
	s := w.srv[i]
	ccfg, scfg := w.configs(i)
	held := c10Peek(w.ccache, s.addr)
	var offered []byte
	if held != nil {
		offered = held.sessionId
	}
	var srvHas *SessionState
	if offered != nil {
		srvHas = c10Peek(s.cache, hex.EncodeToString(offered))
	}
	if w.cliName != vfServerName {
		// the client now verifies a name the server's certificates do not cover: no connection may
		// complete, resumed or not
		r := vfRunPair(ccfg, scfg, vfPairOpt{SrvAddr: s.addr})
		w.log = append(w.log, fmt.Sprintf("connect(%d) as %q offered=%x -> cerr=%v resumed=%v", i, w.cliName, offered, r.CErr, r.CS.DidResume))
		if r.CPanic != "" || r.SPanic != "" {
			return "panic", r.CPanic + r.SPanic
		}
		if r.CErr == nil {
			return "resumed-under-uncovered-name", fmt.Sprintf("the client verifies the server name %q, which the server's certificates do not cover, and completed (resumed=%v, offered session %x)", w.cliName, r.CS.DidResume, offered)
		}
		if chSid, shSid, _, _, ok := c10Hellos(r); ok {
			for _, id := range [][]byte{chSid, shSid} {
				if len(id) > 0 {
					w.failed[string(id)] = true
				}
			}
		}
		return "", ""
	}
	full := c10Negotiate(w.cliSuites, s.suites)
	predictResume := held != nil && srvHas != nil && srvHas.vers == VersionTLCP &&
		c01Has(w.cliSuites, srvHas.cipherSuite) && c01Has(s.suites, srvHas.cipherSuite)
	opt := vfPairOpt{SrvAddr: s.addr}
	applied := false
	if fault != nil {
		c03Apply(&opt, *fault, &applied)
		// c03Apply installs its own Prepare on the stream stack; keep the address
		opt.SrvAddr = s.addr
	}
	payload := []byte("c10-echo")
	opt.CliAct = func(c *Conn) error {
		if err := vfSendAll(c, payload); err != nil {
			return err
		}
		_, err := vfRecvN(c, len(payload))
		return err
	}
	opt.SrvAct = func(c *Conn) error {
		b, err := vfRecvN(c, len(payload))
		if err != nil {
			return err
		}
		return vfSendAll(c, b)
	}
	r := vfRunPair(ccfg, scfg, opt)
	w.log = append(w.log, fmt.Sprintf("connect(%d) fault=%v offered=%x -> cerr=%v serr=%v resumed=%v", i, fault != nil && applied, offered, r.CErr, r.SErr, r.CS.DidResume))
	if r.CPanic != "" || r.SPanic != "" {
		return "panic", r.CPanic + r.SPanic
	}
	chSid, shSid, cr, sr, ok := c10Hellos(r)
	if !ok {
		return "harness-wire", "ClientHello not found on the wire"
	}
	// what the client offers is what its cache holds for this destination - in particular nothing
	// after a failed handshake
	if !bytes.Equal(chSid, offered) {
		return "offered-id", fmt.Sprintf("ClientHello carries session id %x, the client's cache holds %x for %s", chSid, offered, s.addr)
	}
	if len(chSid) > 0 && w.failed[string(chSid)] {
		return "offered-failed-session", fmt.Sprintf("client offers session %x although a handshake of that session ended in a fatal error", chSid)
	}
	if fault != nil && applied {
		// induced failure: the session that was offered, and any session this handshake created,
		// must not survive a fatal error at the client
		if r.CErr != nil {
			for _, id := range [][]byte{chSid, shSid} {
				if len(id) > 0 {
					w.failed[string(id)] = true
				}
			}
			if st := c10Peek(w.ccache, s.addr); st != nil && (bytes.Equal(st.sessionId, chSid) || bytes.Equal(st.sessionId, shSid)) {
				return "failed-session-kept", fmt.Sprintf("after a handshake that failed with %v the client still holds session %x for %s", r.CErr, st.sessionId, s.addr)
			}
		}
		return "", ""
	}
	if full == 0 && !predictResume {
		if r.CErr == nil || r.SErr == nil {
			return "incompatible-completed", "no common suite but the handshake completed"
		}
		if len(chSid) > 0 {
			w.failed[string(chSid)] = true
		}
		return "", ""
	}
	if r.CErr != nil || r.SErr != nil || r.Stalled {
		return "fallback-failed", fmt.Sprintf("honest connection failed although the configurations are compatible (offered %x, server holds it: %v): client=%v server=%v", offered, srvHas != nil, r.CErr, r.SErr)
	}
	if r.CAct != nil || r.SAct != nil {
		return "echo", fmt.Sprintf("data exchange failed: %v / %v", r.CAct, r.SAct)
	}
	if r.CS.DidResume != r.SS.DidResume {
		return "resume-disagree", fmt.Sprintf("DidResume client=%v server=%v", r.CS.DidResume, r.SS.DidResume)
	}
	if r.CS.DidResume != predictResume {
		return "resume-prediction", fmt.Sprintf("DidResume=%v, expected %v (client holds %x for %s; server holds it: %v; session suite %x; client suites %x; server suites %x)",
			r.CS.DidResume, predictResume, offered, s.addr, srvHas != nil, func() uint16 {
				if srvHas != nil {
					return srvHas.cipherSuite
				}
				return 0
			}(), w.cliSuites, s.suites)
	}
	if r.CS.DidResume {
		if !bytes.Equal(shSid, chSid) {
			return "resume-echo", "resumed ServerHello does not echo the offered identifier"
		}
		o := w.origin[string(chSid)]
		if o != nil {
			if !c01SameDER(c01DER(r.CS.PeerCertificates), o.srvCerts) {
				return "resume-identity", "resumed connection reports a different server identity than the original"
			}
			if !c01SameDER(c01DER(r.SS.PeerCertificates), o.cliCerts) {
				return "resume-identity", fmt.Sprintf("on the resumed connection the server reports %d client certificates, on the original %d (the same ones are expected)", len(r.SS.PeerCertificates), len(o.cliCerts))
			}
			if bytes.Equal(cr, o.cr) || bytes.Equal(sr, o.sr) {
				return "resume-randoms", "resumed handshake reused a random value of the original"
			}
			if r.CFin == o.fin {
				return "resume-finished", "resumed handshake has the same Finished values as the original"
			}
		}
		if r.CS.CipherSuite != srvHas.cipherSuite {
			return "resume-suite", fmt.Sprintf("resumed under suite %x, session was created under %x", r.CS.CipherSuite, srvHas.cipherSuite)
		}
	} else {
		if len(shSid) != 32 {
			return "new-id-length", fmt.Sprintf("new session identifier has %d bytes", len(shSid))
		}
		if w.seen[string(shSid)] || bytes.Equal(shSid, chSid) {
			return "new-id-fresh", fmt.Sprintf("new session identifier %x was seen before", shSid)
		}
		w.seen[string(shSid)] = true
		if r.CS.CipherSuite != full {
			return "fallback-suite", fmt.Sprintf("full handshake negotiated %x, expected %x", r.CS.CipherSuite, full)
		}
		w.origin[string(shSid)] = &c10Origin{server: i, srvCerts: c01DER(r.CS.PeerCertificates), cliCerts: c01DER(r.SS.PeerCertificates), cr: cr, sr: sr, fin: r.CFin}
		// the client now holds the new session for this destination
		if st := c10Peek(w.ccache, s.addr); st == nil || !bytes.Equal(st.sessionId, shSid) {
			return "new-session-not-stored", "after a full handshake the client's cache does not hold the new session for the destination"
		}
	}
	return "", ""
}

// forged: a scripted client offers an identifier the server does not hold; a full handshake must follow.
func (w *c10World) forged(i int, id []byte) (sig, msg string) {
	p := vfGetPKI()
	s := w.srv[i]
	_, scfg := w.configs(i)
	scfg = scfg.Clone()
	vfPeerTuneConfig(scfg)
	pcfg := &Config{Time: vfTime, InsecureSkipVerify: true, CipherSuites: s.suites, Certificates: []Certificate{p.CliSig, p.CliEnc}}
	echoed, done := false, false
	r := vfRunVsPeer(false, scfg, pcfg, func(pc *Conn) error {
		cp := vfNewCliPeer(pc)
		if err := cp.SendClientHello(vfCHOpt{SessionID: id}); err != nil {
			return err
		}
		if bytes.Equal(cp.sh.sessionId, id) {
			echoed = true
			return nil
		}
		if err := cp.ReadServerFlight(); err != nil {
			return err
		}
		if cp.cr != nil {
			cp.SendCertificate([][]byte{p.CliSig.Certificate[0], p.CliEnc.Certificate[0]})
		}
		enc := p.CliEnc
		if err := cp.PrepareCKE(&enc); err != nil {
			return err
		}
		cp.SendCKE(nil)
		if cp.cr != nil {
			cp.SendCertVerify(p.CliSig.PrivateKey, nil, false)
		}
		cp.ComputeMaster()
		cp.EstablishKeys()
		cp.SendCCS()
		cp.SendFinished(false)
		if err := cp.ReadServerFinished(); err != nil {
			return err
		}
		done = true
		return nil
	}, nil)
	w.log = append(w.log, fmt.Sprintf("forged(%d, %x) -> echoed=%v uerr=%v", i, id, echoed, r.UErr))
	if r.UPanic != "" {
		return "panic", r.UPanic
	}
	if echoed {
		return "resumed-unknown-id", fmt.Sprintf("server resumed identifier %x which it does not hold", id)
	}
	if r.UErr != nil || !done {
		return "forged-id-broke-handshake", fmt.Sprintf("offering an unknown identifier made the full handshake fail: server=%v peer=%v", r.UErr, r.PErr)
	}
	if r.UState.DidResume {
		return "resumed-unknown-id", "server reports DidResume for an unknown identifier"
	}
	return "", ""
}

type c10Action struct {
	Kind   string   `json:"k"` // connect, fault, loss, srv-suites, cli-suites, forged, pressure
	Server int      `json:"s"`
	Edit   *c03Edit `json:"e,omitempty"`
	Set    int      `json:"set,omitempty"`
	Stale  bool     `json:"stale,omitempty"`
	ID     []byte   `json:"id,omitempty"`
	N      int      `json:"n,omitempty"`
}

// c10Exec runs a history; returns the first violated clause and whether the history contained a
// resumption attempt after a perturbation.
func c10Exec(actions []c10Action) (sig, msg string, attemptAfter bool, log []string) {
	w := c10New()
	perturbed := false
	for step, a := range actions {
		i := a.Server % 3
		switch a.Kind {
		case "policies":
			// only as the first action: the servers' policies are fixed for the whole history
			if step == 0 {
				w.polSet = a.Set % 2
				// and the suite sets everybody starts with
				w.cliSuites = c10SuiteSets[a.N%len(c10SuiteSets)]
				for k := range w.srv {
					w.srv[k].suites = c10SuiteSets[a.N%len(c10SuiteSets)]
				}
			}
		case "connect":
			if perturbed && c10Peek(w.ccache, w.srv[i].addr) != nil {
				attemptAfter = true
			}
			sig, msg = w.connect(i, nil)
		case "fault":
			perturbed = true
			sig, msg = w.connect(i, a.Edit)
		case "loss":
			w.srv[i].cache = NewLRUSessionCache(64)
			perturbed = true
		case "srv-suites":
			w.srv[i].suites = c10SuiteSets[a.Set%len(c10SuiteSets)]
			perturbed = true
		case "cli-suites":
			w.cliSuites = c10SuiteSets[a.Set%len(c10SuiteSets)]
			perturbed = true
		case "cli-name":
			w.cliName = c10Names[a.Set%len(c10Names)]
			perturbed = true
		case "forged":
			id := a.ID
			if a.Stale {
				// a stale identifier: one that existed but that this server does not hold (any more)
				best := ""
				for sidStr := range w.origin {
					if c10Peek(w.srv[i].cache, hex.EncodeToString([]byte(sidStr))) == nil && (best == "" || sidStr < best) {
						best = sidStr
					}
				}
				if best != "" {
					id = []byte(best)
				}
			}
			if len(id) == 0 || c10Peek(w.srv[i].cache, hex.EncodeToString(id)) != nil {
				continue
			}
			perturbed = true
			sig, msg = w.forged(i, id)
		case "pressure":
			for j := 0; j < a.N; j++ {
				w.ccache.Put(fmt.Sprintf("junk-%d-%d", step, j), &SessionState{sessionId: []byte{byte(step), byte(j)}, vers: VersionTLCP, cipherSuite: ECC_SM4_GCM_SM3, masterSecret: make([]byte, 48)})
			}
			perturbed = true
		}
		if sig != "" {
			return sig, fmt.Sprintf("step %d (%s): %s", step, a.Kind, msg), attemptAfter, w.log
		}
	}
	return "", "", attemptAfter, w.log
}

func TestVF_C10(t *testing.T) {
	rec := vfRec("C10", "C10-resumption", "rapid-generated histories over the actions connect(i), connect through a corrupting man-in-the-middle (flip in a chosen record of either direction), server cache loss, server / client suite reconfiguration, connection with a forged or stale identifier (scripted client), client cache pressure; three servers with their own addresses, caches, suite sets and client-authentication policies (RequestClientCert / RequireAnyClientCert / RequireAndVerifyClientCert, or NoClientCert / VerifyClientCertIfGiven / RequireAndVerifyAnyKeyUsageClientCert for the whole history); after every step the model (what the real caches hold, read without touching recency) predicts resumed / full / failed and what the hellos carry; non-trivial = history with a resumption attempt after at least one perturbation; distinct = hash of the action list")
	actGen := rapid.Custom(func(t *rapid.T) c10Action {
		a := c10Action{Kind: rapid.SampledFrom([]string{"connect", "connect", "connect", "connect", "fault", "loss", "srv-suites", "cli-suites", "cli-name", "forged", "pressure"}).Draw(t, "action"),
			Server: rapid.IntRange(0, 2).Draw(t, "server")}
		switch a.Kind {
		case "fault":
			a.Edit = &c03Edit{Kind: "flip", Dir: rapid.IntRange(0, 1).Draw(t, "dir"), Rec: rapid.IntRange(0, 6).Draw(t, "rec"),
				Off: rapid.SampledFrom([]int{vfRecHdrLen, vfRecHdrLen + 1, vfRecHdrLen + vfHSHdrLen + 3, vfRecHdrLen + 20}).Draw(t, "off"), Mask: 0x55}
		case "srv-suites", "cli-suites", "cli-name":
			a.Set = rapid.IntRange(0, len(c10SuiteSets)-1).Draw(t, "set")
		case "forged":
			a.Stale = rapid.Bool().Draw(t, "stale")
			a.ID = rapid.SliceOfN(rapid.Byte(), 1, 32).Draw(t, "id")
		case "pressure":
			a.N = rapid.IntRange(1, 8).Draw(t, "junk")
		}
		return a
	})
	vfRapid(t, rec, "histories", vfN(240, 6000), func(t *rapid.T) {
		actions := rapid.SliceOfN(actGen, 2, 14).Draw(t, "actions")
		if rapid.Bool().Draw(t, "otherPolicies") {
			actions = append([]c10Action{{Kind: "policies", Set: rapid.IntRange(0, 1).Draw(t, "polset"), N: rapid.SampledFrom([]int{2, 3, 4, 4, 5}).Draw(t, "suiteset")}}, actions...)
		}
		sig, msg, attemptAfter, log := c10Exec(actions)
		if sig != "" {
			rec.Fail(t, sig, actions, "%s | log: %s", msg, strings.Join(log, " ; "))
		}
		rec.EvalHash(attemptAfter, vfHash(actions), func() interface{} { return actions }, fmt.Sprintf("steps:%d", len(actions)))
	})
}

func init() {
	vfRegisterReplay("C10-resumption", func(raw json.RawMessage) error {
		var actions []c10Action
		if err := json.Unmarshal(raw, &actions); err != nil {
			return err
		}
		if sig, msg, _, _ := c10Exec(actions); sig != "" {
			return fmt.Errorf("%s: %s", sig, msg)
		}
		return nil
	})
}
