//go:build verif

package dtlcp

// Datagram-stack part of C03: edits on records inside datagrams and on whole datagrams.

import "fmt"

var c03StackKinds = []string{"ddrop", "ddup", "ddelay", "dtrunc"}

func c03NDatagrams(base *vfPair, dir int) int {
	c2s, s2c := base.vfWire()
	if dir == 0 {
		return len(c2s)
	}
	return len(s2c)
}

func c03StackEdits(base *vfPair, dir, ri int) []c03Edit {
	if ri >= c03NDatagrams(base, dir) {
		return nil
	}
	return []c03Edit{{Kind: "ddrop", Dir: dir, Rec: ri}, {Kind: "ddup", Dir: dir, Rec: ri}, {Kind: "ddelay", Dir: dir, Rec: ri},
		{Kind: "dtrunc", Dir: dir, Rec: ri, Off: 20}}
}

func c03RecordLens(base *vfPair, dir int) []int {
	var out []int
	for _, r := range vfRecordsOf(base, dir) {
		out = append(out, len(r.Raw))
	}
	return out
}

// c03CCSTamper remembers that the payload of a ChangeCipherSpec record was modified in flight
// (cases run one at a time): direction and how many datagrams that side had sent by then.
var c03CCSTamper struct {
	set   bool
	dir   int
	nth   int
	descr string
}

func c03Apply(opt *vfPairOpt, e c03Edit, applied *bool) {
	c03CCSTamper.set = false
	recIdx := 0
	var stash []byte
	opt.Hook = func(from, nth int, data []byte) []vfDelivery {
		if from != e.Dir {
			return []vfDelivery{{Data: data}}
		}
		switch e.Kind {
		case "ddrop":
			if nth == e.Rec {
				*applied = true
				return nil
			}
			return []vfDelivery{{Data: data}}
		case "ddup":
			if nth == e.Rec {
				*applied = true
				return []vfDelivery{{Data: data}, {Data: data}}
			}
			return []vfDelivery{{Data: data}}
		case "ddelay":
			if nth == e.Rec {
				*applied = true
				return []vfDelivery{{Data: data, Delay: 300e6}}
			}
			return []vfDelivery{{Data: data}}
		case "dtrunc":
			if nth == e.Rec && e.Off < len(data) {
				*applied = true
				return []vfDelivery{{Data: data[:e.Off]}}
			}
			return []vfDelivery{{Data: data}}
		}
		recs, ok := vfFrameDatagram(data, nth)
		if !ok {
			return []vfDelivery{{Data: data}}
		}
		var out []byte
		for _, r := range recs {
			raw := append([]byte(nil), r.Raw...)
			idx := recIdx
			recIdx++
			if stash != nil && e.Kind == "swap" && idx == e.Rec+1 {
				out = append(out, raw...)
				out = append(out, stash...)
				stash = nil
				*applied = true
				continue
			}
			if idx != e.Rec {
				out = append(out, raw...)
				continue
			}
			switch e.Kind {
			case "flip":
				if e.Off < len(raw) {
					raw[e.Off] ^= e.Mask
					*applied = true
					if r.Typ == 20 && r.Epoch == 0 && e.Off >= vfRecHdrLen {
						c03CCSTamper.set, c03CCSTamper.dir, c03CCSTamper.nth = true, from, nth
						c03CCSTamper.descr = fmt.Sprintf("payload byte %d xor %#02x", e.Off-vfRecHdrLen, e.Mask)
					}
				}
				out = append(out, raw...)
			case "drop":
				*applied = true
			case "dup":
				*applied = true
				out = append(out, raw...)
				out = append(out, raw...)
			case "swap":
				stash = raw
			case "trunc":
				// cut the datagram inside (or right before) this record
				if e.Off < len(raw) {
					*applied = true
					out = append(out, raw[:e.Off]...)
					return []vfDelivery{{Data: out}}
				}
				out = append(out, raw...)
			case "addext":
				if nr, ok := c03AddExt(raw, e.Off == 1); ok {
					*applied = true
					raw = nr
				}
				out = append(out, raw...)
			case "inject":
				typ, body := c03InjectBody(e.Inj)
				seq := r.Seq + 8
				inj := []byte{typ, 1, 1, byte(r.Epoch >> 8), byte(r.Epoch), byte(seq >> 40), byte(seq >> 32), byte(seq >> 24), byte(seq >> 16), byte(seq >> 8), byte(seq), byte(len(body) >> 8), byte(len(body))}
				inj = append(inj, body...)
				*applied = true
				out = append(out, inj...)
				out = append(out, raw...)
			default:
				out = append(out, raw...)
			}
		}
		if len(out) == 0 {
			return nil
		}
		return []vfDelivery{{Data: out}}
	}
}

// c03StackCheck: on the datagram stack the byte-for-byte clause for handshake messages is decided
// by the independent PRF over the messages as sent (an endpoint may discard a damaged copy and
// accept a retransmission). The ChangeCipherSpec signal is covered by no transcript and no MAC, so
// it is checked here: when its payload was modified in flight and the sender never sent that
// flight again, the modified copy is the one the receiver acted on.
func c03StackCheck(r *vfPair) string {
	if !c03CCSTamper.set {
		return ""
	}
	r.Sim.mu.Lock()
	defer r.Sim.mu.Unlock()
	resent := false
	for _, s := range r.Sim.sent {
		if s.From != c03CCSTamper.dir || s.Nth <= c03CCSTamper.nth {
			continue
		}
		recs, _ := vfFrameDatagram(s.Data, 0)
		for _, rc := range recs {
			if rc.Typ == 20 && rc.Epoch == 0 {
				resent = true
			}
		}
	}
	if resent {
		return ""
	}
	return fmt.Sprintf("the ChangeCipherSpec record of side %d was modified in flight (%s) and never sent again, yet both endpoints completed: the signal the receiver accepted is not the one the sender sent", c03CCSTamper.dir, c03CCSTamper.descr)
}

func c03SetPMTU(c *Config, pmtu int) { c.PMTU = pmtu }
