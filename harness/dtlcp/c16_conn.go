//go:build verif

package dtlcp

// C16b: on an established connection, for generated delivery schedules (originals, duplicates,
// late replays, reorderings, bit-flipped copies, copies with altered epoch / sequence number, records
// sealed under wrong keys), each payload handed to the application was sent by the peer and is
// handed over at most once; forgeries are never delivered and do not change what is accepted.

import (
	"bytes"
	"encoding/json"
	"fmt"
	"testing"
	"time"

	"pgregory.net/rapid"
)

type c16Item struct {
	Idx  int    `json:"i"` // which original datagram
	Kind string `json:"k"` // orig, flip, ver, short, len, epoch, seq, wrongkey, garbage
	Pos  int    `json:"p,omitempty"`
	Mask byte   `json:"m,omitempty"`
	// Join (receiver reading with Read only): this item's record travels in one datagram with the next
	// item's, in front of it
	Join bool `json:"j,omitempty"`
}

type c16Case struct {
	Suite    uint16    `json:"suite"`
	Window   int       `json:"window"`
	N        int       `json:"n"`
	ReadFrom bool      `json:"readfrom"`
	// Mixed: the receiver takes the first 5 bytes of a payload with Read, then calls ReadFrom (which
	// returns the next acceptable datagram, forgeries arriving meanwhile), then collects the rest of
	// the first payload with Read
	Mixed bool      `json:"mixed,omitempty"`
	// StartSeq: the sender's record sequence number is advanced to this value before the payloads
	// are sent (a long-lived connection)
	StartSeq uint64 `json:"startseq,omitempty"`
	// ListenWindow != 0: the server is created with a listener configuration whose ReplayWindow is this
	// value (-1: unset) and whose GetConfigForClient returns the configuration with Window, then in force
	ListenWindow int `json:"listenwindow,omitempty"`
	// Resumed: the connection resumes a session of an earlier one (on the client the read keys are then
	// switched on through the ChangeCipherSpec that shares the server's first datagram)
	Resumed bool `json:"resumed,omitempty"`
	// RecvClient: the server sends, the client (with the configured window) receives
	RecvClient bool `json:"recvclient,omitempty"`
	// Storm: that many copies of payload 1 whose last 16 bytes (with a CBC suite: the block that holds
	// only padding) are overwritten with different values arrive after the first schedule item
	Storm int `json:"storm,omitempty"`
	Sched []c16Item `json:"sched"`
}

// 16 bytes: with the 32-byte MAC a CBC record then ends in a whole block of padding
func c16Payload(i int) []byte { return []byte(fmt.Sprintf("payload-%08d", i)) }

// expand inserts the Storm forged copies of payload 1 (last cipher block overwritten) behind the first item.
func (c c16Case) expand() c16Case {
	if c.Storm > 0 {
		var s []c16Item
		for i, it := range c.Sched {
			s = append(s, it)
			if i == 0 {
				for k := 0; k < c.Storm; k++ {
					s = append(s, c16Item{Idx: 1, Kind: "lastblock", Pos: k, Mask: byte(k >> 8)})
				}
			}
		}
		c.Sched, c.Storm = s, 0
	}
	return c
}

// c16Deliver runs the schedule (optionally without its forgeries) and returns what the receiver's
// application got, in order.
func c16Deliver(c c16Case, withForgeries bool) (got [][]byte, seqs []uint64, firstErr error, sig, msg string) {
	c = c.expand()
	ccfg, scfg := vfBaseConfigs(c.Suite, false)
	si, ri := 0, 1 // sender, receiver
	if c.RecvClient {
		si, ri = 1, 0
		ccfg.ReplayWindow = c.Window
	} else {
		scfg.ReplayWindow = c.Window
	}
	cc, scc := vfNewCapCache(4), vfNewCapCache(4)
	ccfg.SessionCache, scfg.SessionCache = cc, scc
	if c.ListenWindow != 0 && !c.RecvClient {
		l, inner := scfg.Clone(), scfg.Clone()
		l.ReplayWindow = c.ListenWindow
		if l.ReplayWindow == -1 {
			l.ReplayWindow = 0
		}
		l.GetConfigForClient = func(*ClientHelloInfo) (*Config, error) { return inner, nil }
		scfg = l
	}
	var stash [][]byte
	var sim *vfDSim
	capture := false
	opt := vfPairOpt{
		Prepare: func(s *vfDSim, _, _ *Conn) { sim = s },
		Hook: func(from, nth int, data []byte) []vfDelivery {
			if capture && from == si {
				stash = append(stash, data)
				return nil
			}
			return []vfDelivery{{Data: data}}
		},
	}
	var rp *vfPair
	sendAct := func(cn *Conn) error {
		if c.StartSeq > 0 {
			cn.out.Lock()
			cn.writeSeq = uint48(c.StartSeq)
			cn.out.Unlock()
		}
		capture = true
		for i := 0; i < c.N; i++ {
			if _, err := cn.WriteTo(c16Payload(i), cn.RemoteAddr()); err != nil {
				return err
			}
		}
		capture = false
		// wrong-key forgeries: sealed with the reference under the *server's* write key
		keys, kerr := refKeysOfTapsD(sim, cc)
		if kerr != nil {
			// the server may be sending before the client has stored the session
			keys, kerr = refKeysOfTapsD(sim, scc)
		}
		var carry []byte
		defer func() {
			if carry != nil {
				sim.inject(ri, sim.ends[si].addr, carry, 0)
			}
		}()
		for _, it := range c.Sched {
			if it.Idx >= len(stash) {
				continue
			}
			d := append([]byte(nil), stash[it.Idx]...)
			forged := it.Kind != "orig"
			if forged && !withForgeries {
				continue
			}
			switch it.Kind {
			case "flip":
				d[13+it.Pos%(len(d)-13)] ^= it.Mask | 1
			case "ver":
				// the version field of the record header rewritten in flight
				if it.Pos%2 == 0 {
					d[1], d[2] = 0xfe, 0xfd
				} else {
					d[1+it.Pos%4/2] ^= it.Mask | 1
				}
			case "lastblock":
				// the last 16 bytes overwritten (no key needed): with a CBC suite and a payload that fills its
				// blocks this is the block holding nothing but padding
				if len(d) >= 13+32 {
					for j := 0; j < 16; j++ {
						d[len(d)-16+j] = byte(vfHash("lastblock", it.Pos, int(it.Mask), j))
					}
				}
			case "short":
				// a datagram shorter than a record header
				d = d[:it.Pos%13]
			case "len":
				// the length field announces more than the datagram holds (or more than any record may)
				if it.Pos%2 == 0 {
					d[11], d[12] = 0xff, 0xff
				} else {
					n := len(d) - 13 + 1 + it.Pos%200
					d[11], d[12] = byte(n>>8), byte(n)
				}
			case "epoch":
				d[3], d[4] = byte(it.Pos>>8), byte(it.Pos)
				if d[3] == 0 && d[4] == 1 {
					d[4] = 2
				}
			case "seq":
				d[10] ^= it.Mask | 1
				d[9] ^= byte(it.Pos)
			case "wrongkey":
				if kerr != nil {
					continue
				}
				if kerr == nil {
					key, iv, mac := keys.dir(ri == 0) // the receiver's own write keys
					seq := []byte{0, 1, 0, 0, 0, 0, byte(it.Pos >> 8), byte(it.Pos)}
					explicit := append(append([]byte(nil), seq...), make([]byte, 8)...)
					frag := refSeal(keys.GCM, key, iv, mac, seq, 23, [2]byte{1, 1}, explicit, []byte("forged-payload"))
					d = append([]byte{23, 1, 1, 0, 1, 0, 0, 0, 0, byte(it.Pos >> 8), byte(it.Pos), byte(len(frag) >> 8), byte(len(frag))}, frag...)
				}
			case "garbage":
				d = append([]byte{23, 1, 1, 0, 1, 0, 0, 0, 0, 9, byte(it.Pos), 0, 40}, bytes.Repeat([]byte{byte(it.Mask)}, 40)...)
			}
			// a record whose length field is forged (or a datagram cut short) hides whatever follows it in the
			// same datagram from any receiver: those travel alone
			if it.Join && it.Kind != "len" && it.Kind != "short" && !c.ReadFrom && !c.Mixed && len(carry)+len(d) < 1000 {
				carry = append(carry, d...)
				continue
			}
			d = append(carry, d...)
			carry = nil
			sim.inject(ri, sim.ends[si].addr, d, 0)
		}
		return nil
	}
	recvAct := func(cn *Conn) error {
		buf := make([]byte, 200)
		timeout := func(err error) bool {
			te, ok := err.(interface{ Timeout() bool })
			return ok && te.Timeout()
		}
		for i := 0; c.Mixed && i < 10*c.N+50; i++ {
			cn.SetReadDeadline(time.Now().Add(time.Second))
			head := make([]byte, 5)
			n1, err := cn.Read(head)
			if err != nil {
				if !timeout(err) {
					firstErr = err
				}
				return nil
			}
			cn.SetReadDeadline(time.Now().Add(time.Second))
			n2, _, err2 := cn.ReadFrom(buf)
			var other []byte
			if err2 == nil {
				other = append([]byte(nil), buf[:n2]...)
			} else if !timeout(err2) {
				firstErr = err2
				return nil
			}
			cn.SetReadDeadline(time.Now().Add(time.Second))
			tail := make([]byte, 200)
			n3, err3 := cn.Read(tail)
			if err3 != nil {
				if !timeout(err3) {
					firstErr = err3
				}
				return nil
			}
			got = append(got, append(append([]byte(nil), head[:n1]...), tail[:n3]...))
			if other != nil {
				got = append(got, other)
			}
			if err2 != nil {
				return nil
			}
		}
		for i := 0; !c.Mixed && i < 10*c.N+50; i++ {
			cn.SetReadDeadline(time.Now().Add(time.Second))
			var n int
			var err error
			if c.ReadFrom {
				n, _, err = cn.ReadFrom(buf)
			} else {
				n, err = cn.Read(buf)
			}
			if err != nil {
				if te, ok := err.(interface{ Timeout() bool }); ok && te.Timeout() {
					return nil
				}
				firstErr = err
				return nil
			}
			got = append(got, append([]byte(nil), buf[:n]...))
		}
		return nil
	}
	if c.RecvClient {
		opt.CliAct, opt.SrvAct = recvAct, sendAct
	} else {
		opt.CliAct, opt.SrvAct = sendAct, recvAct
	}
	if c.Resumed {
		if r0 := vfRunPair(ccfg, scfg, vfPairOpt{}); r0.CErr != nil || r0.SErr != nil {
			return nil, nil, nil, "honest-failed", fmt.Sprintf("priming handshake: %v / %v", r0.CErr, r0.SErr)
		}
	}
	rp = vfRunPair(ccfg, scfg, opt)
	if rp.CPanic != "" || rp.SPanic != "" {
		return nil, nil, nil, "panic", rp.CPanic + rp.SPanic
	}
	if c.Resumed && (!rp.CS.DidResume || !rp.SS.DidResume) && rp.CErr == nil && rp.SErr == nil {
		return nil, nil, nil, "honest-failed", "the second connection did not resume"
	}
	if rp.CErr != nil || rp.SErr != nil {
		return nil, nil, nil, "honest-failed", fmt.Sprintf("%v / %v", rp.CErr, rp.SErr)
	}
	for _, d := range stash {
		seqs = append(seqs, uint64(d[5])<<40|uint64(d[6])<<32|uint64(d[7])<<24|uint64(d[8])<<16|uint64(d[9])<<8|uint64(d[10]))
	}
	return got, seqs, firstErr, "", ""
}

// refKeysOfTapsD derives the record keys while the conversation is still running.
func refKeysOfTapsD(sim *vfDSim, cache *vfCapCache) (refKeys, error) {
	r := &vfPair{Sim: sim}
	return refKeysOfDgrams(r, cache)
}

func c16Check(c c16Case) (sig, msg string, nontrivial bool) {
	c = c.expand()
	got, seqs, ferr, sig, msg := c16Deliver(c, true)
	if sig != "" {
		return sig, msg, false
	}
	sent := map[string]int{}
	for i := 0; i < c.N; i++ {
		sent[string(c16Payload(i))] = i
	}
	// 1. delivered subset of sent, at most once
	seen := map[string]bool{}
	for _, g := range got {
		if _, ok := sent[string(g)]; !ok {
			return "forged-delivered", fmt.Sprintf("the application received %q, which the peer never sent", g), true
		}
		if seen[string(g)] {
			return "delivered-twice", fmt.Sprintf("payload %q was handed to the application twice", g), true
		}
		seen[string(g)] = true
	}
	if ferr != nil {
		if !c.ReadFrom && vfKnown("F14") {
			return "", "", true
		}
		return "forgery-kills-connection", fmt.Sprintf("the receiver's read failed with %v (schedule with forgeries)", ferr), true
	}
	// 2. a genuine record is accepted the first time it arrives whenever it is newer than every record
	// accepted so far or lies within the guaranteed window behind the newest one
	g := c16Guaranteed(c.Window)
	if c.Window == 0 {
		g = 64
	}
	accepted := map[int]bool{}
	var newest uint64
	any := false
	for _, it := range c.Sched {
		if it.Kind != "orig" || it.Idx >= len(seqs) {
			if it.Kind != "orig" {
				nontrivial = true
			}
			continue
		}
		s := seqs[it.Idx]
		if accepted[it.Idx] {
			nontrivial = true
			continue
		}
		must := !any || s > newest || newest-s < g
		delivered := seen[string(c16Payload(it.Idx))]
		if must && !delivered {
			return "genuine-record-dropped", fmt.Sprintf("payload %d (sequence %d) arrived fresh, %d behind the newest accepted (%d), window %d, but was never delivered", it.Idx, s, int64(newest)-int64(s), newest, c.Window), true
		}
		if delivered {
			accepted[it.Idx] = true
			if !any || s > newest {
				newest = s
			}
			any = true
		}
	}
	// 3. metamorphic: the same schedule without its forgeries delivers the same payloads in the same order
	plain, _, perr, sig2, msg2 := c16Deliver(c, false)
	if sig2 != "" {
		return sig2, msg2, nontrivial
	}
	if perr != nil {
		return "honest-schedule-error", fmt.Sprintf("schedule without forgeries: %v", perr), nontrivial
	}
	if len(plain) != len(got) {
		return "forgery-changes-acceptance", fmt.Sprintf("with forgeries %d payloads were delivered, without them %d", len(got), len(plain)), nontrivial
	}
	for i := range plain {
		if !bytes.Equal(plain[i], got[i]) {
			return "forgery-changes-acceptance", fmt.Sprintf("delivery %d is %q with forgeries and %q without", i, got[i], plain[i]), nontrivial
		}
	}
	return "", "", nontrivial
}

func TestVF_C16_Conn(t *testing.T) {
	rec := vfRec("C16", "C16b-connection", "established connection (full or resumed handshake; the client or the server receiving); the sender emits N unique payloads which the harness holds back and then delivers according to a generated schedule of originals, duplicates, late replays, reorderings, body bit flips, altered version / epoch / sequence / length header fields, datagrams shorter than a record header, the last cipher block overwritten (singly, and 1500 times for a CBC record that ends in a block of padding), records sealed under the wrong direction's key and garbage records, one record per datagram or (receiver reading with Read) two in one datagram; receiver through ReadFrom, through Read, and mixed (short Read, ReadFrom, rest through Read); window sizes 0 (default), 32, 64, 128 and the odd values 1, 8, 31, 33, 65, -5; both cipher modes; the sender's sequence number starting at 1, 250, 65530, 2^32-5, 2^32+7, 2^40 or 2^48-300; oracle: delivered subset of sent, at most once, forgeries never delivered, fresh genuine records within the guaranteed window delivered, same deliveries with and without the forgeries; non-trivial = schedule with a duplicate, a replay or a forgery; distinct = the case")
	vfRapid(t, rec, "schedules", vfN(300, 6000), func(t *rapid.T) {
		c := c16Case{Suite: rapid.SampledFrom([]uint16{ECC_SM4_GCM_SM3, ECC_SM4_CBC_SM3}).Draw(t, "suite"), Window: rapid.SampledFrom([]int{0, 32, 64, 128, 1, 8, 31, 33, 65, -5}).Draw(t, "window"),
			N: rapid.SampledFrom([]int{3, 8, 40, 100}).Draw(t, "n"), ReadFrom: rapid.Bool().Draw(t, "readfrom"), Mixed: rapid.IntRange(0, 3).Draw(t, "mixed") == 0,
			StartSeq: rapid.SampledFrom([]uint64{0, 0, 0, 250, 65530, 1<<32 - 5, 1<<32 + 7, 1 << 40, 1<<48 - 300}).Draw(t, "startseq")}
		if rapid.IntRange(0, 3).Draw(t, "listen") == 0 {
			c.ListenWindow = rapid.SampledFrom([]int{-1, 32, 64, 128, 8}).Draw(t, "listenwindow")
		}
		c.Resumed = rapid.IntRange(0, 2).Draw(t, "resumed") == 0
		c.RecvClient = rapid.IntRange(0, 2).Draw(t, "recvclient") == 0
		n := rapid.IntRange(1, 2*c.N+4).Draw(t, "len")
		cursor := 0
		for i := 0; i < n; i++ {
			it := c16Item{Kind: rapid.SampledFrom([]string{"orig", "orig", "orig", "orig", "orig", "flip", "epoch", "seq", "ver", "ver", "short", "len", "lastblock", "wrongkey", "garbage"}).Draw(t, "kind")}
			switch rapid.IntRange(0, 4).Draw(t, "which") {
			case 0, 1: // next in order
				it.Idx = cursor
				if it.Kind == "orig" && cursor < c.N-1 {
					cursor++
				}
			case 2: // jump ahead (burst loss)
				cursor += rapid.IntRange(1, 70).Draw(t, "jump")
				if cursor >= c.N {
					cursor = c.N - 1
				}
				it.Idx = cursor
			case 3: // something earlier (late or replayed)
				it.Idx = rapid.IntRange(0, cursor).Draw(t, "earlier")
			case 4:
				it.Idx = rapid.IntRange(0, c.N-1).Draw(t, "any")
			}
			it.Pos = rapid.IntRange(0, 300).Draw(t, "pos")
			it.Mask = byte(rapid.IntRange(1, 255).Draw(t, "mask"))
			it.Join = rapid.IntRange(0, 5).Draw(t, "join") == 0
			c.Sched = append(c.Sched, it)
		}
		sig, msg, nt := c16Check(c)
		if sig != "" {
			rec.Fail(t, sig, c, "%s", msg)
		}
		api := "Read"
		if c.ReadFrom {
			api = "ReadFrom"
		}
		if c.Mixed {
			api = "mixed"
		}
		rec.EvalHash(nt, vfHash(c), func() interface{} {
			s := c
			if len(s.Sched) > 10 {
				s.Sched = s.Sched[:10]
			}
			return s
		}, api, fmt.Sprintf("window:%d", c.Window))
	})
	// directed: duplicate right after a jump of at least one window (the newest record must be marked)
	idx := 0
	for _, w := range []int{0, 32, 64} {
		for _, jump := range []int{31, 32, 33, 63, 64, 65, 90} {
			for _, rf := range []bool{true, false} {
				idx++
				c := c16Case{Suite: ECC_SM4_GCM_SM3, Window: w, N: 100, ReadFrom: rf,
					Sched: []c16Item{{Idx: 0, Kind: "orig"}, {Idx: jump, Kind: "orig"}, {Idx: jump, Kind: "orig"}, {Idx: 0, Kind: "orig"}, {Idx: jump, Kind: "orig"}, {Idx: jump + 1, Kind: "orig"}}}
				sig, msg, _ := c16Check(c)
				if sig != "" {
					rec.Violation(sig, c, "%s", msg)
				}
				rec.Eval(true, c, "directed-jump")
			}
		}
	}
	// CBC: 1500 forged copies of a record whose last block (only padding) is overwritten, the genuine copy
	// never arrives: nothing of it may be delivered
	for _, suite := range []uint16{ECC_SM4_CBC_SM3, ECDHE_SM4_CBC_SM3} {
		for _, rf := range []bool{true, false} {
			idx++
			if !vfMine(idx) {
				continue
			}
			c := c16Case{Suite: suite, N: 3, ReadFrom: rf, Storm: 1500, Sched: []c16Item{{Idx: 0, Kind: "orig"}, {Idx: 2, Kind: "orig"}}}
			sig, msg, _ := c16Check(c)
			if sig != "" {
				rec.Violation(sig, c, "%s", msg)
			}
			rec.Eval(true, c, "padding-block-storm")
		}
	}
	if vfKnown("F14") {
		_, _, ferr, _, _ := c16Deliver(c16Case{Suite: ECC_SM4_GCM_SM3, N: 3, Sched: []c16Item{{Idx: 0, Kind: "orig"}, {Idx: 1, Kind: "flip", Pos: 20, Mask: 1}, {Idx: 1, Kind: "orig"}}}, true)
		rec.Known("F14", ferr != nil)
	}
}

func init() {
	vfRegisterReplay("C16b-connection", func(raw json.RawMessage) error {
		var c c16Case
		if err := json.Unmarshal(raw, &c); err != nil {
			return err
		}
		if sig, msg, _ := c16Check(c); sig != "" {
			return fmt.Errorf("%s: %s", sig, msg)
		}
		return nil
	})
}
