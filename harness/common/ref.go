//go:build verif

package vfpkg

//vf:pkgs tlcp dtlcp

// Independent reference for the key schedule and record protection, written from
// GB/T 38636-2020 6.3/6.5 (and GM/T 0128 for the 13-byte datagram header), sharing only the gmsm
// primitives (SM3, SM4, HMAC) with the library. Nothing here calls library code.

import (
	"crypto/cipher"
	"crypto/hmac"
	"crypto/subtle"
	"errors"

	"github.com/emmansun/gmsm/sm3"
	"github.com/emmansun/gmsm/sm4"
)

func refSM3(b ...[]byte) []byte {
	h := sm3.New()
	for _, x := range b {
		h.Write(x)
	}
	return h.Sum(nil)
}

func refHMAC(key []byte, b ...[]byte) []byte {
	h := hmac.New(sm3.New, key)
	for _, x := range b {
		h.Write(x)
	}
	return h.Sum(nil)
}

// refPHash: P_SM3(secret, seed) = HMAC(secret, A(1)||seed) || HMAC(secret, A(2)||seed) ...,
// A(0)=seed, A(i)=HMAC(secret, A(i-1)).
func refPHash(secret, seed []byte, n int) []byte {
	var out []byte
	a := seed
	for len(out) < n {
		a = refHMAC(secret, a)
		out = append(out, refHMAC(secret, a, seed)...)
	}
	return out[:n]
}

func refPRF(secret []byte, label string, seed []byte, n int) []byte {
	return refPHash(secret, append([]byte(label), seed...), n)
}

func refCat(b ...[]byte) []byte {
	var out []byte
	for _, x := range b {
		out = append(out, x...)
	}
	return out
}

func refMaster(pre, clientRandom, serverRandom []byte) []byte {
	return refPRF(pre, "master secret", refCat(clientRandom, serverRandom), 48)
}

type refKeys struct {
	GCM                          bool
	CMAC, SMAC, CKey, SKey, CIV, SIV []byte
}

// refKeyBlock: PRF(master, "key expansion", server_random || client_random) cut in the order
// client MAC, server MAC, client key, server key, client IV, server IV.
func refKeyBlock(master, clientRandom, serverRandom []byte, gcm bool) refKeys {
	macLen, keyLen, ivLen := 32, 16, 16
	if gcm {
		macLen, ivLen = 0, 4
	}
	kb := refPRF(master, "key expansion", refCat(serverRandom, clientRandom), 2*macLen+2*keyLen+2*ivLen)
	cut := func(n int) []byte { x := kb[:n]; kb = kb[n:]; return x }
	return refKeys{gcm, cut(macLen), cut(macLen), cut(keyLen), cut(keyLen), cut(ivLen), cut(ivLen)}
}

func (k refKeys) dir(client bool) (key, iv, mac []byte) {
	if client {
		return k.CKey, k.CIV, k.CMAC
	}
	return k.SKey, k.SIV, k.SMAC
}

func refFinished(master []byte, client bool, transcript []byte) []byte {
	label := "server finished"
	if client {
		label = "client finished"
	}
	return refPRF(master, label, refSM3(transcript), 12)
}

var errRefShort = errors.New("ref: fragment too short")
var errRefAuth = errors.New("ref: authentication failed")

// refOpen opens one protected fragment. seq is the 8-byte sequence number input (TLCP: implicit
// 64-bit counter; DTLCP: epoch || 48-bit sequence number from the record header).
func refOpen(gcm bool, key, iv, mac []byte, seq []byte, typ byte, ver [2]byte, frag []byte) ([]byte, error) {
	blk, err := sm4.NewCipher(key)
	if err != nil {
		return nil, err
	}
	if gcm {
		if len(frag) < 8+16 {
			return nil, errRefShort
		}
		a, _ := cipher.NewGCM(blk)
		nonce := refCat(iv, frag[:8])
		ptLen := len(frag) - 8 - 16
		aad := refCat(seq, []byte{typ, ver[0], ver[1], byte(ptLen >> 8), byte(ptLen)})
		pt, err := a.Open(nil, nonce, frag[8:], aad)
		if err != nil {
			return nil, errRefAuth
		}
		return pt, nil
	}
	if len(frag)%16 != 0 || len(frag) < 16+48 {
		return nil, errRefShort
	}
	dec := cipher.NewCBCDecrypter(blk, frag[:16])
	pt := make([]byte, len(frag)-16)
	dec.CryptBlocks(pt, frag[16:])
	pad := int(pt[len(pt)-1])
	if pad+1+32 > len(pt) {
		return nil, errRefAuth
	}
	for _, b := range pt[len(pt)-1-pad:] {
		if int(b) != pad {
			return nil, errRefAuth
		}
	}
	body := pt[:len(pt)-1-pad-32]
	tag := pt[len(body) : len(body)+32]
	want := refHMAC(mac, seq, []byte{typ, ver[0], ver[1], byte(len(body) >> 8), byte(len(body))}, body)
	if subtle.ConstantTimeCompare(want, tag) != 1 {
		return nil, errRefAuth
	}
	return body, nil
}

// refSeal protects one fragment (used by the harness to inject correctly protected records).
// explicit: 8-byte explicit nonce (GCM) or 16-byte IV (CBC).
func refSeal(gcm bool, key, iv, mac []byte, seq []byte, typ byte, ver [2]byte, explicit, pt []byte) []byte {
	return refSealPad(gcm, key, iv, mac, seq, typ, ver, explicit, pt, 0)
}

// refSealPad is refSeal with extraBlocks additional 16-byte blocks of CBC padding (the standard
// allows up to 255 padding bytes; the library's own writer always uses the minimum).
func refSealPad(gcm bool, key, iv, mac []byte, seq []byte, typ byte, ver [2]byte, explicit, pt []byte, extraBlocks int) []byte {
	blk, _ := sm4.NewCipher(key)
	if gcm {
		a, _ := cipher.NewGCM(blk)
		aad := refCat(seq, []byte{typ, ver[0], ver[1], byte(len(pt) >> 8), byte(len(pt))})
		return a.Seal(append([]byte(nil), explicit[:8]...), refCat(iv, explicit[:8]), pt, aad)
	}
	tag := refHMAC(mac, seq, []byte{typ, ver[0], ver[1], byte(len(pt) >> 8), byte(len(pt))}, pt)
	body := refCat(pt, tag)
	pad := 16 - (len(body)+1)%16
	if pad == 16 {
		pad = 0
	}
	pad += 16 * extraBlocks
	if pad > 255 {
		pad -= 16 * ((pad - 255 + 15) / 16)
	}
	for i := 0; i <= pad; i++ {
		body = append(body, byte(pad))
	}
	enc := cipher.NewCBCEncrypter(blk, explicit[:16])
	out := make([]byte, len(body))
	enc.CryptBlocks(out, body)
	return refCat(explicit[:16], out)
}

func refSeq64(n uint64) []byte {
	return []byte{byte(n >> 56), byte(n >> 48), byte(n >> 40), byte(n >> 32), byte(n >> 24), byte(n >> 16), byte(n >> 8), byte(n)}
}

// refCBCRaw encrypts whole blocks as given (no MAC, no padding added): for hostile records whose
// plaintext structure the sender chooses freely.
func refCBCRaw(key, iv16, blocks []byte) []byte {
	blk, _ := sm4.NewCipher(key)
	enc := cipher.NewCBCEncrypter(blk, iv16[:16])
	out := make([]byte, len(blocks))
	enc.CryptBlocks(out, blocks)
	return refCat(iv16[:16], out)
}
