//go:build verif

package dtlcp

// Pair runner for the datagram stack: two unmodified endpoints over the virtual-time simulator.

import (
	"errors"
	"fmt"
	"io"
	"time"
)

type vfPairOpt struct {
	Faults []vfFault
	Tie    int
	Hook   func(from, nth int, data []byte) []vfDelivery
	// CliAct/SrvAct run after a successful handshake in the endpoint's driving goroutine.
	CliAct, SrvAct func(c *Conn) error
	Horizon        time.Duration
	Prepare        func(sim *vfDSim, cli, srv *Conn)
	SrvAddr string // address of the server end (the client's session cache is keyed by it)
	// KeepOpen exists for parity with the stream stack's runner (datagram endpoints are never closed by the runner).
	KeepOpen bool
	// FaultsDuringApp keeps the fault plan active after both handshakes completed.
	FaultsDuringApp bool
	// Snaps: further durations that read deadlines may be snapped to (configured retransmission timeouts)
	Snaps []time.Duration
	// InPlace: the endpoints use the caller's Config objects themselves (the virtual timer factory is
	// written into them) instead of clones, for checks about state a Config accumulates through use
	InPlace bool
}

type vfPair struct {
	CErr, SErr     error
	CAct, SAct     error
	CPanic, SPanic string
	Stalled        bool // the simulation got stuck, span or exceeded the horizon
	RunErr         error
	CS, SS         ConnectionState
	CFin, SFin     [2][12]byte
	Cli, Srv       *Conn
	Sim            *vfDSim
	CDoneAt, SDoneAt time.Duration // virtual completion times of the two Handshake calls
}

const vfStack = "dtlcp"

func vfRunPair(ccfg, scfg *Config, opt vfPairOpt) *vfPair {
	sim := vfNewDSim(opt.Faults, opt.Tie)
	sim.hook = opt.Hook
	if opt.SrvAddr != "" {
		sim.ends[1].addr = vfDAddr(opt.SrvAddr)
	}
	cc, sc := ccfg, scfg
	if !opt.InPlace {
		cc, sc = ccfg.Clone(), scfg.Clone()
	}
	cc.NewTimer, sc.NewTimer = sim.newTimer, sim.newTimer
	if g := sc.GetConfigForClient; g != nil && !opt.InPlace {
		// a per-client configuration runs on the virtual clock too
		sc.GetConfigForClient = func(h *ClientHelloInfo) (*Config, error) {
			c, err := g(h)
			if c != nil {
				c.NewTimer = sim.newTimer
			}
			return c, err
		}
	}
	cli := Client(sim.ends[0], sim.ends[1].addr, cc)
	srv := Server(sim.ends[1], sim.ends[0].addr, sc)
	if opt.Prepare != nil {
		opt.Prepare(sim, cli, srv)
	}
	sim.snaps = append(sim.snaps, opt.Snaps...)
	// The library measures its dwell period (answering retransmissions of the peer's last flight after
	// completion) on the wall clock; under virtual time the deadline is aged by what the simulated
	// clock advances, so that the period means what it says.
	sim.onAdvance = func(d time.Duration) {
		for _, cn := range []*Conn{cli, srv} {
			if !cn.dwellDeadline.IsZero() {
				cn.dwellDeadline = cn.dwellDeadline.Add(-d)
			}
		}
	}
	r := &vfPair{Cli: cli, Srv: srv, Sim: sim}
	cdone, sdone := make(chan struct{}), make(chan struct{})
	completed := 0
	hsDone := func() {
		sim.mu.Lock()
		completed++
		if completed == 2 && !opt.FaultsDuringApp {
			sim.faultsOff = true
		}
		sim.mu.Unlock()
	}
	go func() {
		defer close(cdone)
		defer sim.ends[0].markDone()
		r.CPanic = vfRecover(func() {
			r.CErr = cli.Handshake()
			sim.mu.Lock()
			r.CDoneAt = sim.now
			sim.mu.Unlock()
			if r.CErr != nil {
				return
			}
			hsDone()
			if opt.CliAct != nil {
				r.CAct = opt.CliAct(cli)
			}
		})
	}()
	go func() {
		defer close(sdone)
		defer sim.ends[1].markDone()
		r.SPanic = vfRecover(func() {
			r.SErr = srv.Handshake()
			sim.mu.Lock()
			r.SDoneAt = sim.now
			sim.mu.Unlock()
			if r.SErr != nil {
				return
			}
			hsDone()
			if opt.SrvAct != nil {
				r.SAct = opt.SrvAct(srv)
			}
		})
	}()
	h := opt.Horizon
	if h == 0 {
		h = 200 * time.Second
	}
	r.RunErr = sim.run(h)
	if r.RunErr != nil {
		r.Stalled = true
		sim.ends[0].Close()
		sim.ends[1].Close()
	}
	<-cdone
	<-sdone
	r.CS, r.SS = cli.ConnectionState(), srv.ConnectionState()
	r.CFin = [2][12]byte{cli.clientFinished, cli.serverFinished}
	r.SFin = [2][12]byte{srv.clientFinished, srv.serverFinished}
	return r
}

// vfWire returns the datagrams each side handed to the network.
func (r *vfPair) vfWire() (c2s, s2c [][]byte) {
	r.Sim.mu.Lock()
	defer r.Sim.mu.Unlock()
	for _, s := range r.Sim.sent {
		if s.From == 0 {
			c2s = append(c2s, s.Data)
		} else {
			s2c = append(s2c, s.Data)
		}
	}
	return
}

func vfSendAll(c *Conn, p []byte) error {
	n, err := c.Write(p)
	if err != nil {
		return fmt.Errorf("write: %w", err)
	}
	if n != len(p) {
		return fmt.Errorf("write reported %d of %d bytes", n, len(p))
	}
	return nil
}

// vfRecvN reads exactly n bytes through Read (which hands out record payloads in order).
func vfRecvN(c *Conn, n int) ([]byte, error) {
	buf := make([]byte, n)
	got := 0
	for got < n {
		m, err := c.Read(buf[got:])
		got += m
		if err != nil {
			if err == io.EOF && got == n {
				break
			}
			return buf[:got], fmt.Errorf("read after %d of %d bytes: %w", got, n, err)
		}
		if m == 0 {
			return buf[:got], errors.New("read returned 0, nil")
		}
	}
	return buf, nil
}

// vfServerHelloSuite parses the cipher suite out of the (first) ServerHello as it appeared on the wire.
func vfServerHelloSuite(r *vfPair) (uint16, bool) {
	_, s2c := r.vfWire()
	for _, d := range s2c {
		for len(d) >= 13 {
			n := int(d[11])<<8 | int(d[12])
			if 13+n > len(d) {
				break
			}
			body := d[13 : 13+n]
			if d[0] == 22 && d[3] == 0 && d[4] == 0 && len(body) >= 12 && body[0] == typeServerHello &&
				body[6] == 0 && body[7] == 0 && body[8] == 0 {
				hs := body[12:]
				if len(hs) < 2+32+1 {
					return 0, false
				}
				p := 2 + 32
				sid := int(hs[p])
				p += 1 + sid
				if len(hs) < p+2 {
					return 0, false
				}
				return uint16(hs[p])<<8 | uint16(hs[p+1]), true
			}
			d = d[13+n:]
		}
	}
	return 0, false
}
