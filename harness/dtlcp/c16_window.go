//go:build verif

package dtlcp

// C16a: the replay window against a set-based reference with exactly the latitude the property
// grants: never accept a sequence number twice; must accept a fresh number that is newer than
// every accepted one or lies less than G = max(32, min(configured, 64)) behind the newest;
// anything further behind may go either way.

import (
	"encoding/json"
	"fmt"
	"testing"

	"pgregory.net/rapid"
)

type c16WCase struct {
	Size int      `json:"size"`
	Seqs []uint64 `json:"seqs"`
}

func c16Guaranteed(size int) uint64 {
	g := size
	if g > 64 {
		g = 64
	}
	if g < 32 {
		g = 32
	}
	return uint64(g)
}

// c16WRun returns "" or the first disagreement; replayClass tells whether a duplicate was offered.
func c16WRun(c c16WCase) (sig, msg string, dupOffered, farBehind bool) {
	w := newReplayWindow(c.Size)
	accepted := map[uint64]bool{}
	var newest uint64
	any := false
	g := c16Guaranteed(c.Size)
	for i, s := range c.Seqs {
		got := w.check(uint48(s))
		if accepted[s] {
			dupOffered = true
			if got {
				return "window-replay-accepted", fmt.Sprintf("size %d: sequence number %d accepted a second time at step %d (newest accepted %d, %d behind)", c.Size, s, i, newest, newest-s), dupOffered, farBehind
			}
			continue
		}
		must := !any || s > newest || newest-s < g
		if any && s < newest && newest-s >= 32 {
			farBehind = true
		}
		if must && !got {
			return "window-fresh-rejected", fmt.Sprintf("size %d: fresh sequence number %d rejected at step %d (newest accepted %d, guaranteed window %d)", c.Size, s, i, newest, g), dupOffered, farBehind
		}
		if got {
			accepted[s] = true
			if !any || s > newest {
				newest = s
			}
			any = true
		}
	}
	return "", "", dupOffered, farBehind
}

func TestVF_C16_Window(t *testing.T) {
	rec := vfRec("C16", "C16a-window", "replayWindow.check against a set-based reference: for every configured size 0,1,31..160 all delivery sequences (with repetition) up to a length bound over boundary-relevant sequence numbers, then rapid long sequences; non-trivial = sequence offers a duplicate or a number >= 32 behind the newest; distinct = hash(size, sequence)")
	sizes := []int{0, 1}
	for s := 31; s <= 160; s++ {
		sizes = append(sizes, s)
	}
	depth := 4
	if vfThorough() {
		depth = 5
	}
	total := 0
	idx := 0
	for _, size := range sizes {
		g := c16Guaranteed(size)
		eff := uint64(size)
		if eff < 32 {
			eff = 32
		}
		base := uint64(1000)
		// boundary-relevant numbers relative to a newest value of base
		cand := map[uint64]bool{0: true, 1: true, base: true, base + 1: true, base - 1: true, base - 31: true, base - 32: true, base - 33: true,
			base - 63: true, base - 64: true, base - 65: true, base - g + 1: true, base - g: true, base - eff + 1: true, base - eff: true, base - eff - 1: true,
			base + eff: true, base + 64: true, 1<<48 - 1: true}
		var alpha []uint64
		for k := range cand {
			alpha = append(alpha, k)
		}
		// deterministic order
		for i := 0; i < len(alpha); i++ {
			for j := i + 1; j < len(alpha); j++ {
				if alpha[j] < alpha[i] {
					alpha[i], alpha[j] = alpha[j], alpha[i]
				}
			}
		}
		for d := 1; d <= depth; d++ {
			// the quick tier enumerates depth 4 only for a subset of sizes
			if d >= 4 && !vfThorough() && !(size <= 33 || (size >= 62 && size <= 66) || size == 100 || size == 128 || size == 160) {
				continue
			}
			if d >= 5 && !(size <= 33 || (size >= 63 && size <= 65) || size == 128 || size == 160) {
				continue
			}
			seq := make([]int, d)
			for {
				idx++
				total++
				if vfMine(idx) {
					c := c16WCase{Size: size, Seqs: make([]uint64, d)}
					for i, a := range seq {
						c.Seqs[i] = alpha[a]
					}
					sig, msg, dup, far := c16WRun(c)
					if sig != "" {
						if sig == "window-replay-accepted" && size > 64 && vfKnown("F7") {
							rec.Excluded("F7")
						} else {
							rec.Violation(sig, c, "%s", msg)
						}
					}
					rec.EvalHash(dup || far, vfHash(size, c.Seqs), func() interface{} { return c })
				}
				i := d - 1
				for i >= 0 {
					seq[i]++
					if seq[i] < len(alpha) {
						break
					}
					seq[i] = 0
					i--
				}
				if i < 0 {
					break
				}
			}
		}
	}
	rec.SetExhaustive(false, fmt.Sprintf("exhaustive part: %d sequences over ~19 boundary numbers per size, 132 sizes, depth <= %d (depth 4/5 on boundary sizes only); random part sampled", total, depth))
	vfRapid(t, rec, "long", vfN(4000, 100000), func(t *rapid.T) {
		size := rapid.OneOf(rapid.IntRange(0, 200), rapid.SampledFrom([]int{32, 63, 64, 65, 128})).Draw(t, "size")
		n := rapid.IntRange(1, 200).Draw(t, "n")
		c := c16WCase{Size: size}
		cur := uint64(rapid.IntRange(0, 300).Draw(t, "start"))
		for i := 0; i < n; i++ {
			switch rapid.IntRange(0, 5).Draw(t, "kind") {
			case 0, 1: // advance
				cur += uint64(rapid.IntRange(1, 70).Draw(t, "adv"))
				c.Seqs = append(c.Seqs, cur)
			case 2: // behind
				b := uint64(rapid.IntRange(0, 200).Draw(t, "behind"))
				if b <= cur {
					c.Seqs = append(c.Seqs, cur-b)
				}
			case 3: // replay an earlier one
				if len(c.Seqs) > 0 {
					c.Seqs = append(c.Seqs, c.Seqs[rapid.IntRange(0, len(c.Seqs)-1).Draw(t, "re")])
				}
			case 4:
				cur += uint64(rapid.IntRange(1, 3).Draw(t, "adv1"))
				c.Seqs = append(c.Seqs, cur)
			case 5:
				c.Seqs = append(c.Seqs, uint64(rapid.Uint64Range(0, 1<<48-1).Draw(t, "any")))
			}
		}
		sig, msg, dup, far := c16WRun(c)
		if sig != "" {
			if sig == "window-replay-accepted" && size > 64 && vfKnown("F7") {
				rec.Excluded("F7")
				return
			}
			rec.Fail(t, sig, c, "%s", msg)
		}
		rec.EvalHash(dup || far, vfHash(c.Size, c.Seqs), func() interface{} { return c })
	})
	if vfKnown("F7") {
		sig, _, _, _ := c16WRun(c16WCase{Size: 160, Seqs: []uint64{200, 100, 100}})
		rec.Known("F7", sig != "")
	}
}

func init() {
	vfRegisterReplay("C16a-window", func(raw json.RawMessage) error {
		var c c16WCase
		if err := json.Unmarshal(raw, &c); err != nil {
			return err
		}
		if sig, msg, _, _ := c16WRun(c); sig != "" {
			return fmt.Errorf("%s: %s", sig, msg)
		}
		return nil
	})
}
