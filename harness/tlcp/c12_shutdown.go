//go:build verif

package tlcp

// C12: shutdown, end-of-stream and errors are reported faithfully and stay reported (stream stack).
// Three generated families: (a) transport end at every byte offset under several chunkings, with
// and without close-notify; (b) incoming alerts of every level and code; (c) API histories
// (Close, CloseWrite, failed handshakes, early application data, context cancellation at every
// transport operation of the handshake).

import (
	"bytes"
	"context"
	"encoding/json"
	"errors"
	"fmt"
	"io"
	"net"
	"sync"
	"testing"
	"time"

	"pgregory.net/rapid"
)

// ---------------------------------------------------------------------------- (a) end of stream

type c12EOFCase struct {
	Suite  uint16 `json:"suite"`
	Dir    int    `json:"dir"`    // 0: client sends, server reads
	Writes []int  `json:"writes"` // one record each
	Close  int    `json:"close"`  // 0: sender just stops, 1: Close (close-notify), 2: CloseWrite
	Cut    int    `json:"cut"`    // bytes of the post-handshake stream that still arrive (-1: all)
	Chunk  int    `json:"chunk"`  // 0 whole, 1 one byte per transport read, 2 record-aligned (a partial tail arrives in its own read); +3: the transport reports io.EOF together with the last bytes (n > 0, io.EOF in one call)
	Buf    int    `json:"buf"`
}

func c12RunEOF(c c12EOFCase) (sig, msg string, nontrivial bool) {
	ccfg, scfg := vfBaseConfigs(c.Suite, false)
	var plain [][]byte
	for i, n := range c.Writes {
		plain = append(plain, c01Payload(n, byte(i+9)))
	}
	var sim *vfStream
	// stage the sender's post-handshake records instead of delivering them, then deliver a prefix
	var staged []byte
	seenCCS, seenFin := false, false
	edit := func(idx int, rec []byte) [][]byte {
		if rec[0] == 20 {
			seenCCS = true
			return [][]byte{rec}
		}
		if seenCCS && !seenFin {
			seenFin = true // the sender's Finished
			return [][]byte{rec}
		}
		if !seenFin {
			return [][]byte{rec}
		}
		staged = append(staged, rec...)
		return nil
	}
	var got []byte
	var firstErr error
	later := false
	senderDone := make(chan struct{})
	send := func(cn *Conn) error {
		defer close(senderDone)
		for _, p := range plain {
			if len(p) == 0 {
				continue
			}
			if err := vfSendAll(cn, p); err != nil {
				return err
			}
		}
		switch c.Close {
		case 1:
			cn.Close()
		case 2:
			cn.CloseWrite()
		}
		return nil
	}
	recv := func(cn *Conn) error {
		<-senderDone
		// deliver the chosen prefix with the chosen chunking, then end the transport
		sim.mu.Lock()
		data := staged
		if c.Cut >= 0 && c.Cut < len(data) {
			data = data[:c.Cut]
		}
		e := sim.ends[1-c.Dir]
		e.in = append(e.in, data...)
		e.inEOF = true
		recs, rest := vfSplitRecords(data)
		var sched []int
		e.eofWithData = c.Chunk >= 3
		switch c.Chunk % 3 {
		case 1:
			e.seg = func(int) int { return 1 }
		case 2:
			for _, r := range recs {
				sched = append(sched, len(r))
			}
			if len(rest) > 0 {
				sched = append(sched, len(rest))
			}
			k := 0
			e.seg = func(avail int) int {
				if k < len(sched) {
					k++
					return sched[k-1]
				}
				return avail
			}
		}
		sim.cond.Broadcast()
		sim.mu.Unlock()
		bs := c.Buf
		if bs <= 0 {
			bs = 4096
		}
		buf := make([]byte, bs)
		for i := 0; i < 100000; i++ {
			n, err := cn.Read(buf)
			got = append(got, buf[:n]...)
			if err != nil {
				firstErr = err
				break
			}
			if n == 0 {
				firstErr = errors.New("harness: Read returned (0, nil)")
				return nil
			}
		}
		for i := 0; i < 3; i++ {
			n, err := cn.Read(buf)
			if n != 0 || err == nil {
				later = true
			}
		}
		return nil
	}
	opt := vfPairOpt{Prepare: func(s *vfStream, _, _ *Conn) { sim = s; s.monitor = false }}
	opt.Edit[c.Dir] = edit
	if c.Dir == 0 {
		opt.CliAct, opt.SrvAct = send, recv
	} else {
		opt.CliAct, opt.SrvAct = recv, send
	}
	r := vfRunPair(ccfg, scfg, opt)
	if r.CPanic != "" || r.SPanic != "" {
		return "panic", r.CPanic + r.SPanic, false
	}
	if r.CErr != nil || r.SErr != nil {
		return "honest-failed", fmt.Sprintf("%v / %v", r.CErr, r.SErr), false
	}
	// oracle
	recs, _ := vfSplitRecords(staged)
	cut := c.Cut
	if cut < 0 || cut > len(staged) {
		cut = len(staged)
	}
	var want []byte
	pos, whole := 0, 0
	for _, rec := range recs {
		if pos+len(rec) > cut {
			break
		}
		pos += len(rec)
		whole++
	}
	nData := 0
	for _, p := range plain {
		if len(p) > 0 {
			nData++
		}
	}
	for i, j := 0, 0; i < len(plain) && j < whole; i++ {
		if len(plain[i]) == 0 {
			continue
		}
		want = append(want, plain[i]...)
		j++
	}
	closeNotifyArrived := c.Close != 0 && whole == len(recs) && len(recs) == nData+1
	atBoundary := pos == cut
	if !bytes.Equal(got, want) {
		return "eof-data", fmt.Sprintf("reader got %d bytes, the whole records that arrived carry %d (cut %d of %d, chunking %d)", len(got), len(want), cut, len(staged), c.Chunk), true
	}
	if firstErr == nil {
		return "eof-no-error", "reader never saw an error", true
	}
	if later {
		return "eof-not-sticky", fmt.Sprintf("after %v a later Read succeeded", firstErr), true
	}
	switch {
	case closeNotifyArrived || atBoundary:
		if firstErr != io.EOF {
			return "eof-kind", fmt.Sprintf("stream ended cleanly (close-notify=%v, record boundary=%v) but Read reported %v", closeNotifyArrived, atBoundary, firstErr), true
		}
	default:
		if firstErr == io.EOF {
			return "truncation-as-eof", fmt.Sprintf("transport ended %d bytes into a record (cut %d, chunking %d) but Read reported io.EOF", cut-pos, cut, c.Chunk), true
		}
		if !errors.Is(firstErr, io.ErrUnexpectedEOF) {
			return "truncation-kind", fmt.Sprintf("transport ended inside a record but Read reported %v, want io.ErrUnexpectedEOF", firstErr), true
		}
	}
	return "", "", cut < len(staged) || c.Close != 0
}

// ---------------------------------------------------------------------------- (b) alerts

type c12AlertCase struct {
	Client bool   `json:"client"` // endpoint under test is the client
	Suite  uint16 `json:"suite"`
	Level  byte   `json:"level"`
	Code   byte   `json:"code"`
	During bool   `json:"during"` // alert arrives during the handshake instead of after it
}

func c12RunAlert(c c12AlertCase) (sig, msg string) {
	p := vfGetPKI()
	ccfg := &Config{Time: vfTime, RootCAs: p.A.pool, ServerName: vfServerName, CipherSuites: []uint16{c.Suite}}
	scfg := &Config{Time: vfTime, Certificates: []Certificate{p.SrvSig, p.SrvEnc}, CipherSuites: []uint16{c.Suite}}
	var peer func(pc *Conn) error
	var ucfg, pcfg *Config
	tail := func(pc *Conn) error {
		if err := vfPeerRawRecord(pc, recordTypeApplicationData, []byte("before")); err != nil {
			return nil
		}
		vfPeerAlert(pc, c.Level, c.Code)
		vfPeerRawRecord(pc, recordTypeApplicationData, []byte("after"))
		return nil
	}
	if c.Client {
		ucfg, pcfg = ccfg, scfg
		peer = func(pc *Conn) error {
			sp := vfNewSrvPeer(pc)
			if err := sp.ReadClientHello(); err != nil {
				return err
			}
			sp.PickSuite(0)
			sp.SendServerHello(vfSHOpt{})
			if c.During {
				vfPeerAlert(pc, c.Level, c.Code)
			}
			sp.SendCertificate([][]byte{p.SrvSig.Certificate[0], p.SrvEnc.Certificate[0]})
			sp.SendSKX(vfSKXOpt{})
			sp.SendHelloDone()
			if !vfPeerPending(pc) {
				return nil
			}
			if err := sp.ReadClientFlight(false); err != nil {
				return err
			}
			sp.EstablishKeys()
			if err := sp.ReadClientFinished(); err != nil {
				return err
			}
			sp.SendCCS()
			sp.SendFinished(false)
			return tail(pc)
		}
	} else {
		ucfg, pcfg = scfg, ccfg
		pcfg.InsecureSkipVerify = true
		peer = func(pc *Conn) error {
			cp := vfNewCliPeer(pc)
			if err := cp.SendClientHello(vfCHOpt{}); err != nil {
				return err
			}
			if err := cp.ReadServerFlight(); err != nil {
				return err
			}
			if c.During {
				vfPeerAlert(pc, c.Level, c.Code)
			}
			if err := cp.PrepareCKE(nil); err != nil {
				return err
			}
			cp.SendCKE(nil)
			cp.ComputeMaster()
			cp.EstablishKeys()
			cp.SendCCS()
			cp.SendFinished(false)
			if !vfPeerPending(pc) {
				return nil
			}
			if err := cp.ReadServerFinished(); err != nil {
				return err
			}
			return tail(pc)
		}
	}
	var got []byte
	var readErr error
	later := false
	r := vfRunVsPeer(c.Client, ucfg, pcfg, peer, func(cn *Conn, hsErr error) error {
		if hsErr != nil {
			return nil
		}
		buf := make([]byte, 64)
		for i := 0; i < 100; i++ {
			n, err := cn.Read(buf)
			got = append(got, buf[:n]...)
			if err != nil {
				readErr = err
				for k := 0; k < 3; k++ {
					if n2, e2 := cn.Read(buf); n2 != 0 || e2 == nil {
						later = true
					}
				}
				return nil
			}
			if string(got) == "beforeafter" {
				return nil
			}
		}
		return nil
	})
	if r.UPanic != "" {
		return "panic", r.UPanic
	}
	if r.PPanic != "" {
		return "harness-peer-panic", r.PPanic
	}
	closeNotify := c.Code == 0
	ignorable := c.Level == 1 && !closeNotify
	if c.During {
		// during the handshake: a warning is skipped, anything else ends the handshake
		if ignorable {
			if r.UErr != nil {
				return "alert-warning-during-handshake", fmt.Sprintf("a warning alert (code %d) during the handshake made it fail: %v", c.Code, r.UErr)
			}
			return "", ""
		}
		if r.UErr == nil {
			return "alert-ignored-during-handshake", fmt.Sprintf("alert level %d code %d during the handshake was ignored and the handshake completed", c.Level, c.Code)
		}
		return "", ""
	}
	if r.UErr != nil {
		return "honest-failed", fmt.Sprintf("%v (peer %v)", r.UErr, r.PErr)
	}
	if ignorable {
		if string(got) != "beforeafter" || readErr != nil {
			return "alert-warning", fmt.Sprintf("warning alert code %d: read %q, %v; want both chunks", c.Code, got, readErr)
		}
		return "", ""
	}
	if string(got) != "before" {
		return "alert-data-after", fmt.Sprintf("alert level %d code %d: application read %q, want only the data sent before the alert (err %v)", c.Level, c.Code, got, readErr)
	}
	if readErr == nil {
		return "alert-no-error", fmt.Sprintf("alert level %d code %d produced no error", c.Level, c.Code)
	}
	if later {
		return "alert-not-sticky", "a Read after the alert error succeeded"
	}
	if closeNotify && readErr != io.EOF {
		return "close-notify-kind", fmt.Sprintf("close-notify (level %d) reported as %v, want io.EOF", c.Level, readErr)
	}
	if !closeNotify && readErr == io.EOF {
		return "fatal-alert-as-eof", fmt.Sprintf("alert level %d code %d reported as io.EOF", c.Level, c.Code)
	}
	return "", ""
}

// ---------------------------------------------------------------------------- (c) API histories

func c12Established(suite uint16) (cli, srv *Conn, sim *vfStream, err error) {
	ccfg, scfg := vfBaseConfigs(suite, false)
	sim = vfNewStream()
	sim.monitor = false
	cli, srv = Client(sim.ends[0], ccfg), Server(sim.ends[1], scfg)
	var wg sync.WaitGroup
	var e1, e2 error
	wg.Add(2)
	go func() { defer wg.Done(); e1 = cli.Handshake() }()
	go func() { defer wg.Done(); e2 = srv.Handshake() }()
	wg.Wait()
	if e1 != nil || e2 != nil {
		return nil, nil, nil, fmt.Errorf("%v / %v", e1, e2)
	}
	return
}

type c12APICase struct {
	Suite uint16 `json:"suite"`
	Kind  string `json:"kind"`
	J     int    `json:"j"`
	Side  int    `json:"side"`
}

var c12APIKinds = []string{"close-then-io", "double-close", "write-after-closewrite", "early-closewrite", "failed-handshake-sticky", "early-appdata", "cancel", "write-error-sticky", "deadline-mid-record", "fatal-after-closewrite", "failed-closewrite", "ignored-flood", "close-during-write"}

func c12RunAPI(c c12APICase) (sig, msg string, nt bool) {
	buf := make([]byte, 32)
	switch c.Kind {
	case "close-then-io", "double-close", "write-after-closewrite":
		cli, srv, _, err := c12Established(c.Suite)
		if err != nil {
			return "honest-failed", err.Error(), false
		}
		x, y := cli, srv
		if c.Side == 1 {
			x, y = srv, cli
		}
		switch c.Kind {
		case "close-then-io":
			if err := x.Close(); err != nil {
				return "close-error", fmt.Sprintf("first Close returned %v", err), true
			}
			if n, err := x.Write([]byte("x")); err == nil || n != 0 {
				return "write-after-close", fmt.Sprintf("Write after Close returned (%d, %v)", n, err), true
			}
			if n, err := x.Read(buf); err == nil || n != 0 {
				return "read-after-close", fmt.Sprintf("Read after Close returned (%d, %v)", n, err), true
			}
			// the peer sees a clean end of stream, repeatedly
			for i := 0; i < 2; i++ {
				if n, err := y.Read(buf); n != 0 || err != io.EOF {
					return "peer-eof-after-close", fmt.Sprintf("peer Read %d after Close returned (%d, %v), want io.EOF", i, n, err), true
				}
			}
		case "double-close":
			x.Close()
			if err := x.Close(); !errors.Is(err, net.ErrClosed) {
				return "second-close", fmt.Sprintf("second Close returned %v, want net.ErrClosed", err), true
			}
		case "write-after-closewrite":
			if err := x.CloseWrite(); err != nil {
				return "closewrite-error", err.Error(), true
			}
			if n, err := x.Write([]byte("x")); err == nil || n != 0 {
				return "write-after-closewrite", fmt.Sprintf("Write after CloseWrite returned (%d, %v)", n, err), true
			}
			// the read half still works
			go y.Write([]byte("still"))
			if n, err := io.ReadFull(x, buf[:5]); err != nil || string(buf[:n]) != "still" {
				return "read-after-closewrite", fmt.Sprintf("Read after CloseWrite returned %q, %v", buf[:n], err), true
			}
			if n, err := y.Read(buf); n != 0 || err != io.EOF {
				return "peer-eof-after-closewrite", fmt.Sprintf("peer Read returned (%d, %v), want io.EOF", n, err), true
			}
		}
		return "", "", true
	case "fatal-after-closewrite":
		// the reader has shut down its own write side (CloseWrite) and goes on reading; then a record
		// that must be fatal arrives (J: 0 garbage of type 23, 1 garbage of type 22, 2 unknown type,
		// 3 plaintext alert-like record, 4 a correctly protected handshake record), followed by ordinary
		// data: the error must be reported, stay reported, and the data behind it must not come out
		cli, srv, sim, err := c12Established(c.Suite)
		if err != nil {
			return "honest-failed", err.Error(), false
		}
		x, y, xi := cli, srv, 0
		if c.Side == 1 {
			x, y, xi = srv, cli, 1
		}
		if c.J < 5 {
			if err := x.CloseWrite(); err != nil {
				return "closewrite-error", err.Error(), true
			}
		}
		garbage := bytes.Repeat([]byte{0xA5}, 48)
		switch c.J % 5 {
		case 0:
			sim.ends[1-xi].inject(append([]byte{23, 1, 1, 0, 48}, garbage...))
		case 1:
			sim.ends[1-xi].inject(append([]byte{22, 1, 1, 0, 48}, garbage...))
		case 2:
			sim.ends[1-xi].inject(append([]byte{99, 1, 1, 0, 48}, garbage...))
		case 3:
			sim.ends[1-xi].inject([]byte{21, 1, 1, 0, 2, 2, 40})
		case 4:
			if err := vfPeerRawRecord(y, recordTypeHandshake, []byte{0, 0, 0, 0}); err != nil {
				return "harness", err.Error(), false
			}
		}
		y.Write([]byte("data behind the fatal record"))
		sim.ends[1-xi].cutNow() // nothing more will come: a reader that swallowed the error ends in EOF instead of waiting
		var got []byte
		var rerr error
		for i := 0; i < 50 && rerr == nil && len(got) == 0; i++ {
			n, e := x.Read(buf)
			got = append(got, buf[:n]...)
			rerr = e
			if n == 0 && e == nil {
				rerr = errors.New("Read returned (0, nil)")
				return "read-zero-nil", fmt.Sprintf("after a record that must be fatal (kind %d, reader half-closed: %v) Read returned (0, nil)", c.J%5, c.J < 5), true
			}
		}
		if len(got) > 0 || rerr == nil || rerr == io.EOF {
			return "fatal-record-swallowed", fmt.Sprintf("a record that must be fatal (kind %d) arrived at a reader that had called CloseWrite: %v; Read delivered %q and ended with %v", c.J%5, c.J < 5, got, rerr), true
		}
		if n, e := x.Read(buf); n != 0 || e == nil {
			return "error-not-sticky", fmt.Sprintf("a later Read returned (%d, %v)", n, e), true
		}
		sim.ends[0].Close()
		sim.ends[1].Close()
		return "", "", true
	case "deadline-mid-record":
		// A read deadline expires while only part of a record (J bytes: inside the header or inside the
		// body) has arrived; the deadline is then extended. Variant A (J even): the rest arrives - the
		// data must come out whole. Variant B (J odd): the transport ends - that is a truncation inside
		// a record (unexpected EOF), not a clean end of stream.
		cli, srv, sim, err := c12Established(c.Suite)
		if err != nil {
			return "honest-failed", err.Error(), false
		}
		x, y, xi := cli, srv, 0
		if c.Side == 1 {
			x, y, xi = srv, cli, 1
		}
		var staged []byte
		sim.ends[1-xi].edit = func(idx int, rec []byte) [][]byte {
			staged = append(staged, rec...)
			return nil
		}
		payload := c01Payload(300, 9)
		if _, err := y.Write(payload); err != nil {
			return "honest-failed", err.Error(), false
		}
		k := []int{1, 2, 3, 4, 5, 6, 40, 200}[c.J/2%8]
		if k >= len(staged) {
			return "harness", "record shorter than expected", false
		}
		sim.ends[1-xi].inject(staged[:k])
		type rr struct {
			n   int
			err error
		}
		buf := make([]byte, 1000)
		ch := make(chan rr, 1)
		go func() { n, err := x.Read(buf); ch <- rr{n, err} }()
		xe := sim.ends[xi]
		for i := 0; i < 40000; i++ { // until the reader has taken the partial record and waits for more
			sim.mu.Lock()
			waiting := xe.blocked > 0 && len(xe.in) == 0
			sim.mu.Unlock()
			if waiting {
				break
			}
			time.Sleep(50 * time.Microsecond)
		}
		x.SetReadDeadline(time.Now().Add(-time.Second))
		var r1 rr
		select {
		case r1 = <-ch:
		case <-time.After(10 * time.Second):
			return "harness", "Read did not return when its deadline passed", false
		}
		if r1.n != 0 || r1.err == nil {
			return "deadline-read", fmt.Sprintf("Read with %d of %d record bytes arrived and an expired deadline returned (%d, %v)", k, len(staged), r1.n, r1.err), true
		}
		x.SetReadDeadline(time.Time{})
		if c.J%2 == 0 {
			sim.ends[1-xi].inject(staged[k:])
			sim.ends[1-xi].cutNow() // nothing more will come: a reader that lost bytes gets an error instead of waiting
			n, err := io.ReadFull(x, buf[:len(payload)])
			if err != nil || !bytes.Equal(buf[:n], payload) {
				return "data-lost-after-deadline", fmt.Sprintf("a read deadline expired with %d of %d record bytes arrived and was then extended; once the rest arrived Read returned %d bytes, error %v (payload intact: %v)", k, len(staged), n, err, bytes.Equal(buf[:n], payload)), true
			}
			return "", "", true
		}
		sim.ends[1-xi].cutNow()
		n, err := x.Read(buf)
		if n != 0 || !errors.Is(err, io.ErrUnexpectedEOF) {
			return "truncation-after-deadline", fmt.Sprintf("a read deadline expired with %d of %d record bytes arrived and was extended, then the transport ended: Read returned (%d, %v), want io.ErrUnexpectedEOF", k, len(staged), n, err), true
		}
		if n2, err2 := x.Read(buf); n2 != 0 || err2 == nil || err2 == io.EOF {
			return "truncation-after-deadline", fmt.Sprintf("second Read after the truncation returned (%d, %v)", n2, err2), true
		}
		return "", "", true
	case "write-error-sticky":
		// A Write that failed (here: the transport's write deadline expired, before the first or
		// between the records of one payload) has used up sequence numbers: the write half is dead.
		// Later Writes must keep failing, also once the transport works again, and the peer must see
		// nothing beyond a prefix of the failed payload.
		cli, srv, sim, err := c12Established(c.Suite)
		if err != nil {
			return "honest-failed", err.Error(), false
		}
		x, y, xe := cli, srv, sim.ends[0]
		if c.Side == 1 {
			x, y, xe = srv, cli, sim.ends[1]
		}
		payload := c01Payload(40000, 5)
		if c.J%2 == 0 {
			x.SetWriteDeadline(time.Now().Add(-time.Second))
		} else {
			sim.mu.Lock()
			base := xe.nWrites
			sim.mu.Unlock()
			xe.onWrite = func(n int) {
				if n == base+1+c.J/2 {
					xe.SetWriteDeadline(time.Now().Add(-time.Second))
				}
			}
		}
		n1, err1 := x.Write(payload)
		xe.onWrite = nil
		if err1 == nil {
			return "harness", "the injected transport write timeout did not make Write fail", false
		}
		x.SetWriteDeadline(time.Time{})
		for i := 0; i < 3; i++ {
			if n, err := x.Write([]byte("after the failed write")); err == nil || n != 0 {
				return "write-after-failed-write", fmt.Sprintf("Write %d after a Write that failed with %v (%d bytes reported) returned (%d, %v)", i+1, err1, n1, n, err), true
			}
		}
		x.Close()
		got, rerr := io.ReadAll(y)
		if !bytes.HasPrefix(payload, got) {
			return "delivered-after-failed-write", fmt.Sprintf("peer received %d bytes that are no prefix of the failed payload (read error %v)", len(got), rerr), true
		}
		return "", "", true
	case "ignored-flood":
		// more ignorable records in a row than the receiver tolerates (warning alerts), then data: the
		// first Read reports the error, later Reads keep failing and hand out nothing
		cli, srv, _, err := c12Established(c.Suite)
		if err != nil {
			return "honest-failed", err.Error(), false
		}
		x, y := cli, srv
		if c.Side == 1 {
			x, y = srv, cli
		}
		n := []int{17, 18, 20, 40}[c.J%4]
		for i := 0; i < n; i++ {
			if err := vfPeerAlert(y, 1, 90); err != nil {
				return "harness", err.Error(), false
			}
		}
		if _, err := y.Write([]byte("AFTER-THE-FLOOD")); err != nil {
			return "harness", err.Error(), false
		}
		n1, e1 := x.Read(buf)
		if e1 == nil {
			// fewer records may be tolerated than sent; then the data must simply arrive
			return "", "", false
		}
		if n1 != 0 {
			return "data-with-fatal-error", fmt.Sprintf("Read returned %d bytes together with %v", n1, e1), true
		}
		for i := 0; i < 3; i++ {
			if n2, e2 := x.Read(buf); n2 != 0 || e2 == nil {
				return "read-after-fatal", fmt.Sprintf("%d warning alerts in a row made Read fail with %v; Read %d afterwards returned (%d, %v): %q", n, e1, i+2, n2, e2, buf[:n2]), true
			}
		}
		return "", "", true
	case "close-during-write":
		// Close arrives while a Write of another goroutine is stalled in the transport: the connection is
		// closed all the same - a second Close reports that, later Writes fail
		if c.J%2 == 1 {
			// the Write is still inside its implicit handshake (the peer is silent)
			ccfg, scfg := vfBaseConfigs(c.Suite, false)
			sim := vfNewStream()
			sim.monitor = false
			sim.ends[0].lenientClose, sim.ends[1].lenientClose = true, true
			var x *Conn
			if c.Side == 0 {
				x = Client(sim.ends[0], ccfg)
			} else {
				x = Server(sim.ends[1], scfg)
			}
			wdone := make(chan error, 1)
			go func() { _, err := x.Write([]byte("hello")); wdone <- err }()
			for i := 0; i < 200000; i++ {
				sim.mu.Lock()
				b := sim.ends[c.Side].blocked > 0
				sim.mu.Unlock()
				if b {
					break
				}
				time.Sleep(50 * time.Microsecond)
			}
			ce := x.Close()
			select {
			case <-wdone:
			case <-time.After(10 * time.Second):
				return "close-does-not-unblock", "a Write waiting in its handshake did not return after Close", true
			}
			e2 := x.Close()
			if e2 == nil || !errors.Is(e2, net.ErrClosed) {
				return "second-close", fmt.Sprintf("Close (first result %v) arrived while a Write was waiting in its handshake; the second Close returned %v, want an error saying the connection is closed", ce, e2), true
			}
			if n, err := x.Write([]byte("x")); n != 0 || err == nil {
				return "write-after-close", fmt.Sprintf("Write after Close returned (%d, %v)", n, err), true
			}
			return "", "", true
		}
		cli, srv, sim, err := c12Established(c.Suite)
		if err != nil {
			return "honest-failed", err.Error(), false
		}
		x, xe := cli, sim.ends[0]
		if c.Side == 1 {
			x, xe = srv, sim.ends[1]
		}
		xe.lenientClose = true
		gate, stalled := make(chan struct{}), make(chan struct{})
		var once sync.Once
		xe.onWrite = func(int) {
			once.Do(func() {
				close(stalled)
				<-gate
			})
		}
		wdone := make(chan error, 1)
		go func() { _, err := x.Write(c01Payload(3000, 1)); wdone <- err }()
		select {
		case <-stalled:
		case <-time.After(10 * time.Second):
			close(gate)
			return "harness", "the Write never reached the transport", false
		}
		cdone := make(chan error, 1)
		go func() { cdone <- x.Close() }()
		var ce error
		select {
		case ce = <-cdone:
		case <-time.After(10 * time.Second):
			close(gate)
			return "close-blocked", "Close did not return while a Write was stalled in the transport", true
		}
		close(gate)
		<-wdone
		_ = ce
		e2 := x.Close()
		if !errors.Is(e2, net.ErrClosed) {
			return "second-close", fmt.Sprintf("Close (first result %v) arrived while a Write was stalled in the transport; the second Close returned %v, want an error saying the connection is closed", ce, e2), true
		}
		if n, err := x.Write([]byte("x")); n != 0 || err == nil {
			return "write-after-close", fmt.Sprintf("Write after Close returned (%d, %v)", n, err), true
		}
		return "", "", true
	case "failed-closewrite":
		// CloseWrite whose close_notify does not get through (the link fails after J bytes of that
		// transport write; later transport writes work again): the write side was shut down all the same -
		// later Writes must fail and put nothing on the wire that the peer could take for data.
		cli, srv, sim, err := c12Established(c.Suite)
		if err != nil {
			return "honest-failed", err.Error(), false
		}
		x, y, xe := cli, srv, sim.ends[0]
		if c.Side == 1 {
			x, y, xe = srv, cli, sim.ends[1]
		}
		if _, err := x.Write([]byte("before")); err != nil {
			return "honest-failed", err.Error(), false
		}
		sim.mu.Lock()
		xe.partialAt, xe.partialN = xe.nWrites, []int{0, 3, 5, 20}[c.J%4]
		sim.mu.Unlock()
		err1 := x.CloseWrite()
		if err1 == nil {
			return "closewrite-error-lost", "the transport write carrying close_notify failed, CloseWrite returned nil", true
		}
		x.SetWriteDeadline(time.Time{})
		for i := 0; i < 3; i++ {
			if n, err := x.Write([]byte("after the failed CloseWrite")); err == nil || n != 0 {
				return "write-after-failed-closewrite", fmt.Sprintf("Write %d after a CloseWrite that failed with %v returned (%d, %v)", i+1, err1, n, err), true
			}
		}
		x.Close()
		got, _ := io.ReadAll(y)
		if !bytes.HasPrefix([]byte("before"), got) {
			return "delivered-after-failed-closewrite", fmt.Sprintf("peer received %q", got), true
		}
		return "", "", true
	case "early-closewrite":
		ccfg, scfg := vfBaseConfigs(c.Suite, false)
		sim := vfNewStream()
		x := Client(sim.ends[0], ccfg)
		if c.Side == 1 {
			x = Server(sim.ends[1], scfg)
		}
		if err := x.CloseWrite(); err == nil {
			return "early-closewrite", "CloseWrite before the handshake returned nil", true
		}
		return "", "", true
	case "failed-handshake-sticky":
		// the peer's first flight is garbage: the handshake fails; it must keep failing
		ccfg, scfg := vfBaseConfigs(c.Suite, false)
		sim := vfNewStream()
		sim.monitor = false
		var x *Conn
		if c.J >= 4 {
			// the handshake fails on an expired deadline while the peer is silent; the application
			// extends the deadline and calls Handshake again; a peer that then starts (over) must not
			// be served: a failed handshake stays failed
			var y *Conn
			if c.Side == 0 {
				x, y = Client(sim.ends[0], ccfg), Server(sim.ends[1], scfg)
			} else {
				x, y = Server(sim.ends[1], scfg), Client(sim.ends[0], ccfg)
			}
			x.SetDeadline(time.Now().Add(-time.Second))
			e1 := x.Handshake()
			if e1 == nil {
				return "harness", "handshake with an expired deadline and a silent peer succeeded", false
			}
			x.SetDeadline(time.Time{})
			ydone := make(chan error, 1)
			go func() { ydone <- y.Handshake() }()
			xdone := make(chan error, 1)
			go func() { xdone <- x.Handshake() }()
			var e2 error
			select {
			case e2 = <-xdone:
			case <-time.After(10 * time.Second):
				sim.ends[0].Close()
				sim.ends[1].Close()
				return "handshake-error-not-sticky", fmt.Sprintf("Handshake failed with %v; after the deadline was lifted a second Handshake call did not return at once but went on with the protocol", e1), true
			}
			sim.ends[0].Close()
			sim.ends[1].Close()
			<-ydone
			if e2 == nil || e2.Error() != e1.Error() {
				return "handshake-error-not-sticky", fmt.Sprintf("second Handshake returned %v after %v (deadline expired, then lifted)", e2, e1), true
			}
			if x.ConnectionState().HandshakeComplete {
				return "complete-flag", "HandshakeComplete after failure", true
			}
			return "", "", true
		}
		if c.Side == 0 {
			x = Client(sim.ends[0], ccfg)
			sim.ends[1].inject([]byte{22, 1, 1, 0, 4, []byte{2, 11, 14, 20}[c.J%4], 0, 0, 0})
			sim.ends[1].cutNow()
		} else {
			x = Server(sim.ends[1], scfg)
			sim.ends[0].inject([]byte{22, 1, 1, 0, 4, []byte{1, 16, 2, 20}[c.J%4], 0, 0, 0})
			sim.ends[0].cutNow()
		}
		e1 := x.Handshake()
		if e1 == nil {
			return "garbage-accepted", "handshake succeeded on garbage", true
		}
		e2 := x.Handshake()
		if e2 == nil || e2.Error() != e1.Error() {
			return "handshake-error-not-sticky", fmt.Sprintf("second Handshake returned %v after %v", e2, e1), true
		}
		if n, err := x.Read(buf); n != 0 || err == nil {
			return "read-after-failed-handshake", fmt.Sprintf("Read returned (%d, %v)", n, err), true
		}
		if n, err := x.Write([]byte("x")); n != 0 || err == nil {
			return "write-after-failed-handshake", fmt.Sprintf("Write returned (%d, %v)", n, err), true
		}
		if x.ConnectionState().HandshakeComplete {
			return "complete-flag", "HandshakeComplete after failure", true
		}
		return "", "", true
	case "early-appdata":
		// application data arrives before the handshake has completed (in the clear, at record j of the peer)
		ccfg, scfg := vfBaseConfigs(c.Suite, false)
		var opt vfPairOpt
		applied := false
		opt.Edit[1-c.Side] = func(idx int, rec []byte) [][]byte {
			if idx == c.J {
				applied = true
				return [][]byte{{23, 1, 1, 0, 5, 'e', 'a', 'r', 'l', 'y'}, rec}
			}
			return [][]byte{rec}
		}
		var got []byte
		act := func(cn *Conn) error {
			n, _ := cn.Read(buf)
			got = append(got, buf[:n]...)
			return nil
		}
		if c.Side == 0 {
			opt.CliAct = act
		} else {
			opt.SrvAct = act
		}
		r := vfRunPair(ccfg, scfg, opt)
		if r.CPanic != "" || r.SPanic != "" {
			return "panic", r.CPanic + r.SPanic, true
		}
		if !applied {
			return "", "", false
		}
		uerr := r.CErr
		if c.Side == 1 {
			uerr = r.SErr
		}
		if uerr == nil {
			return "early-appdata-accepted", fmt.Sprintf("application data before record %d of the handshake did not fail it (read %q)", c.J, got), true
		}
		if len(got) != 0 {
			return "early-appdata-delivered", fmt.Sprintf("early application data was delivered: %q", got), true
		}
		return "", "", true
	case "cancel":
		// cancel the context at the j-th transport operation of the endpoint's handshake
		ccfg, scfg := vfBaseConfigs(c.Suite, false)
		sim := vfNewStream()
		sim.monitor = false
		cli, srv := Client(sim.ends[0], ccfg), Server(sim.ends[1], scfg)
		x, y := cli, srv
		if c.Side == 1 {
			x, y = srv, cli
		}
		// J / 1000 selects the kind of context: 0 WithCancel, 1 WithTimeout(1 h) cancelled explicitly,
		// 2 WithDeadline(1 h) child of a parent that is cancelled
		var ctx context.Context
		var cancel context.CancelFunc
		switch c.J / 1000 {
		case 1:
			ctx, cancel = context.WithTimeout(context.Background(), time.Hour)
		case 2:
			parent, pcancel := context.WithCancel(context.Background())
			var ccancel context.CancelFunc
			ctx, ccancel = context.WithDeadline(parent, time.Now().Add(time.Hour))
			defer ccancel()
			cancel = pcancel
		default:
			ctx, cancel = context.WithCancel(context.Background())
		}
		defer cancel()
		ops := 0
		fired := false
		end := sim.ends[c.Side]
		after := c.J%1000 >= 100 // J >= 100: cancel when operation J-100 has been carried out (its data delivered) instead of before it
		target := c.J % 100
		hook := func(int) {
			if ops == target && !fired {
				fired = true
				cancel()
				// wait until the interrupter has closed the transport, so that the outcome is deterministic
				deadline := time.Now().Add(10 * time.Second)
				for time.Now().Before(deadline) {
					sim.mu.Lock()
					cl := end.closed
					sim.mu.Unlock()
					if cl {
						break
					}
					time.Sleep(50 * time.Microsecond)
				}
			}
			ops++
		}
		if after {
			end.afterRead, end.afterWrite = hook, hook
		} else {
			end.onRead, end.onWrite = hook, hook
		}
		done := make(chan error, 1)
		go func() { done <- y.Handshake() }()
		err := x.HandshakeContext(ctx)
		sim.ends[0].Close()
		sim.ends[1].Close()
		<-done
		if !fired {
			if err != nil {
				return "honest-failed", fmt.Sprintf("no cancellation happened (only %d transport operations) but the handshake failed: %v", ops, err), false
			}
			return "", "", false
		}
		if !errors.Is(err, context.Canceled) {
			return "cancel-error", fmt.Sprintf("context cancelled at transport operation %d of the handshake (after it was carried out: %v; the transport had been closed by the cancellation before the call went on), HandshakeContext returned %v", target, after, err), true
		}
		if after {
			// the handshake may have been complete internally when the cancellation arrived: only the
			// reported error and the dead transport are asserted
			if n, err := x.Read(buf); n != 0 || err == nil {
				return "read-after-cancel", fmt.Sprintf("Read returned (%d, %v) after a cancelled handshake", n, err), true
			}
			return "", "", true
		}
		if e2 := x.Handshake(); e2 == nil {
			return "cancel-not-sticky", "Handshake succeeded after a cancelled handshake", true
		}
		if n, err := x.Read(buf); n != 0 || err == nil {
			return "read-after-cancel", fmt.Sprintf("Read returned (%d, %v) after a cancelled handshake", n, err), true
		}
		return "", "", true
	}
	return "harness", "unknown kind " + c.Kind, false
}

func TestVF_C12(t *testing.T) {
	recA := vfRec("C12", "C12a-eof", "after an honest handshake the sender's records (several writes, optionally followed by close-notify through Close or CloseWrite) are held back and a prefix of every length is delivered under three chunkings (whole; one byte per transport read; record-aligned so that a partial tail arrives alone), then the transport ends, reporting io.EOF either in a read of its own or together with the last bytes; oracle: data of whole records, io.EOF only after close-notify or at a record boundary, io.ErrUnexpectedEOF inside a record, error sticky; non-trivial = a cut before the end or a close-notify; distinct = the case")
	idx := 0
	suites := []uint16{ECC_SM4_GCM_SM3, ECC_SM4_CBC_SM3}
	for _, suite := range suites {
		for dir := 0; dir < 2; dir++ {
			for cl := 0; cl <= 2; cl++ {
				writes := []int{3, 20, 1}
				// total staged length: learn it with a run that delivers everything
				probe := c12EOFCase{Suite: suite, Dir: dir, Writes: writes, Close: cl, Cut: -1}
				total := 0
				{
					var n int
					for _, w := range writes {
						if suite == ECC_SM4_GCM_SM3 {
							n += 5 + 8 + w + 16
						} else {
							n += 5 + 16 + ((w+32)/16+1)*16
						}
					}
					if cl != 0 {
						if suite == ECC_SM4_GCM_SM3 {
							n += 5 + 8 + 2 + 16
						} else {
							n += 5 + 16 + 48
						}
					}
					total = n
				}
				for cut := -1; cut <= total; cut++ {
					for chunk := 0; chunk <= 5; chunk++ {
						if !vfThorough() && chunk%3 == 1 && cut%3 != 0 {
							continue
						}
						idx++
						if !vfMine(idx) {
							continue
						}
						c := probe
						c.Cut, c.Chunk = cut, chunk
						c.Buf = []int{4096, 1, 7}[(cut+chunk+3)%3]
						sig, msg, nt := c12RunEOF(c)
						if sig != "" {
							recA.Violation(sig, c, "%s", msg)
						}
						recA.Eval(nt, c, fmt.Sprintf("chunk:%d", chunk), fmt.Sprintf("close:%d", cl))
					}
				}
			}
		}
	}
	recA.SetExhaustive(true, fmt.Sprintf("%d (suite, direction, close mode, cut offset, chunking) cases", idx))
	vfRapid(t, recA, "eof-random", vfN(400, 8000), func(t *rapid.T) {
		c := c12EOFCase{Suite: rapid.SampledFrom(vfSuites).Draw(t, "suite"), Dir: rapid.IntRange(0, 1).Draw(t, "dir"),
			Writes: rapid.SliceOfN(rapid.IntRange(1, 400), 1, 4).Draw(t, "writes"), Close: rapid.IntRange(0, 2).Draw(t, "close"),
			Cut: rapid.IntRange(-1, 900).Draw(t, "cut"), Chunk: rapid.IntRange(0, 5).Draw(t, "chunk"), Buf: rapid.SampledFrom([]int{1, 7, 4096}).Draw(t, "buf")}
		sig, msg, nt := c12RunEOF(c)
		if sig != "" {
			recA.Fail(t, sig, c, "%s", msg)
		}
		recA.Eval(nt, c, "random")
	})

	recB := vfRec("C12", "C12b-alerts", "a scripted peer sends a correctly protected alert of every level in {0,1,2,3,255} and every code 0..255 between two application records (after the handshake), or in the clear during the handshake; both roles; oracle: close-notify => io.EOF, warning => skipped, anything else => permanent non-EOF error and nothing delivered after it; distinct = the case")
	j := 0
	for _, client := range []bool{true, false} {
		for _, level := range []byte{0, 1, 2, 3, 255} {
			for code := 0; code < 256; code++ {
				if !vfThorough() && !client && code%4 != 0 && code > 120 {
					continue
				}
				j++
				if !vfMine(j) {
					continue
				}
				c := c12AlertCase{Client: client, Suite: []uint16{ECC_SM4_GCM_SM3, ECC_SM4_CBC_SM3}[code%2], Level: level, Code: byte(code)}
				sig, msg := c12RunAlert(c)
				if sig != "" {
					recB.Violation(fmt.Sprintf("%s:l%d", sig, level), c, "%s", msg)
				}
				recB.Eval(true, c, fmt.Sprintf("level:%d", level))
				if code%16 == 0 || code == 90 || code == 100 {
					c.During = true
					sig, msg := c12RunAlert(c)
					if sig != "" {
						recB.Violation(fmt.Sprintf("%s:l%d", sig, level), c, "%s", msg)
					}
					recB.Eval(true, c, "during-handshake")
				}
			}
		}
	}
	recB.SetExhaustive(vfThorough(), fmt.Sprintf("%d alert cases (5 levels x 256 codes x 2 roles in the thorough tier)", j))

	recC := vfRec("C12", "C12c-api", "API histories (contexts: WithCancel, WithTimeout cancelled explicitly, WithDeadline under a cancelled parent; CloseWrite whose close_notify is cut off by a link failure): Close then Read/Write, double Close, Write after CloseWrite (read half still usable, peer sees EOF), CloseWrite before completion, failed handshake stays failed (Handshake, Read, Write), application data injected in the clear before every record of the handshake, context cancellation before and right after every transport operation of the handshake (including the last one), five kinds of record that must be fatal arriving at a reader that has or has not called CloseWrite (error reported and kept, nothing behind it delivered), a read deadline that expires with 1..6, 40 or 200 bytes of a record arrived and is then extended (the rest arrives: data whole; the transport ends: unexpected EOF), a Write failing on a transport write timeout (before the first / between the records of one payload) must stay failed after the deadline is cleared and the peer sees only a prefix; both sides, suites GCM and CBC; distinct = the case")
	k := 0
	for _, suite := range suites {
		for side := 0; side < 2; side++ {
			for _, kind := range c12APIKinds {
				maxJ := 0
				switch kind {
				case "failed-handshake-sticky":
					maxJ = 4
				case "ignored-flood":
					maxJ = 3
				case "close-during-write":
					maxJ = 1
				case "early-appdata":
					maxJ = 7
				case "cancel":
					maxJ = 14
				case "write-error-sticky":
					maxJ = 5
				case "deadline-mid-record":
					maxJ = 15
				case "fatal-after-closewrite":
					maxJ = 9
				case "failed-closewrite":
					maxJ = 3
				}
				js := []int{}
				for jj := 0; jj <= maxJ; jj++ {
					js = append(js, jj)
					if kind == "cancel" {
						js = append(js, 100+jj)
						if jj%3 == 1 {
							js = append(js, 1000+jj, 2000+jj, 1100+jj)
						}
					}
				}
				for _, jj := range js {
					k++
					if !vfMine(k) {
						continue
					}
					c := c12APICase{Suite: suite, Kind: kind, J: jj, Side: side}
					sig, msg, nt := c12RunAPI(c)
					if sig != "" {
						recC.Violation(sig, c, "%s", msg)
					}
					recC.Eval(nt, c, "kind:"+kind)
				}
			}
		}
	}
	recC.SetExhaustive(true, fmt.Sprintf("%d API history cases", k))
}

func init() {
	vfRegisterReplay("C12a-eof", func(raw json.RawMessage) error {
		var c c12EOFCase
		if err := json.Unmarshal(raw, &c); err != nil {
			return err
		}
		if sig, msg, _ := c12RunEOF(c); sig != "" {
			return fmt.Errorf("%s: %s", sig, msg)
		}
		return nil
	})
	vfRegisterReplay("C12b-alerts", func(raw json.RawMessage) error {
		var c c12AlertCase
		if err := json.Unmarshal(raw, &c); err != nil {
			return err
		}
		if sig, msg := c12RunAlert(c); sig != "" {
			return fmt.Errorf("%s: %s", sig, msg)
		}
		return nil
	})
	vfRegisterReplay("C12c-api", func(raw json.RawMessage) error {
		var c c12APICase
		if err := json.Unmarshal(raw, &c); err != nil {
			return err
		}
		if sig, msg, _ := c12RunAPI(c); sig != "" {
			return fmt.Errorf("%s: %s", sig, msg)
		}
		return nil
	})
}
